#!/bin/bash
# tools/try_seed.sh <patch.diff> : apply a seeded change to /repo, run every claimed check (quick), undo it.
set -u
P=$1
cd /repo || exit 2
if ! git diff --quiet; then echo "/repo has uncommitted changes"; exit 2; fi
git apply "$P" || { echo "patch does not apply"; exit 2; }
cd /verif
for m in $(ls bsa/rules/c[0-9]*.py | sed 's#.*/c\([0-9]*\).py#C\1#'); do
  out=$(./check $m 2>&1); rc=$?
  if [ $rc -ne 0 ]; then echo "== $m rc=$rc"; echo "$out" | grep -E "^FINDING|ANALYSIS-ERROR" | cut -c1-260 | head -5; fi
done
git -C /repo checkout -- .
echo "(reverted)"; git -C /repo status --short | head -3
