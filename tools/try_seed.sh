#!/bin/bash
# tools/try_seed.sh <patch.diff> : apply a change to a scratch copy of /repo/src (never to /repo itself), run every claimed check (quick)
# against it and print what they report.
set -u
P=$(readlink -f "$1")
T=$(mktemp -d /tmp/bsa_try_XXXXXX)
cp -r /repo/src "$T/src"
rm -rf "$T/src/bluesky/tests"
( cd "$T" && patch -s -p1 -i "$P" ) || { echo "patch does not apply"; rm -rf "$T"; exit 2; }
cd /verif
for m in $(ls bsa/rules/c[0-9]*.py | sed 's#.*/c\([0-9]*\).py#C\1#'); do
  out=$(BSA_REPO=$T BSA_EVIDENCE_DIR=$T/ev BSA_OUT_DIR=$T/out ./check $m 2>&1); rc=$?
  if [ $rc -ne 0 ]; then echo "== $m rc=$rc"; echo "$out" | grep -E "^FINDING|ANALYSIS-ERROR" | sed "s#$T#/repo#g" | cut -c1-260 | head -5; fi
done
rm -rf "$T"
echo "(scratch copy removed)"
