#!/venv/bin/python
"""Regenerate the generated tables of DESIGN.md (between <!-- BEGIN GENERATED:name --> / <!-- END GENERATED:name -->)
from the rule modules (CLAIM, MUTANTS, BENIGN), the last evidence files, known_findings.json and seeded/MATRIX.json."""
import importlib
import json
import os
import re
import sys

V = "/verif"
sys.path.insert(0, V)


def as_built():
    rows = ["| id | level | decided (from the rule module's CLAIM) | rules (obligations on the current tree) | self-test |", "|---|---|---|---|---|"]
    for fn in sorted(os.listdir(f"{V}/bsa/rules")):
        if not re.fullmatch(r"c\d+\.py", fn):
            continue
        pid = fn[:-3].upper()
        mod = importlib.import_module(f"bsa.rules.{fn[:-3]}")
        claim = getattr(mod, "CLAIM", {})
        ev = {}
        try:
            ev = json.load(open(f"{V}/evidence/{pid}.json"))
        except Exception:
            pass
        rules = {}
        cov = ev.get("coverage", {})
        rr = cov.get("rules") or {}
        if isinstance(rr, dict):
            rules.update(rr)
        if not rules:
            for line in open(f"{V}/bsa/rules/{fn}"):
                for m in re.finditer(rf'"({pid}\.D\d[\w\-]*)"', line):
                    rules.setdefault(m.group(1), "")
        rtxt = "; ".join(f"{k}{' ×' + str(v) if v not in ('', '?') else ''}" for k, v in sorted(rules.items()))
        st = f"{len(getattr(mod, 'MUTANTS', []))} mutants, {len(getattr(mod, 'BENIGN', []))}+4 benign"
        from bsa.main import LEVELS
        rows.append(f"| {pid} | {LEVELS.get(pid, 'other')} | {claim.get('text', '').replace('|', '/')} *Technique:* {claim.get('technique', '')} | {rtxt} | {st} |")
    return "\n".join(rows)


def findings():
    d = json.load(open(f"{V}/known_findings.json"))["findings"]
    rows = ["| family | status | property / rule | what | shown by |", "|---|---|---|---|---|"]
    fam = {}
    for e in d:
        fam.setdefault((e.get("family"), e.get("status")), []).append(e)
    for (f, st), es in sorted(fam.items(), key=lambda kv: (int(kv[0][0].split("-")[1]), kv[0][1])):
        if st == "fixed":
            e = es[0]
            rows.append(f"| {f} | fixed in /repo {e['commit']} | {e['property']} / {e['rule']} | {e['fixed'].split(' ', 3)[3]} | {e.get('shown_by', '')} |")
        else:
            props = sorted({f"{e['property']} / {e['rule']}" for e in es})
            rows.append(f"| {f} | known ({len(es)} listed constructs) | {'; '.join(props)} | {es[0]['what']} | {es[0].get('shown_by', '')} |")
    return "\n".join(rows)


def seeds():
    m = json.load(open(f"{V}/seeded/MATRIX.json"))
    rows = ["| seeded change | what it does (author's summary, shortened) | rules that report it |", "|---|---|---|"]
    for s, e in sorted(m.items()):
        meta = json.load(open(f"{V}/seeded/{s}/meta.json"))
        summ = " ".join(meta.get("summary", "").split())[:260]
        rules = sorted(r for rs in e["caught_by"].values() for r in rs)
        own = "" if e["caught_by_own_property"] else " (not by its own property's check)"
        rows.append(f"| {s} | {summ.replace('|', '/')} | {', '.join(rules) if rules else '**missed**'}{own} |")
    return "\n".join(rows)


GEN = {"as-built": as_built, "findings": findings, "seeds": seeds}
p = f"{V}/DESIGN.md"
s = open(p).read()
for name, fn in GEN.items():
    a, b = f"<!-- BEGIN GENERATED:{name} -->", f"<!-- END GENERATED:{name} -->"
    if a in s and b in s:
        i, j = s.index(a) + len(a), s.index(b)
        s = s[:i] + "\n" + fn() + "\n" + s[j:]
    else:
        print("marker missing:", name)
open(p, "w").write(s)
print("DESIGN.md tables regenerated")
