#!/venv/bin/python
"""tools/rerun_missing.py <worktree> <junit.xml> [--zmq-deselected]
Baseline tests that did not pass in <junit.xml> are re-run serially, one pytest process per test file (signal tests can kill
a pytest process: isolating files keeps the damage local), up to 2 attempts each.  Prints `<n still missing> <ids...>`."""
import json
import os
import subprocess
import sys
import xml.etree.ElementTree as ET

wt, junit = sys.argv[1], sys.argv[2]
zmq_deselected = "--zmq-deselected" in sys.argv
base = set(json.load(open("/root/.vp/BASELINE.json"))["stable_pass"])
if zmq_deselected:
    base = {b for b in base if ".test_zmq::" not in b}


def passed_ids(path):
    out = set()
    try:
        root = ET.parse(path).getroot()
    except Exception:
        return out
    for tc in root.iter("testcase"):
        if not any(ch.tag in ("failure", "error", "skipped") for ch in tc):
            c = tc.get("classname") or ""
            c = c if c.startswith("src.") else "src." + c
            out.add(f"{c}::{tc.get('name')}")
    return out


passed = passed_ids(junit)
missing = sorted(base - passed)
by_file = {}
for m in missing:
    mod, name = m.split("::", 1)
    by_file.setdefault(mod.replace(".", "/") + ".py", []).append(name)
env = dict(os.environ, PYTHONPATH=f"{wt}/src")
for attempt in (1, 2):
    for f, names in sorted(by_file.items()):
        todo = [n for n in names if f"{f[:-3].replace('/', '.')}::{n}" not in passed]
        if not todo:
            continue
        out = f"{wt}/seed/junit_rerun_{attempt}_{os.path.basename(f)}.xml"
        ids = [f"{f}::{n}" for n in todo]
        subprocess.run(["setsid", "/venv/bin/python", "-m", "pytest", "-q", "-p", "no:cacheprovider", "--timeout=300", f"--junitxml={out}"] + ids,
                       cwd=wt, env=env, stdout=subprocess.DEVNULL, stderr=subprocess.DEVNULL, timeout=3000)
        passed |= passed_ids(out)
still = sorted(base - passed)
print(len(still), ";".join(still[:5]))
