#!/bin/bash
# tools/mk_worktree.sh <name>  -> /tmp/wt/<name>: scratch git worktree of /repo HEAD, importable with PYTHONPATH=/tmp/wt/<name>/src
set -e
mkdir -p /tmp/wt
git -C /repo worktree add -q --detach /tmp/wt/$1 HEAD
cp /repo/src/bluesky/_version.py /tmp/wt/$1/src/bluesky/_version.py
echo /tmp/wt/$1
