#!/bin/bash
# tools/try_one.sh <patch.diff> <Cxx> [...] : run the named checks (quick) against a scratch copy of /repo/src with the patch applied
set -u
P=$(readlink -f "$1"); shift
T=$(mktemp -d /tmp/bsa_try_XXXXXX)
cp -r /repo/src "$T/src"; rm -rf "$T/src/bluesky/tests"
( cd "$T" && patch -s -p1 -i "$P" ) || { echo "patch does not apply"; rm -rf "$T"; exit 2; }
cd /verif
for m in "$@"; do
  BSA_REPO=$T BSA_EVIDENCE_DIR=$T/ev BSA_OUT_DIR=$T/out ./check $m 2>&1 | grep -E "^FINDING|ANALYSIS-ERROR|Traceback|Error" | sed "s#$T#/repo#g" | cut -c1-420
done
rm -rf "$T"
