#!/venv/bin/python
"""Dynamic self-test of the NORMALISER (bsa/normalize.py + bsa/alpha.py), not a property check: every rewrite it performs must
preserve behaviour.  For each kept behaviour-preserving refactor (benign/<id>) and, with --seeds, each seeded change, the patched
modules are normalised exactly as the loader does (without the removal of inert statements, which would silence logging the tests
look at), written back as source to a scratch copy of the repository, and the test files of the touched modules are run against
that copy.  A test that passes on the patched tree but fails on its normalised form exposes an unsound rewrite.
Usage: tools/normaliser_selftest.py [--seeds] [name ...]   (scratch copies live under /tmp and are removed)"""
import ast
import json
import os
import re
import shutil
import subprocess
import sys
import tempfile

V = "/verif"
sys.path.insert(0, V)
from bsa import alpha, normalize  # noqa: E402

TESTS = {
    "run_engine.py": ["test_run_engine.py", "test_new_examples.py", "test_suspenders.py", "test_multi_runs.py"],
    "bundlers.py": ["test_run_engine.py", "test_new_examples.py", "test_external_assets_and_paging.py", "test_flyer.py"],
    "preprocessors.py": ["test_preprocessors.py", "test_new_examples.py", "test_plans.py"],
    "plan_stubs.py": ["test_plans.py", "test_new_examples.py", "test_plan_stubs.py"],
    "plans.py": ["test_plans.py", "test_new_examples.py", "test_scientific.py"],
    "plan_patterns.py": ["test_plan_patterns.py", "test_plans.py", "test_new_examples.py"],
    "suspenders.py": ["test_suspenders.py"],
    "simulators.py": ["test_simulators.py"],
    "utils/__init__.py": ["test_utils.py", "test_callbacks.py", "test_persistent_dict.py", "test_run_engine.py"],
    "callbacks/zmq.py": [],
    "callbacks/json_writer.py": ["test_json_writer.py"],
    "callbacks/tiled_writer.py": ["test_tiled_writer.py"],
    "callbacks/stream.py": ["test_streams.py"],
    "consolidators.py": ["test_consolidators.py", "test_tiled_writer.py"],
}
KNOWN_BAD = ("test_validate_external_data[False-shape]", "test_proxy_script")


def normalise_source(src: str, modname: str) -> tuple[str, dict]:
    tree = ast.parse(src)
    st = normalize.normalise_module(tree, modname)
    for _ in range(3):
        if not alpha.normalise(tree, modname, strict=True):
            break
    st["temporaries"] = normalize.normalise_temporaries(tree, modname)
    for _ in range(3):
        if not alpha.normalise(tree, modname):
            break
    st["guards"] = normalize.normalise_guards(tree, modname)
    st["shapes"] = alpha.canonicalise_shapes(tree, modname)
    return ast.unparse(ast.fix_missing_locations(tree)), st


def run_tests(root, files):
    if not files:
        return set(), "no tests selected"
    cmd = ["/venv/bin/python", "-m", "pytest", "-q", "-p", "no:cacheprovider", "--timeout=300", "--no-header", "-rf", "-k", "not test_sigint and not test_proxy_script and not test_no_context_manager",
           "--deselect", "src/bluesky/tests/test_tiled_writer.py::test_validate_external_data",
           *[f"src/bluesky/tests/{f}" for f in files if os.path.exists(f"{root}/src/bluesky/tests/{f}")]]
    r = subprocess.run(cmd, cwd=root, env=dict(os.environ, PYTHONPATH=f"{root}/src"), capture_output=True, text=True)
    failed = {m for m in re.findall(r"^FAILED (\S+)", r.stdout, re.M) if not any(k in m for k in KNOWN_BAD)}
    tail = r.stdout.strip().splitlines()[-1] if r.stdout.strip() else r.stderr[-200:]
    return failed, tail


def one(name, patch):
    tmp = tempfile.mkdtemp(prefix="bsa_normtest_")
    try:
        subprocess.run(["git", "-C", "/repo", "archive", "--format=tar", "HEAD", "-o", f"{tmp}/r.tar"], check=True)
        subprocess.run(["tar", "-xf", "r.tar"], cwd=tmp, check=True)
        os.remove(f"{tmp}/r.tar")
        shutil.copy("/repo/src/bluesky/_version.py", f"{tmp}/src/bluesky/_version.py")
        if subprocess.run(["patch", "-s", "-p1", "-i", patch], cwd=tmp).returncode != 0:
            return name, "patch does not apply", {}
        changed = re.findall(r"^\+\+\+ b/(src/bluesky/\S+\.py)", open(patch).read(), re.M)
        files, stats = [], {}
        for rel in changed:
            if "/tests/" in rel:
                continue
            key = rel[len("src/bluesky/"):]
            mod = rel[len("src/"):-3].replace("/", ".")
            if mod.endswith(".__init__"):
                mod = mod[:-9]
            src = open(f"{tmp}/{rel}").read()
            new, st = normalise_source(src, mod)
            stats[key] = {k: v for k, v in st.items() if v}
            compile(new, rel, "exec")
            open(f"{tmp}/{rel}", "w").write(new)
            files += TESTS.get(key, ["test_run_engine.py"])
        files = sorted(set(files))
        failed, tail = run_tests(tmp, files)
        if failed:  # load-sensitive tests: once more, alone
            again, _ = run_tests(tmp, files)
            failed &= again
        return name, ("FAIL " + " ".join(sorted(failed))) if failed else ("ok   " + tail), stats
    finally:
        shutil.rmtree(tmp, ignore_errors=True)


if __name__ == "__main__":
    args = [a for a in sys.argv[1:] if not a.startswith("--")]
    jobs = [(d, f"{V}/benign/{d}/patch.diff") for d in sorted(os.listdir(f"{V}/benign")) if os.path.isdir(f"{V}/benign/{d}")]
    if "--seeds" in sys.argv:
        jobs += [(d, f"{V}/seeded/{d}/patch.diff") for d in sorted(os.listdir(f"{V}/seeded")) if os.path.isdir(f"{V}/seeded/{d}")]
    if args:
        jobs = [j for j in jobs if j[0] in args]
    out = {}
    bad = 0
    for name, patch in jobs:
        n, verdict, stats = one(name, patch)
        print(f"{n}: {verdict}   rewrites: {stats}", flush=True)
        out[n] = {"verdict": verdict, "rewrites": stats}
        bad += verdict.startswith("FAIL")
    dest = os.environ.get("NORMTEST_OUT") or f"{V}/benign/NORMALISER_SELFTEST.json"
    json.dump(out, open(dest, "w"), indent=1, sort_keys=True)
    sys.exit(1 if bad else 0)
