#!/venv/bin/python
"""Run every claimed check (quick) against every kept seeded change and record which rules report it.

Each seed is applied to a scratch copy of /repo/src (tempfile, removed afterwards) - /repo itself is not touched.
Writes seeded/<id>/meta.json["caught_by"] and seeded/MATRIX.json; prints one line per seed."""
import json
import os
import re
import shutil
import subprocess
import sys
import tempfile
from concurrent.futures import ThreadPoolExecutor

V = "/verif"
props = sorted(f[:-3].upper() for f in os.listdir(f"{V}/bsa/rules") if re.fullmatch(r"c\d+\.py", f))
only = sys.argv[1:]


def one(seed):
    d = f"{V}/seeded/{seed}"
    tmp = tempfile.mkdtemp(prefix="bsa_seed_")
    try:
        shutil.copytree("/repo/src", f"{tmp}/src", ignore=shutil.ignore_patterns("tests", "__pycache__"))
        r = subprocess.run(["patch", "-s", "-p1", "-i", f"{d}/patch.diff"], cwd=tmp, capture_output=True, text=True)
        if r.returncode != 0:
            return seed, None, "patch does not apply: " + (r.stdout + r.stderr)[-200:]
        env = dict(os.environ, BSA_REPO=tmp, BSA_EVIDENCE_DIR=f"{tmp}/ev", BSA_OUT_DIR=f"{tmp}/out")
        caught = {}
        errors = []
        for p in props:
            rr = subprocess.run([f"{V}/check", p], env=env, capture_output=True, text=True)
            if rr.returncode == 1:
                rules = sorted(set(re.findall(r"^FINDING property=\S+ rule=(\S+)", rr.stdout, re.M)))
                caught[p] = rules
            elif rr.returncode != 0:
                errors.append(p)
        return seed, caught, ";".join(errors)
    finally:
        shutil.rmtree(tmp, ignore_errors=True)


seeds = sorted(s for s in os.listdir(f"{V}/seeded") if os.path.isdir(f"{V}/seeded/{s}") and (not only or s in only))
matrix = {}
if os.path.exists(f"{V}/seeded/MATRIX.json"):
    matrix = json.load(open(f"{V}/seeded/MATRIX.json"))
with ThreadPoolExecutor(max_workers=8) as ex:
    for seed, caught, err in ex.map(one, seeds):
        own = seed.split("-")[0]
        if caught is None:
            print(f"{seed}: {err}")
            continue
        rules = sorted(r for rs in caught.values() for r in rs)
        matrix[seed] = {"property": own, "caught_by_own_property": own in caught, "caught_by": caught, "analysis_errors": err}
        mp = f"{V}/seeded/{seed}/meta.json"
        meta = json.load(open(mp))
        meta["caught_by"] = caught
        json.dump(meta, open(mp, "w"), indent=1)
        print(f"{seed}: {'CAUGHT' if caught else 'MISSED'} own={own in caught} {rules[:4]} {('errors: ' + err) if err else ''}")
json.dump(matrix, open(f"{V}/seeded/MATRIX.json", "w"), indent=1, sort_keys=True)
