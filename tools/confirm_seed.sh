#!/bin/bash
# tools/confirm_seed.sh <worktree-name> <seed-id>
# Confirms a seeded change in its scratch worktree: demo fails with it, passes without it, the existing suite still passes with it.
# On success copies patch/demo/meta into /verif/seeded/<seed-id>/ ; always prints a one-line verdict.
set -u
WT=/tmp/wt/$1; ID=$2
cd $WT || exit 2
export PYTHONPATH=$WT/src
[ -f seed/patch.diff ] || { echo "CONFIRM $ID: no patch"; exit 2; }
git checkout -q -- src 2>/dev/null
git apply seed/patch.diff || { echo "CONFIRM $ID: patch does not apply"; exit 2; }
timeout 300 /venv/bin/python seed/demo.py > seed/demo_with.log 2>&1; RC_WITH=$?
git apply -R seed/patch.diff
timeout 300 /venv/bin/python seed/demo.py > seed/demo_without.log 2>&1; RC_WITHOUT=$?
git apply seed/patch.diff
ZMQ="--deselect src/bluesky/tests/test_zmq.py"
if grep -q "callbacks/zmq.py" seed/patch.diff; then ZMQ=""; fi
timeout 2400 /venv/bin/python -m pytest -q -p no:cacheprovider --timeout=300 -n 6 src/bluesky/tests $ZMQ --junitxml=seed/junit.xml > seed/suite.log 2>&1
SUITE=$(tail -1 seed/suite.log)
MISSING=$(/venv/bin/python - <<PY
import json, xml.etree.ElementTree as ET
base = set(json.load(open("/root/.vp/BASELINE.json"))["stable_pass"])
if "$ZMQ":
    base = {b for b in base if ".test_zmq::" not in b}
passed = set()
for tc in ET.parse("seed/junit.xml").getroot().iter("testcase"):
    if not any(ch.tag in ("failure", "error", "skipped") for ch in tc):
        c = tc.get('classname') or ''; passed.add((c if c.startswith('src.') else 'src.' + c) + '::' + str(tc.get('name')))
missing = sorted(base - passed)
print(len(missing), ";".join(missing[:5]))
PY
)
NMISS=${MISSING%% *}
if [ "$NMISS" != "0" ]; then
  # time / signal sensitive tests flake (or a worker crashes) under parallel load: re-run what is missing serially, one process per file
  ZFLAG=""; [ -n "$ZMQ" ] && ZFLAG="--zmq-deselected"
  MISSING=$(/verif/tools/rerun_missing.py $WT seed/junit.xml $ZFLAG)
  SUITE="$SUITE ; serial per-file re-run of what was missing: still missing $MISSING"
fi
echo "CONFIRM $ID: demo_with_rc=$RC_WITH demo_without_rc=$RC_WITHOUT suite=[$SUITE] baseline_missing=[$MISSING]"
NMISS=${MISSING%% *}
if [ "$RC_WITH" != "0" ] && [ "$RC_WITHOUT" = "0" ] && [ "$NMISS" = "0" ]; then
  mkdir -p /verif/seeded/$ID
  cp seed/patch.diff seed/demo.py /verif/seeded/$ID/
  /venv/bin/python - <<PY
import json
m = json.load(open("seed/meta.json")) if __import__("os").path.exists("seed/meta.json") else {}
m["confirmed"] = {"demo_with_change_rc": $RC_WITH, "demo_without_change_rc": $RC_WITHOUT, "suite_with_change": "$SUITE",
                  "baseline_tests_not_passing_with_change": 0,
                  "commands": ["PYTHONPATH=<wt>/src /venv/bin/python seed/demo.py (with and without the patch)",
                               "PYTHONPATH=<wt>/src /venv/bin/python -m pytest -q -p no:cacheprovider --timeout=300 -n 6 src/bluesky/tests $ZMQ, compared with BASELINE.json stable_pass"]}
json.dump(m, open("/verif/seeded/$ID/meta.json", "w"), indent=1)
PY
  echo "CONFIRM $ID: KEPT -> /verif/seeded/$ID"
else
  echo "CONFIRM $ID: REJECTED"
fi
