#!/venv/bin/python
"""compare a junit xml against /root/.vp/BASELINE.json stable_pass: every stable test must still pass."""
import json, sys, xml.etree.ElementTree as ET
base = set(json.load(open("/root/.vp/BASELINE.json"))["stable_pass"])
root = ET.parse(sys.argv[1]).getroot()
passed = set()
for tc in root.iter("testcase"):
    bad = any(ch.tag in ("failure", "error", "skipped") for ch in tc)
    if not bad:
        passed.add(f"{tc.get('classname')}::{tc.get('name')}")
missing = sorted(base - passed)
print(f"baseline stable: {len(base)}  passed now: {len(passed)}  baseline tests not passing now: {len(missing)}")
for m in missing[:40]:
    print("  MISSING", m)
sys.exit(1 if missing else 0)
