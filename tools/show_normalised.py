#!/venv/bin/python
"""tools/show_normalised.py <patch.diff|-> <module:qualname> ...  : the function(s) as the rules see them (after the loader's
normalisation), for the tree with the patch applied (scratch copy) or for /repo itself ('-')."""
import ast, os, shutil, subprocess, sys, tempfile
sys.path.insert(0, "/verif")
patch, keys = sys.argv[1], sys.argv[2:]
tmp = None
if patch != "-":
    tmp = tempfile.mkdtemp(prefix="bsa_show_")
    shutil.copytree("/repo/src", f"{tmp}/src", ignore=shutil.ignore_patterns("tests", "__pycache__"))
    subprocess.run(["patch", "-s", "-p1", "-i", os.path.abspath(patch)], cwd=tmp, check=True)
    os.environ["BSA_REPO"] = tmp
from bsa.loader import Repo
repo = Repo(tmp or "/repo")
print("stats:", repo.stats().get("refactors_undone"), "renamed:", {k: v for k, v in repo.stats()["locals_renamed_back"].items() if any(x in k for x in keys) or True} if False else "")
for k in keys:
    f = repo.funcs.get(k)
    print("=" * 20, k, "FOUND" if f else "MISSING")
    if f:
        print(ast.unparse(f.node))
if tmp:
    shutil.rmtree(tmp)
