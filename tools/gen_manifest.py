#!/venv/bin/python
"""Regenerate /verif/MANIFEST.json from bsa/claims.py (single source of truth for what is claimed)."""
import json
import os
import sys

HERE = os.path.dirname(os.path.dirname(os.path.abspath(__file__)))
sys.path.insert(0, HERE)
from bsa.claims import CLAIMS, NOT_APPLICABLE  # noqa: E402

props = [json.loads(l)["id"] for l in open(os.path.join(HERE, "properties.jsonl"))]
baseline = json.load(open("/root/.vp/BASELINE.json"))["cmd"] if os.path.exists("/root/.vp/BASELINE.json") else \
    "cd /repo && /venv/bin/python -m pytest -ra -q -p no:cacheprovider --timeout=900 --continue-on-collection-errors --junitxml=<file>"

checks = []
for pid in props:
    c = CLAIMS.get(pid)
    if c is None:
        continue
    checks.append({
        "property_id": pid,
        "quick_cmd": f"./check {pid} --tier quick",
        "thorough_cmd": f"./check {pid} --tier thorough",
        "evidence_file": f"/verif/evidence/{pid}.json",
        "replay_cmd_template": f"./check {pid} --replay {{path}}",
        "engine": "bsa",
        "level_claimed": {"category": c.get("level", "other"), "text": c["text"], "design_ref": c.get("design_ref", f"DESIGN.md section 4, {pid}")},
        "level_note": c["note"],
        "technique": c["technique"],
    })
na = []
for pid in props:
    if pid in CLAIMS:
        continue
    na.append({"property_id": pid, "reason": NOT_APPLICABLE.get(pid, "rule not implemented yet in this framework; not claimed")})

manifest = {
    "version": 1,
    "setup_cmd": "/venv/bin/python -m compileall -q bsa >/dev/null && /venv/bin/python -c \"import ast,sys; ast.parse(open('check').read())\"",
    "hooks": {
        "guard": "BLUESKY_VERIF",
        "enable": "none needed: the checks parse /repo/src/bluesky with ast on every run; no instrumentation exists in /repo",
        "baseline_off_cmd": baseline,
        "source_commits": [],
        "add_only": True,
    },
    "engines": [{
        "name": "bsa",
        "path": "/verif/bsa",
        "serves_properties": [c["property_id"] for c in checks],
        "kind_free_text": "repository-specific static analyser over the Python ast: statement CFGs with exceptional edges, "
                          "dominance / must-pass-through queries, thread-modular typestate fixpoints, finite abstract interpretation, "
                          "ownership (who-may-write) tables, sibling agreement, copy-depth/mutation analysis, order-type evaluation",
    }],
    "checks": checks,
    "not_applicable": na,
    "notes": "Static analysis only: no registered command imports or runs bluesky. Exit 2 + ANALYSIS-ERROR means the analysis "
             "could not run (anchor vanished / internal error) and is never a verdict. Known findings: /verif/known_findings.json.",
}
with open(os.path.join(HERE, "MANIFEST.json"), "w") as f:
    json.dump(manifest, f, indent=1)
    f.write("\n")
print(f"MANIFEST.json: {len(checks)} checks, {len(na)} not applicable")
