#!/venv/bin/python
"""tools/add_known.py <PROP> <family> <what> <shown_by> [rule-prefix]
Developer helper (never run by a check): adds every finding currently under out/<PROP>/ to known_findings.json."""
import glob, json, os, sys
HERE = os.path.dirname(os.path.dirname(os.path.abspath(__file__)))
prop, family, what, shown = sys.argv[1:5]
prefix = sys.argv[5] if len(sys.argv) > 5 else ""
p = os.path.join(HERE, "known_findings.json")
d = json.load(open(p))
have = {(e["property"], e["rule"], e.get("construct")) for e in d["findings"]}
n = 0
for f in sorted(glob.glob(os.path.join(HERE, "out", prop, "*.json"))):
    o = json.load(open(f))
    if prefix and not o["rule"].startswith(prefix):
        continue
    k = (prop, o["rule"], o["construct"])
    if k in have:
        continue
    d["findings"].append({"status": "known", "family": family, "property": prop, "rule": o["rule"], "construct": o["construct"],
                          "what": what, "shown_by": shown})
    n += 1
json.dump(d, open(p, "w"), indent=1)
print("added", n)
