#!/venv/bin/python
"""Whole-tree behaviour-preserving variants of /repo/src/bluesky, to measure how text-brittle the rules are.

  tools/benign_global.py <variant> [Cxx ...]     variant in: roundtrip | logging | logall | rename | docstrings

Builds the variant in a temporary directory (removed afterwards), runs the named checks (default: all claimed)
with BSA_REPO pointing at it, and prints every rule that fires (none should)."""
import ast
import os
import shutil
import subprocess
import sys
import tempfile

sys.path.insert(0, os.path.join(os.path.dirname(__file__), ".."))
SRC = "/repo/src/bluesky"


from bsa.variants import rewrite_tree  # noqa: E402


def build(variant, dst):
    shutil.copytree(SRC, os.path.join(dst, "src", "bluesky"), ignore=shutil.ignore_patterns("tests", "__pycache__"))
    return rewrite_tree(variant, os.path.join(dst, "src", "bluesky"))


def main():
    variant = sys.argv[1]
    props = sys.argv[2:]
    if not props:
        props = sorted(f[:-3].upper() for f in os.listdir("/verif/bsa/rules") if f.startswith("c") and f[1:-3].isdigit())
    tmp = tempfile.mkdtemp(prefix="bsa_benign_")
    try:
        n = build(variant, tmp)
        print(f"variant={variant}: {n} files rewritten under {tmp}")
        env = dict(os.environ, BSA_REPO=tmp, BSA_EVIDENCE_DIR=os.path.join(tmp, "ev"), BSA_OUT_DIR=os.path.join(tmp, "out"))
        bad = 0
        for p in props:
            r = subprocess.run(["/verif/check", p], env=env, capture_output=True, text=True)
            if r.returncode != 0:
                bad += 1
                lines = [l for l in r.stdout.splitlines() if l.startswith(("FINDING", "ANALYSIS-ERROR"))]
                print(f"== {p} rc={r.returncode} ({len(lines)} reports)")
                for l in lines[:40]:
                    print("   ", l[:230])
        print(f"{bad} of {len(props)} checks raised an alarm on the {variant} variant")
    finally:
        shutil.rmtree(tmp, ignore_errors=True)


if __name__ == "__main__":
    main()
