#!/venv/bin/python
"""Run every claimed check (quick) against every behaviour-preserving refactor kept under benign/<id>/ (made by sub-agents told
to refactor the code a property depends on without changing behaviour).  Each is applied to a scratch copy of /repo/src.
Prints, per refactor, the checks that raise an alarm (FINDING) or cannot analyse it (ANALYSIS-ERROR); writes benign/MATRIX.json."""
import json
import os
import re
import shutil
import subprocess
import sys
import tempfile
from concurrent.futures import ThreadPoolExecutor

V = "/verif"
props = sorted(f[:-3].upper() for f in os.listdir(f"{V}/bsa/rules") if re.fullmatch(r"c\d+\.py", f))
only = sys.argv[1:]


def one(name):
    d = f"{V}/benign/{name}"
    tmp = tempfile.mkdtemp(prefix="bsa_benign_")
    try:
        shutil.copytree("/repo/src", f"{tmp}/src", ignore=shutil.ignore_patterns("tests", "__pycache__"))
        r = subprocess.run(["patch", "-s", "-p1", "-i", f"{d}/patch.diff"], cwd=tmp, capture_output=True, text=True)
        if r.returncode != 0:
            return name, None, None, "patch does not apply"
        env = dict(os.environ, BSA_REPO=tmp, BSA_EVIDENCE_DIR=f"{tmp}/ev", BSA_OUT_DIR=f"{tmp}/out")
        alarms, errors = {}, {}
        for p in props:
            rr = subprocess.run([f"{V}/check", p], env=env, capture_output=True, text=True)
            if rr.returncode == 1:
                alarms[p] = sorted(set(re.findall(r"^FINDING property=\S+ rule=(\S+)", rr.stdout, re.M)))
            elif rr.returncode != 0:
                errors[p] = (re.findall(r"^ANALYSIS-ERROR property=\S+ (.*)", rr.stdout, re.M) or ["?"])[0][:120]
        return name, alarms, errors, ""
    finally:
        shutil.rmtree(tmp, ignore_errors=True)


names = sorted(s for s in os.listdir(f"{V}/benign") if os.path.isdir(f"{V}/benign/{s}") and (not only or s in only))
matrix = {}
with ThreadPoolExecutor(max_workers=6) as ex:
    for name, alarms, errors, err in ex.map(one, names):
        if alarms is None:
            print(f"{name}: {err}")
            continue
        matrix[name] = {"false_alarms": alarms, "analysis_errors": errors}
        n = sum(len(v) for v in alarms.values())
        print(f"{name}: {'SILENT' if not alarms and not errors else 'ALARM' if alarms else 'ERROR'} alarms={n} in {sorted(alarms)} errors={sorted(errors)}")
if only and os.path.exists(f"{V}/benign/MATRIX.json"):  # partial run: merge into the last full matrix
    matrix = {**json.load(open(f"{V}/benign/MATRIX.json")), **matrix}
json.dump(matrix, open(f"{V}/benign/MATRIX.json", "w"), indent=1, sort_keys=True)
