"""Whole-package behaviour-preserving rewrites, used by the self-test (thorough tier) and tools/benign_global.py
to show that no rule depends on layout, docstrings or logging statements.  Only ast.parse / ast.unparse are applied;
the rewritten copy is never imported or run."""

from __future__ import annotations

import ast
import os


class AddLogging(ast.NodeTransformer):
    def visit_FunctionDef(self, node):
        self.generic_visit(node)
        stmt = ast.parse("logger.debug('enter %s', 1)").body[0]  # never executed: only analysed
        i = 1 if (node.body and isinstance(node.body[0], ast.Expr) and isinstance(node.body[0].value, ast.Constant) and isinstance(node.body[0].value.value, str)) else 0
        node.body.insert(i, stmt)
        return node
    visit_AsyncFunctionDef = visit_FunctionDef


class LogEverywhere(ast.NodeTransformer):
    """a logging call at the start of every statement list (function, branch, loop, handler, finally, with bodies)"""
    def generic_visit(self, node):
        super().generic_visit(node)
        for fld in ("body", "orelse", "finalbody"):
            lst = getattr(node, fld, None)
            if isinstance(lst, list) and lst and isinstance(lst[0], ast.stmt) and not isinstance(node, (ast.Module, ast.ClassDef)):
                i = 1 if (isinstance(lst[0], ast.Expr) and isinstance(lst[0].value, ast.Constant)) else 0
                lst.insert(i, ast.parse("logger.debug('at %s', 2)").body[0])
        return node


class Docstrings(ast.NodeTransformer):
    def visit_FunctionDef(self, node):
        self.generic_visit(node)
        if node.body and isinstance(node.body[0], ast.Expr) and isinstance(node.body[0].value, ast.Constant) and isinstance(node.body[0].value.value, str):
            node.body[0].value.value = "reworded. " + node.body[0].value.value
        else:
            node.body.insert(0, ast.Expr(ast.Constant("added docstring")))
        return node
    visit_AsyncFunctionDef = visit_FunctionDef


def rename_locals(tree):
    """alpha-rename, per top-level function tree, every name bound by assignment / for / with / comprehension /
    except-as inside it (not parameters, not global-declared, not names that are also module-level bindings)."""
    module_names = set()
    for s in tree.body:
        for n in ast.walk(s) if not isinstance(s, (ast.FunctionDef, ast.AsyncFunctionDef, ast.ClassDef)) else [s]:
            if isinstance(n, ast.Name) and isinstance(n.ctx, ast.Store):
                module_names.add(n.id)
            if isinstance(n, (ast.FunctionDef, ast.AsyncFunctionDef, ast.ClassDef)):
                module_names.add(n.name)
            if isinstance(n, ast.alias):
                module_names.add((n.asname or n.name).split(".")[0])
    import builtins
    keep = module_names | set(dir(builtins))

    def do_tree(fn):
        bound, params, declared, inner_defs = set(), set(), set(), set()
        for n in ast.walk(fn):
            if isinstance(n, ast.Name) and isinstance(n.ctx, (ast.Store, ast.Del)):
                bound.add(n.id)
            if isinstance(n, ast.arg):
                params.add(n.arg)
            if isinstance(n, (ast.Global,)):
                declared.update(n.names)
            if isinstance(n, (ast.FunctionDef, ast.AsyncFunctionDef, ast.ClassDef)) and n is not fn:
                inner_defs.add(n.name)
            if isinstance(n, ast.ExceptHandler) and n.name:
                bound.add(n.name)
        # class bodies inside functions: their Store names are attributes; skip trees containing classes for safety
        if any(isinstance(n, ast.ClassDef) for n in ast.walk(fn)):
            return
        todo = {b for b in bound if b not in params and b not in declared and b not in keep and b not in inner_defs and not b.startswith("__")}
        for n in ast.walk(fn):
            if isinstance(n, ast.Name) and n.id in todo:
                n.id = n.id + "_r"
            if isinstance(n, ast.ExceptHandler) and n.name in todo:
                n.name = n.name + "_r"
            if isinstance(n, ast.Nonlocal):
                n.names = [x + "_r" if x in todo else x for x in n.names]

    def walk_defs(body):
        for s in body:
            if isinstance(s, (ast.FunctionDef, ast.AsyncFunctionDef)):
                do_tree(s)
            elif isinstance(s, ast.ClassDef):
                walk_defs(s.body)
    walk_defs(tree.body)
    return tree



class FlipIfElse(ast.NodeTransformer):
    """`if c: A else: B` -> `if not c: B else: A` (plain if/else only, no elif chains)"""
    def visit_If(self, node):
        self.generic_visit(node)
        if node.orelse and not (len(node.orelse) == 1 and isinstance(node.orelse[0], ast.If)) and not isinstance(node.test, ast.NamedExpr) \
                and not any(isinstance(n, ast.NamedExpr) for n in ast.walk(node.test)):
            test = node.test.operand if isinstance(node.test, ast.UnaryOp) and isinstance(node.test.op, ast.Not) else ast.UnaryOp(op=ast.Not(), operand=node.test)
            return ast.If(test=test, body=node.orelse, orelse=node.body)
        return node


class FlipCompare(ast.NodeTransformer):
    """`a == b` -> `b == a`, `a < b` -> `b > a` for single comparisons of side-effect-free operands"""
    SW = {ast.Eq: ast.Eq, ast.NotEq: ast.NotEq, ast.Lt: ast.Gt, ast.Gt: ast.Lt, ast.LtE: ast.GtE, ast.GtE: ast.LtE}

    def visit_Compare(self, node):
        self.generic_visit(node)
        if len(node.ops) == 1 and type(node.ops[0]) in self.SW and not any(isinstance(n, (ast.Call, ast.Await, ast.NamedExpr, ast.Yield)) for n in ast.walk(node)):
            return ast.Compare(left=node.comparators[0], ops=[self.SW[type(node.ops[0])]()], comparators=[node.left])
        return node


class AugToAssign(ast.NodeTransformer):
    """`x += e` -> `x = x + e` for plain names and self attributes"""
    def visit_AugAssign(self, node):
        import copy
        if isinstance(node.target, ast.Name) or (isinstance(node.target, ast.Attribute) and isinstance(node.target.value, ast.Name)):
            load = copy.deepcopy(node.target)
            load.ctx = ast.Load()
            return ast.Assign(targets=[node.target], value=ast.BinOp(left=load, op=node.op, right=node.value), lineno=node.lineno)
        return node


GLOBAL_VARIANTS = ("roundtrip", "logall", "docstrings", "rename", "flipif", "flipcmp")


def rewrite_tree(variant: str, pkg_dir: str) -> int:
    """Rewrite every .py file under pkg_dir in place.  -> number of files."""
    n = 0
    for root, _, files in os.walk(pkg_dir):
        for fn in files:
            if not fn.endswith(".py"):
                continue
            p = os.path.join(root, fn)
            with open(p) as f:
                src = f.read()
            tree = ast.parse(src)
            if variant == "logging":
                tree = AddLogging().visit(tree)
            elif variant == "logall":
                tree = LogEverywhere().visit(tree)
            elif variant == "docstrings":
                tree = Docstrings().visit(tree)
            elif variant == "rename":
                tree = rename_locals(tree)
            elif variant == "flipif":
                tree = FlipIfElse().visit(tree)
            elif variant == "flipcmp":
                tree = FlipCompare().visit(tree)
            elif variant == "augassign":
                tree = AugToAssign().visit(tree)
            elif variant != "roundtrip":
                raise ValueError(f"unknown variant {variant}")
            ast.fix_missing_locations(tree)
            out = ast.unparse(tree)
            compile(out, p, "exec")
            with open(p, "w") as f:
                f.write(out + "\n")
            n += 1
    return n
