"""Idioms about the RunEngine's map of open runs."""
import ast

from . import astutil as A

ALL_BUNDLERS = {
    "self._run_bundlers.values()", "list(self._run_bundlers.values())", "tuple(self._run_bundlers.values())",
    "self._run_bundlers.items()", "list(self._run_bundlers.items())",
}


def iterates_all_bundlers(loop) -> bool:
    return isinstance(loop, (ast.For, ast.AsyncFor)) and A.norm(loop.iter) in ALL_BUNDLERS


def broadcast_loops(func_node, method: str):
    """for-loops over every open run's bundler that call ``method`` on the loop variable"""
    out = []
    for s in A.walk_stmts(func_node.body):
        if iterates_all_bundlers(s) and A.method_calls(s, method):
            # the loop body must not skip runs
            skips = [x for x in A.walk_stmts(s.body) if isinstance(x, (ast.Break, ast.Continue, ast.Return))]
            if not skips:
                out.append(s)
    return out
