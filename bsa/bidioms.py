"""Idioms about the RunEngine's map of open runs."""
import ast

from . import astutil as A

ALL_BUNDLERS = {
    "self._run_bundlers.values()", "list(self._run_bundlers.values())", "tuple(self._run_bundlers.values())",
    "self._run_bundlers.items()", "list(self._run_bundlers.items())",
}


def iterates_all_bundlers(loop) -> bool:
    return isinstance(loop, (ast.For, ast.AsyncFor)) and A.norm(loop.iter) in ALL_BUNDLERS


def evaluated_unconditionally(stmt, node) -> bool:
    """``node`` is evaluated whenever ``stmt`` (a simple statement or the header of a compound one) is executed: it is not in
    the right operand of and / or, a branch of a conditional expression, a comprehension, a lambda or a nested statement body"""
    pm = A.parents(stmt)
    cur = node
    while cur is not stmt:
        par = pm.get(cur)
        if par is None:
            return False
        if isinstance(par, ast.BoolOp) and par.values[0] is not cur:
            return False
        if isinstance(par, ast.IfExp) and par.test is not cur:
            return False
        if isinstance(par, (ast.Lambda, ast.ListComp, ast.SetComp, ast.DictComp, ast.GeneratorExp)):
            return False
        if isinstance(par, ast.Compare) and False:
            return False
        if isinstance(par, ast.stmt) and par is not stmt:
            return False
        cur = par
    return True


def broadcast_loops(func_node, method: str):
    """for-loops over every open run's bundler that call ``method`` on the loop variable in every iteration: the call sits
    in a top-level statement of the loop body (``with`` / ``try`` bodies are looked through) and is evaluated unconditionally
    there, and nothing in the body skips a run"""
    out = []
    for s in A.walk_stmts(func_node.body):
        if iterates_all_bundlers(s) and A.method_calls(s, method):
            # the loop body must not skip runs
            skips = [x for x in A.walk_stmts(s.body) if isinstance(x, (ast.Break, ast.Continue, ast.Return))]
            if skips:
                continue
            tops = []

            def collect(block):
                for x in block:
                    if isinstance(x, (ast.With, ast.AsyncWith)):
                        collect(x.body)
                    elif isinstance(x, ast.Try):
                        collect(x.body)
                    else:
                        tops.append(x)

            collect(A.body(s.body))
            ok = False
            for x in tops:
                if isinstance(x, (ast.If, ast.While, ast.For, ast.AsyncFor, ast.Try, ast.FunctionDef, ast.AsyncFunctionDef, ast.ClassDef, ast.Match)):
                    continue
                for c in A.method_calls(x, method):
                    if evaluated_unconditionally(x, c):
                        ok = True
            if ok:
                out.append(s)
    return out


def bundler_method_calls(node, method: str):
    """calls of ``method`` on a run's bundler: on a local holding it (whatever it is called) or on ``self._run_bundlers[<key>]``"""
    out = []
    for c in A.calls_in(node):
        if isinstance(c.func, ast.Attribute) and c.func.attr == method:
            r = c.func.value
            if isinstance(r, ast.Name) and r.id not in ("self", "obj", "msg") or (isinstance(r, ast.Subscript) and A.chain(r.value) == "self._run_bundlers"):
                out.append(c)
    return out
