"""Query helpers used by the rule modules (thin wrappers over cfg / astutil)."""

from __future__ import annotations

import ast

from . import astutil as A
from . import cfg as C
from .idioms import REPolicy, cname, where, self_attr_writes
from .loader import AnalysisError, Func, Repo

_HIER = {}


def hier(repo: Repo) -> C.Hier:
    if id(repo) not in _HIER:
        _HIER[id(repo)] = C.Hier(repo)
    return _HIER[id(repo)]


def quiet_policy(repo: Repo, **kw) -> C.Policy:
    """Policy in which nothing raises implicitly (pure control-flow dominance questions)."""
    return C.Policy(hier(repo), calls_raise=False, await_kinds=(), yield_kinds=(), **kw)


def gen_policy(repo: Repo, kinds=("GeneratorExit", "Exception")) -> C.Policy:
    """Generators: exceptions are injected at yields only."""
    return C.Policy(hier(repo), calls_raise=False, await_kinds=(), yield_kinds=tuple(kinds))


def cfg(func: Func, policy: C.Policy) -> C.CFG:
    return C.build(func, policy)


def stmts(func_or_node, pred) -> list[ast.stmt]:
    node = getattr(func_or_node, "node", func_or_node)
    return [s for s in A.walk_stmts(node.body) if pred(s)]


def one_stmt(func: Func, pred, what: str) -> ast.stmt:
    hits = stmts(func, pred)
    if not hits:
        raise AnalysisError(f"anchor vanished: {what} in {func.key}")
    return hits[0]


def has_call(node, name: str) -> bool:
    return bool(A.find_calls(node, name))


def stmt_calls(name: str):
    """predicate: simple statement (not compound) whose own expression calls ``name``"""
    def pred(s):
        if isinstance(s, (ast.If, ast.While, ast.For, ast.AsyncFor, ast.With, ast.AsyncWith, ast.Try,
                          ast.FunctionDef, ast.AsyncFunctionDef, ast.ClassDef)):
            return False
        return bool(A.find_calls(s, name))
    return pred


def node_pred_stmt(pred):
    """CFG node predicate from a statement predicate (matches the node evaluating that statement)."""
    def p(n: C.Node):
        return n.stmt is not None and n.kind not in ("join", "with_exit") and pred(n.stmt) and (
            n.kind != "test" or isinstance(n.stmt, ast.Assert))
    return p


def dominated(g: C.CFG, target_stmt, guard_node_pred, edge_ok=None):
    """None if every entry->target path passes a node satisfying guard_node_pred, else a witness."""
    ids = g.nodes_of(target_stmt)
    if not ids:
        return ["<target unreachable>"]
    return g.dominated_by(ids, guard_node_pred, edge_ok=edge_ok)


def guard_true_dominates(g: C.CFG, target_stmt, test_pred, want: str):
    """Every path to target passes the ``want`` ('T'/'F') edge of a test node satisfying test_pred.
    Implemented by cutting those edges and asking whether target is still reachable."""
    ids = set(g.nodes_of(target_stmt))
    if not ids:
        return ["<target unreachable>"]

    def edge_ok(u, v, label):
        n = g.nodes[u]
        if n.kind == "test" and label == want and test_pred(n.ast):
            return False
        return True

    seen = g.reachable([g.entry], edge_ok=edge_ok)
    for t in ids:
        if t in seen:
            return g.path_to(seen, t)
    return None


def raises_before(func: Func, test_pred, repo: Repo):
    """``if <test>: raise ...`` statements of func"""
    out = []
    for s in A.walk_stmts(func.node.body):
        if isinstance(s, ast.If) and test_pred(s.test) and any(isinstance(x, ast.Raise) for x in s.body):
            out.append(s)
    return out


def attr_writers(repo: Repo, attr: str, modules=None, cls_prefix=None):
    """[(func, stmt, kind)] for writes to self.<attr> across the package (or the given modules)."""
    out = []
    for f in repo.all_funcs():
        if modules is not None and f.module.name not in modules:
            continue
        if cls_prefix is not None and not f.qualname.startswith(cls_prefix):
            continue
        for s, a, kind in self_attr_writes(f.node, attr):
            out.append((f, s, kind))
    return out


def check_writers(ctx, rule: str, repo: Repo, attr: str, allowed: dict, modules=None, cls_prefix=None, min_instances=1,
                  kinds=None):
    """Closed-world ownership: every writer of self.<attr> must be in ``allowed`` {qualname: reason}."""
    n = 0
    for f, s, kind in attr_writers(repo, attr, modules, cls_prefix):
        if kinds is not None and not any(kind.startswith(k) for k in kinds):
            continue
        n += 1
        ok = f.qualname in allowed
        ctx.ob(rule, cname(f, s), ok,
               allowed.get(f.qualname, "") if ok else f"`{A.head(s)}` writes self.{attr} ({kind}) from a function outside the frozen owner table",
               where=where(f, s))
    ctx.expect(rule, min_instances)
    return n


def local_defs(func_node, name: str) -> list[ast.stmt]:
    return [s for s in A.walk_stmts(func_node.body)
            if any(isinstance(t, ast.Name) and t.id == name for t in A.targets_of(s))]


def between(body: list, a_idx: int, b_idx: int):
    return body[a_idx + 1:b_idx]


def index_in(body: list, pred):
    for i, s in enumerate(body):
        if pred(s):
            return i
    return None


def flat_order(func_node, preds: list, what: str):
    """Indices (in source order of a depth-first statement walk) of the first statement matching each
    predicate; used for 'A happens before B' on straight-line handler code."""
    seq = list(A.walk_stmts(func_node.body))
    idx = []
    for p in preds:
        i = next((k for k, s in enumerate(seq) if p(s)), None)
        idx.append(i)
    return idx


# --------------------------------------------------------------------------- reaching definitions
def _node_defs(n: C.Node, name: str):
    """Does this CFG node (re)define local ``name``?  -> the defining value expr (or the node) or None"""
    s = n.stmt
    if n.kind == "for" and s is not None:
        if any(isinstance(t, ast.Name) and t.id == name for t in ast.walk(s.target)):
            return ("iter", s.iter)
        return None
    if n.kind == "handler" and isinstance(s, ast.ExceptHandler) and s.name == name:
        return ("except", s.type)
    if n.kind == "with_enter" and isinstance(s, (ast.With, ast.AsyncWith)):
        for it in s.items:
            if it.optional_vars is not None and any(isinstance(t, ast.Name) and t.id == name for t in ast.walk(it.optional_vars)):
                return ("with", it.context_expr)
        return None
    if n.kind in ("stmt", "test", "return", "iter") and n.ast is not None and isinstance(n.ast, ast.AST):
        if n.kind == "stmt" and isinstance(s, (ast.Assign, ast.AugAssign, ast.AnnAssign)):
            for t in A.targets_of(s):
                if isinstance(t, ast.Name) and t.id == name:
                    if isinstance(s, ast.Assign) and isinstance(s.targets[0], (ast.Tuple, ast.List)):
                        return ("unpack", s.value)
                    return ("assign", getattr(s, "value", None))
        for sub in A.walk_local(n.ast):
            if isinstance(sub, ast.NamedExpr) and sub.target.id == name:
                return ("walrus", sub.value)
    return None


def reaching_defs(g: C.CFG, nid: int, name: str):
    """Definitions of local ``name`` that reach CFG node ``nid`` -> list of (kind, value_expr, node) ;
    ('param', None, None) when the function entry is reached without a definition."""
    out = []
    seen = set()
    work = [p for p, _l in g.pred[nid]]
    while work:
        u = work.pop()
        if u in seen:
            continue
        seen.add(u)
        n = g.nodes[u]
        d = _node_defs(n, name)
        if d is not None:
            out.append((d[0], d[1], n))
            continue
        if u == g.entry:
            out.append(("param", None, None))
            continue
        work.extend(p for p, _l in g.pred[u])
    return out


# --------------------------------------------------------------------------- per-call state
PER_CALL_STATE = {
    # attribute: (predicate on the assigned value, text, what goes wrong otherwise)
    "_msg_cache": (lambda v: isinstance(v, ast.Call) and A.call_name(v) in ("deque", "collections.deque") and not v.args,
                   "deque()", "the 'no checkpoint' marker (None) of an earlier call survives: every later plan is not resumable and a pause aborts it"),
    "_deferred_pause_requested": (lambda v: isinstance(v, ast.Constant) and v.value is False, "False",
                                  "a deferred pause requested during the previous call pauses the next plan at its first checkpoint"),
    "_exception": (lambda v: isinstance(v, ast.Constant) and v.value is None, "None", "the previous call's exception is thrown into the next plan"),
    "_exit_status": (lambda v: isinstance(v, ast.Constant) and v.value == "success", "'success'", "a plan that completes reports the previous call's exit status"),
    "_reason": (lambda v: isinstance(v, ast.Constant) and v.value == "", "''", "a plan that completes reports the previous call's reason"),
    "_interrupted": (lambda v: isinstance(v, ast.Constant) and v.value is False, "False", "a completed call raises RunEngineInterrupted"),
    "_plan_stack": (lambda v: isinstance(v, ast.Call) and A.call_name(v) in ("deque", "collections.deque") and not v.args, "deque()", "plans of the previous call are still on the stack"),
    "_response_stack": (lambda v: isinstance(v, ast.Call) and A.call_name(v) in ("deque", "collections.deque") and not v.args, "deque()", "responses of the previous call are delivered to the new plan"),
}


def per_call_reset(ctx, rm, rule: str, attrs):
    """RunEngine.__call__ re-initialises per-call state unconditionally before the task is built: `_clear_call_cache`
    assigns the fresh value at its top level (not under a condition, not through a helper that may return early) and
    `__call__` calls it before `_resume_task`."""
    from .idioms import cname, where

    f = rm.m("_clear_call_cache")
    top = A.body(f.node)
    for attr in attrs:
        pred, txt, why = PER_CALL_STATE[attr]
        writes = [s for s in top if isinstance(s, (ast.Assign, ast.AnnAssign)) and any(A.chain(t) == f"self.{attr}" for t in A.targets_of(s))]
        nested = [s for s in A.walk_stmts(f.node.body) if s not in top and any(A.chain(t) == f"self.{attr}" for t in A.targets_of(s))]
        ok = len(writes) >= 1 and pred(writes[-1].value) and not nested
        ctx.ob(rule, cname(f, None, f"self.{attr} = {txt}, unconditionally"), ok,
               "" if ok else f"self.{attr} is not re-initialised to {txt} at the start of every call: {why}", nontrivial=True, where=where(f, writes[-1] if writes else f.node))
    call = rm.m("__call__")
    seq = list(A.walk_stmts(call.node.body))
    i_reset = next((i for i, s in enumerate(seq) if isinstance(s, ast.Expr) and A.find_calls(s, "self._clear_call_cache")), None)
    i_task = next((i for i, s in enumerate(seq) if A.find_calls(s, "self._resume_task") and not isinstance(s, (ast.FunctionDef, ast.If, ast.Try, ast.With))), None)
    ok = i_reset is not None and i_task is not None and i_reset < i_task and seq[i_reset] in call.node.body
    ctx.ob(rule, cname(call, None, "_clear_call_cache() runs unconditionally before the task is built"), ok,
           "" if ok else "per-call state is not reset before the plan starts", where=where(call, call.node))


def expand(func_node, expr, depth: int = 4, keep=()):
    """A copy of `expr` in which every local name that has exactly ONE definition in the function (a plain single-target
    assignment) is replaced by its - likewise expanded - right-hand side.  Lets a rule compare what an expression computes
    instead of how many temporaries its author used."""
    import copy

    defs = {}
    counts = {}
    for s in A.walk_stmts(func_node.body):
        for t in A.targets_of(s):
            if isinstance(t, ast.Name):
                counts[t.id] = counts.get(t.id, 0) + 1
                if isinstance(s, ast.Assign) and len(s.targets) == 1 and isinstance(s.targets[0], ast.Name):
                    defs[t.id] = s.value
                elif isinstance(s, ast.AnnAssign) and s.value is not None:
                    defs[t.id] = s.value
        if isinstance(s, (ast.For, ast.AsyncFor)):
            for n in ast.walk(s.target):
                if isinstance(n, ast.Name):
                    counts[n.id] = counts.get(n.id, 0) + 2
    params = {a.arg for a in ast.walk(func_node.args) if isinstance(a, ast.arg)} if hasattr(func_node, "args") else set()

    class X(ast.NodeTransformer):
        def __init__(self, d):
            self.d = d

        def visit_Name(self, n):
            if isinstance(n.ctx, ast.Load) and counts.get(n.id) == 1 and n.id in defs and n.id not in params and n.id not in keep and self.d > 0:
                return X(self.d - 1).visit(copy.deepcopy(defs[n.id]))
            return n
    return X(depth).visit(copy.deepcopy(expr))


class _Sym:
    """an opaque truthy value"""
    def __init__(self, name):
        self.name = name

    def __repr__(self):
        return f"<{self.name}>"


def eval_lookup(expr, dict_txt: str, present: dict):
    """Evaluate an expression that only looks keys up in the dict written `dict_txt` (`D[k]`, `D.get(k[, d])`, `k in D`,
    conditional expressions, and / or / not, `is None` tests, constants) for a dict holding exactly `present`
    ({key: value}; values may be None, constants or q._Sym objects).  Raises ValueError on anything else."""
    def ev(e):
        if isinstance(e, ast.Constant):
            return e.value
        if isinstance(e, ast.Subscript) and A.norm(e.value) == dict_txt and isinstance(e.slice, ast.Constant):
            if e.slice.value not in present:
                raise KeyError(e.slice.value)
            return present[e.slice.value]
        if isinstance(e, ast.Call) and isinstance(e.func, ast.Attribute) and e.func.attr == "get" and A.norm(e.func.value) == dict_txt and e.args and isinstance(e.args[0], ast.Constant):
            default = ev(e.args[1]) if len(e.args) > 1 else None
            return present.get(e.args[0].value, default)
        if isinstance(e, ast.Compare) and len(e.ops) == 1:
            if isinstance(e.ops[0], (ast.In, ast.NotIn)) and A.norm(e.comparators[0]) == dict_txt and isinstance(e.left, ast.Constant):
                r = e.left.value in present
                return r if isinstance(e.ops[0], ast.In) else not r
            a, b = ev(e.left), ev(e.comparators[0])
            if isinstance(e.ops[0], ast.Is):
                return a is b
            if isinstance(e.ops[0], ast.IsNot):
                return a is not b
            if isinstance(e.ops[0], ast.Eq):
                return a == b
            if isinstance(e.ops[0], ast.NotEq):
                return a != b
        if isinstance(e, ast.IfExp):
            return ev(e.body) if ev(e.test) else ev(e.orelse)
        if isinstance(e, ast.BoolOp):
            vals = None
            for v in e.values:
                vals = ev(v)
                if isinstance(e.op, ast.Or) and vals:
                    return vals
                if isinstance(e.op, ast.And) and not vals:
                    return vals
            return vals
        if isinstance(e, ast.UnaryOp) and isinstance(e.op, ast.Not):
            return not ev(e.operand)
        raise ValueError(f"unsupported: {A.short(e)}")
    return ev(expr)


def expand_globals(module_tree, expr):
    """`expr` with module-level names that are assigned exactly once at module level replaced by that value (constants that a
    refactor introduced for a literal or for a small record such as StreamRange(start=0, stop=0))."""
    import copy

    defs, counts = {}, {}
    for s in module_tree.body:
        if isinstance(s, (ast.Assign, ast.AnnAssign)):
            for t in (s.targets if isinstance(s, ast.Assign) else [s.target]):
                if isinstance(t, ast.Name) and getattr(s, "value", None) is not None:
                    counts[t.id] = counts.get(t.id, 0) + 1
                    defs[t.id] = s.value

    class X(ast.NodeTransformer):
        def visit_Name(self, n):
            if isinstance(n.ctx, ast.Load) and counts.get(n.id) == 1:
                return copy.deepcopy(defs[n.id])
            return n
    return X().visit(copy.deepcopy(expr))


def copies_all_items(stmt, src: str, dst: str, func_node=None) -> bool:
    """the statement copies every item of the dict `src` into the dict `dst` in place: a loop over (a list of) src.items() storing
    dst[k] = v, or dst.update(src) - the argument possibly a local bound once to a snapshot of src (pass the function for that)"""
    if isinstance(stmt, ast.Expr) and isinstance(stmt.value, ast.Call) and A.call_name(stmt.value) == f"{dst}.update" and len(stmt.value.args) == 1:
        arg = stmt.value.args[0]
        if func_node is not None:
            arg = expand(func_node, arg)
        if A.norm(arg) in (src, f"dict({src})", f"{src}.items()", f"list({src}.items())", f"tuple({src}.items())", f"{src}.copy()"):
            return True
    if isinstance(stmt, ast.For) and A.norm(stmt.iter) in (f"{src}.items()", f"list({src}.items())", f"tuple({src}.items())") and isinstance(stmt.target, ast.Tuple) \
            and len(stmt.target.elts) == 2:
        k, v = (A.norm(e) for e in stmt.target.elts)
        return any(isinstance(x, ast.Assign) and A.norm(x.targets[0]) == f"{dst}[{k}]" and A.norm(x.value) == v for x in stmt.body)
    return False


def in_tail_position(loop, stmt) -> bool:
    """Finishing `stmt` normally ends this iteration of `loop`: it is the last statement of its block, and so is every enclosing
    compound statement up to the loop body (try bodies / handlers / else blocks count: a finally still runs, then the loop goes on)."""
    def find(block):
        for i, s in enumerate(block):
            last = i == len(block) - 1
            if s is stmt:
                return last
            subs = []
            for fld in ("body", "orelse"):
                sub = getattr(s, fld, None)
                if isinstance(sub, list) and sub and isinstance(sub[0], ast.stmt) and not isinstance(s, (ast.FunctionDef, ast.AsyncFunctionDef, ast.ClassDef, ast.For, ast.AsyncFor, ast.While)):
                    subs.append(sub)
            if isinstance(s, ast.Try):
                subs += [h.body for h in s.handlers]
            for sub in subs:
                r = find(sub)
                if r is not None:
                    return r and last
        return None
    return bool(find(loop.body))


def expand_at(g: C.CFG, nid: int, expr, depth: int = 5, keep=()):
    """`expr` as evaluated at CFG node `nid`, with every local name that has exactly ONE reaching definition there (a plain
    assignment, also an augmented one) replaced by that definition's value - itself expanded at its own node.  Unlike
    `expand` this follows the flow: `d = next(it); d = d - x; use(d)` expands use's d to `next(it) - x`."""
    import copy

    def at(node_id, e, d):
        class X(ast.NodeTransformer):
            def visit_Name(self, n):
                if not isinstance(n.ctx, ast.Load) or n.id in keep or d <= 0:
                    return n
                defs = reaching_defs(g, node_id, n.id)
                if len(defs) != 1 or defs[0][0] != "assign" or defs[0][1] is None:
                    return n
                kind, val, dn = defs[0]
                st = dn.stmt
                if isinstance(st, ast.AugAssign):
                    val = ast.BinOp(left=copy.deepcopy(st.target), op=st.op, right=val)
                    val.left.ctx = ast.Load()
                return at(dn.id, copy.deepcopy(val), d - 1)
        return X().visit(copy.deepcopy(e))
    return at(nid, expr, depth)


def flat_view(func: Func, scope=None) -> Func:
    """The function with its own parameterless nested generator helpers spliced in where they are run by a bare
    ``yield from helper()`` statement - `def move(): ...; yield from move()` and the same messages written in line are one
    and the same plan.  Only for looking at the order of yields; names are not made unique."""
    import copy
    import dataclasses

    node = copy.deepcopy(func.node)
    # helpers may also be the parameterless nested generators of an enclosing function (``scope``: siblings of ``func``)
    pool = list(node.body) + ([s for s in scope.body if isinstance(s, ast.FunctionDef) and s.name != func.node.name] if scope is not None else [])
    nested = {s.name: s for s in pool if isinstance(s, ast.FunctionDef) and not s.decorator_list
              and not (s.args.args or s.args.vararg or s.args.kwarg or s.args.kwonlyargs or s.args.posonlyargs)
              and not any(isinstance(r, ast.Return) and r.value is not None for r in A.walk_local(s) if r is not s)}

    def splice(block):
        out = []
        for st in block:
            if isinstance(st, ast.Expr) and isinstance(st.value, ast.YieldFrom) and isinstance(st.value.value, ast.Call) \
                    and isinstance(st.value.value.func, ast.Name) and st.value.value.func.id in nested and not st.value.value.args and not st.value.value.keywords:
                body = copy.deepcopy(nested[st.value.value.func.id].body)
                if all(not isinstance(r, ast.Return) for b in body for r in A.walk_local(b)):
                    out.extend(splice(body))
                    continue
            for fld in ("body", "orelse", "finalbody"):
                sub = getattr(st, fld, None)
                if isinstance(sub, list) and sub and isinstance(sub[0], ast.stmt) and not isinstance(st, A.SCOPE_TYPES):
                    setattr(st, fld, splice(sub))
            if isinstance(st, ast.Try):
                for h in st.handlers:
                    h.body = splice(h.body)
            out.append(st)
        return out
    node.body = splice(node.body)
    used = {n.id for n in ast.walk(node) if isinstance(n, ast.Name) and isinstance(n.ctx, ast.Load)}
    node.body = [s for s in node.body if not (isinstance(s, ast.FunctionDef) and s.name in nested and s.name not in used)] or [ast.Pass()]
    ast.fix_missing_locations(node)
    return dataclasses.replace(func, node=node)


def return_expression(func_node):
    """The value a small function returns, as ONE expression: single-definition temporaries are substituted and guard
    clauses `if c: return v` in front of the final `return e` become `v if c else e` (nested for several).  None when the
    body has any other statement (loops, stores to attributes, try ...)."""
    import copy
    body = A.body(func_node)
    if not body or not isinstance(body[-1], ast.Return) or body[-1].value is None:
        return None
    e = copy.deepcopy(body[-1].value)
    temps = {}
    for st in reversed(body[:-1]):
        if isinstance(st, ast.If) and not st.orelse and len(A.body(st.body)) == 1 and isinstance(A.body(st.body)[0], ast.Return) and A.body(st.body)[0].value is not None:
            e = ast.IfExp(test=copy.deepcopy(st.test), body=copy.deepcopy(A.body(st.body)[0].value), orelse=e)
        elif isinstance(st, ast.If) and len(A.body(st.body)) == 1 and isinstance(A.body(st.body)[0], ast.Return) and len(A.body(st.orelse)) == 1 \
                and isinstance(A.body(st.orelse)[0], ast.Return) and st is body[-2] and False:
            return None
        elif isinstance(st, ast.Assign) and len(st.targets) == 1 and isinstance(st.targets[0], ast.Name):
            name, val = st.targets[0].id, st.value
            if sum(1 for x in body for n in ast.walk(x) if isinstance(n, ast.Name) and n.id == name and isinstance(n.ctx, ast.Store)) != 1:
                return None

            class X(ast.NodeTransformer):
                def visit_Name(self, n):
                    return copy.deepcopy(val) if n.id == name and isinstance(n.ctx, ast.Load) else n
            e = X().visit(e)
        else:
            return None
    return ast.fix_missing_locations(e)


def truth_table(expr, atoms):
    """{assignment tuple: value} of ``expr`` over every True/False assignment of the atoms (normalised source texts);
    a value is None where booleval cannot decide."""
    import itertools

    from . import booleval
    out = {}
    for vals in itertools.product((True, False), repeat=len(atoms)):
        r = booleval.ev(expr, dict(zip(atoms, vals)))
        out[vals] = None if r is None else bool(r)
    return out


def specialise(stmts, env):
    """The statements with every `if` / conditional expression whose test booleval decides under ``env`` (normalised test text ->
    truth value) replaced by the branch taken - the code as it runs in that case.  Undecided tests are kept."""
    import copy

    from . import booleval

    class F(ast.NodeTransformer):
        def visit_If(self, n):
            t = booleval.ev(n.test, env)
            if t is None:
                return self.generic_visit(n)
            out = []
            for x in (n.body if t else n.orelse):
                r = self.visit(x)
                out.extend(r if isinstance(r, list) else [r])
            return out

        def visit_IfExp(self, n):
            t = booleval.ev(n.test, env)
            if t is None:
                return self.generic_visit(n)
            return self.visit(n.body if t else n.orelse)

        def visit_FunctionDef(self, n):
            return n
        visit_AsyncFunctionDef = visit_FunctionDef
    out = []
    for x in copy.deepcopy(list(stmts)):
        r = F().visit(x)
        out.extend(r if isinstance(r, list) else [r])
    return [x for x in out if x is not None]


def straight_line_value(stmts, expr, depth: int = 8):
    """``expr`` (evaluated after the straight-line statements ``stmts``) with local names replaced by their last plain
    assignment before the point of use - for code already specialised to one case (no branches left on the way)."""
    import copy
    flat = [s for s in stmts]

    def at(i, e, d):
        class X(ast.NodeTransformer):
            def visit_Name(self, n):
                if not isinstance(n.ctx, ast.Load) or d <= 0:
                    return n
                for j in range(i - 1, -1, -1):
                    st = flat[j]
                    if isinstance(st, ast.Assign) and len(st.targets) == 1 and isinstance(st.targets[0], ast.Name) and st.targets[0].id == n.id:
                        return at(j, copy.deepcopy(st.value), d - 1)
                    if any(isinstance(t, ast.Name) and t.id == n.id and isinstance(t.ctx, ast.Store) for t in ast.walk(st)):
                        return n  # bound in some other way (loop target, tuple ...): leave the name
                return n
        return X().visit(copy.deepcopy(e))
    return at(len(flat), expr, depth)


class Sym(str):
    """an unknown string value inside ``eval_string_parts`` results"""

    def __repr__(self):
        return f"<{str(self)}>"


def eval_string_parts(stmts, truth: dict, result=None):
    """Straight-line evaluation of string-building code: plain / augmented assignments to local names, conditional expressions
    and `a or b` decided by ``truth`` (normalised text -> bool), f-strings and `+` concatenation.  -> the parts (constants merged,
    unknown values as Sym(text)) of the value returned (or of local ``result`` at the end); None when something else occurs."""
    from . import booleval
    vals = {}

    def merge(parts):
        out = []
        for p_ in parts:
            if not isinstance(p_, Sym) and out and not isinstance(out[-1], Sym):
                out[-1] = out[-1] + p_
            elif p_ != "" or isinstance(p_, Sym):
                out.append(p_)
        return out

    def ev(e):
        if isinstance(e, ast.Constant) and isinstance(e.value, str):
            return [e.value]
        if isinstance(e, ast.Name):
            return list(vals[e.id]) if e.id in vals else [Sym(e.id)]
        if isinstance(e, ast.BinOp) and isinstance(e.op, ast.Add):
            a, b = ev(e.left), ev(e.right)
            return None if a is None or b is None else merge(a + b)
        if isinstance(e, ast.JoinedStr):
            out = []
            for v in e.values:
                if isinstance(v, ast.Constant):
                    out.append(str(v.value))
                elif isinstance(v, ast.FormattedValue) and v.conversion == -1 and v.format_spec is None:
                    r = ev(v.value)
                    if r is None:
                        return None
                    out.extend(r)
                else:
                    return None
            return merge(out)
        if isinstance(e, ast.IfExp):
            t = booleval.ev(e.test, truth)
            return None if t is None else ev(e.body if t else e.orelse)
        if isinstance(e, ast.BoolOp) and isinstance(e.op, ast.Or) and len(e.values) == 2:
            t = booleval.ev(e.values[0], truth)
            return None if t is None else ev(e.values[0] if t else e.values[1])
        if isinstance(e, ast.Call):
            return [Sym(A.norm(subst(e)))]
        return None

    def subst(e):
        """names that stand for one unknown value are replaced by the expression that value was computed with"""
        import copy

        class X(ast.NodeTransformer):
            def visit_Name(self, n):
                v = vals.get(n.id)
                if isinstance(n.ctx, ast.Load) and v is not None and len(v) == 1 and isinstance(v[0], Sym) and str(v[0]) != n.id:
                    try:
                        return ast.parse(str(v[0]), mode="eval").body
                    except SyntaxError:
                        return n
                return n
        return X().visit(copy.deepcopy(e))
    for st in stmts:
        if isinstance(st, ast.Assign) and len(st.targets) == 1 and isinstance(st.targets[0], ast.Name):
            r = ev(st.value)
            if r is None:
                r = [Sym(A.norm(subst(st.value)))]  # not a string-building expression: an unknown value, remembered by how it is computed
            vals[st.targets[0].id] = r
        elif isinstance(st, ast.Assign) and len(st.targets) == 1 and isinstance(st.targets[0], ast.Tuple) and isinstance(st.value, ast.Call):
            continue  # unpacking of a call result: the names stay symbols
        elif isinstance(st, ast.AugAssign) and isinstance(st.op, ast.Add) and isinstance(st.target, ast.Name):
            r = ev(st.value)
            if r is None:
                return None
            vals[st.target.id] = merge(vals.get(st.target.id, [Sym(st.target.id)]) + r)
        elif isinstance(st, ast.Return):
            return ev(st.value) if st.value is not None else None
        elif isinstance(st, (ast.Pass, ast.FunctionDef)) or (isinstance(st, ast.Expr) and isinstance(st.value, ast.Constant)):
            continue
        else:
            return None
    return vals.get(result) if result else None


def after_success(func_node, try_stmt) -> list:
    """The statements that run next when the body of ``try_stmt`` completes normally: its else part and then, when no handler
    can fall out of the try (each ends in continue / break / return / raise), what follows the try in its block."""
    out = list(try_stmt.orelse)
    def always_leaves(block):
        if not block:
            return False
        last = block[-1]
        if isinstance(last, (ast.Continue, ast.Break, ast.Return, ast.Raise)):
            return True
        return isinstance(last, ast.If) and always_leaves(last.body) and always_leaves(last.orelse)
    leaves = all(always_leaves(h.body) for h in try_stmt.handlers)
    if leaves or not try_stmt.handlers:
        for n in ast.walk(func_node):
            for fld in ("body", "orelse", "finalbody"):
                bl = getattr(n, fld, None)
                if isinstance(bl, list) and try_stmt in bl:
                    out += bl[bl.index(try_stmt) + 1:]
    return [x for x in out if not A.inert(x)]


def relabelled(ctx, old: str, new: str, fn, *args, **kw):
    """Run another property's rule function and file its obligations under this property's rule id: the same structural fact is a
    necessary condition of both properties (the DESIGN section of the borrowing property says why)."""
    n0 = len(ctx.obligations)
    fn(ctx, *args, **kw)
    for o in ctx.obligations[n0:]:
        o["rule"] = o["rule"].replace(old, new)
    ctx._min = {k.replace(old, new): v for k, v in ctx._min.items()}
