"""Statement-level control-flow graphs with exceptional edges.

* ``try/finally`` (and ``with``) is lowered by copying the final body once per pending
  completion (normal, return, break, continue, each exception kind), so "what runs after the
  finally" is explicit and path queries are plain graph reachability.
* Exceptions are abstract *kinds* (class names).  A raised kind K stands for "an instance of K
  or of an unknown subclass of K".  ``except H`` catches K definitely if K <= H, possibly if
  H < K (both edges are kept), not at all otherwise.
* What may raise is decided by a per-rule ``Policy`` (stated in the rule's evidence).
"""

from __future__ import annotations

import ast
import builtins
from collections import deque

from . import astutil as A
from .loader import AnalysisError


# --------------------------------------------------------------------------- hierarchy
class Hier:
    """Exception class table: builtins + asyncio + every exception class defined in the repo."""

    def __init__(self, repo=None):
        self.parents: dict[str, set[str]] = {}
        for name, obj in vars(builtins).items():
            if isinstance(obj, type) and issubclass(obj, BaseException):
                self.parents.setdefault(obj.__name__, set()).update(b.__name__ for b in obj.__bases__ if b is not object)
        self.parents.setdefault("CancelledError", set()).add("BaseException")
        self.parents.setdefault("FuturesCancelledError", set()).add("Exception")
        self.parents.setdefault("InvalidStateError", set()).add("Exception")
        self.parents.setdefault("QueueEmpty", set()).add("Exception")
        self.parents.setdefault("ValidationError", set()).add("Exception")
        self.parents.setdefault("EventModelError", set()).add("Exception")
        self.repo_classes: dict[str, str] = {}
        if repo is not None:
            changed = True
            while changed:
                changed = False
                for key, c in repo.classes.items():
                    if c.module.name.startswith("bluesky._vendor.super_state_machine") is False and c.module.name.startswith("bluesky._vendor"):
                        continue
                    name = c.qualname.split(".")[-1]
                    for b in c.base_names:
                        bn = self.kind_of_name(b)
                        if bn in self.parents and bn not in self.parents.get(name, set()):
                            if name in vars(builtins) and name not in self.repo_classes:
                                continue
                            self.parents.setdefault(name, set()).add(bn)
                            self.repo_classes[name] = key
                            changed = True
        self._anc: dict[str, frozenset] = {}

    @staticmethod
    def kind_of_name(dotted: str) -> str:
        if dotted in ("concurrent.futures.CancelledError", "futures.CancelledError"):
            return "FuturesCancelledError"
        return dotted.split(".")[-1]

    def known(self, k: str) -> bool:
        return k in self.parents or k == "BaseException"

    def ancestors(self, k: str) -> frozenset:
        if k in self._anc:
            return self._anc[k]
        out = {k}
        for p in self.parents.get(k, ()):
            out |= self.ancestors(p)
        self._anc[k] = frozenset(out)
        return self._anc[k]

    def is_sub(self, a: str, b: str) -> bool:
        return b in self.ancestors(a)

    def match(self, kind: str, classes: list[str]):
        """-> ('yes'|'maybe'|'no', refined kinds caught)"""
        for c in classes:
            if self.is_sub(kind, c):
                return "yes", [kind]
        refined = [c for c in classes if self.is_sub(c, kind)]
        if refined:
            return "maybe", refined
        return "no", []


# --------------------------------------------------------------------------- policy
class Policy:
    """Decides which exception kinds a node may raise.  Subclass / parametrise per rule."""

    def __init__(self, hier: Hier, *, await_kinds=("CancelledError",), call_kinds=("Exception",),
                 yield_kinds=("GeneratorExit", "Exception"), total_calls=(), isolated_calls=(),
                 calls_raise=True, awaits_raise_exception=True, subscript_raises=False):
        self.hier = hier
        self.await_kinds = tuple(await_kinds)
        self.call_kinds = tuple(call_kinds)
        self.yield_kinds = tuple(yield_kinds)
        self.total_calls = set(total_calls)  # dotted callee names (or last components with leading '.')
        self.isolated_calls = set(isolated_calls)  # callee never lets Exception escape
        self.calls_raise = calls_raise
        self.awaits_raise_exception = awaits_raise_exception
        self.subscript_raises = subscript_raises

    # -- helpers
    def _call_is_total(self, call: ast.Call) -> bool:
        cn = A.call_name(call)
        last = call.func.attr if isinstance(call.func, ast.Attribute) else (cn or "")
        if cn in self.total_calls or ("." + last) in self.total_calls:
            return True
        if cn in self.isolated_calls or ("." + last) in self.isolated_calls:
            return True
        return False

    def raises(self, node: ast.AST | None) -> set[str]:
        """Kinds the evaluation of this statement / expression may raise (excluding explicit raise)."""
        out: set[str] = set()
        if node is None:
            return out
        for n in A.walk_local(node):
            if isinstance(n, ast.Await):
                out.update(self.await_kinds)
            elif isinstance(n, (ast.Yield, ast.YieldFrom)):
                out.update(self.yield_kinds)
            elif isinstance(n, ast.Call):
                if self.calls_raise and not self._call_is_total(n):
                    out.update(self.call_kinds)
            elif isinstance(n, ast.Subscript) and self.subscript_raises and isinstance(n.ctx, ast.Load):
                out.add("Exception")
        return out

    def raise_kinds(self, stmt: ast.Raise, handler) -> list[str]:
        """Kinds of an explicit ``raise`` statement.  handler = (name, kinds) of the enclosing except."""
        if stmt.exc is None:
            if handler is None:
                return ["Exception"]
            return list(handler[1])
        exc = stmt.exc
        if isinstance(exc, ast.Call):
            exc = exc.func
        name = A.chain(exc)
        if name is not None:
            if handler is not None and handler[0] is not None and name == handler[0]:
                return list(handler[1])
            k = Hier.kind_of_name(name)
            if self.hier.known(k) and (k[:1].isupper()):
                return [k]
        return ["Exception"]


# --------------------------------------------------------------------------- graph
class Node:
    __slots__ = ("id", "kind", "ast", "stmt", "label", "copy")

    def __init__(self, id, kind, ast_node, stmt, label, copy):
        self.id = id
        self.kind = kind  # entry exit raise_exit stmt test for iter with_enter with_exit handler join return raise break continue
        self.ast = ast_node  # the expression / statement evaluated at this node
        self.stmt = stmt  # the enclosing statement object
        self.label = label
        self.copy = copy  # tuple describing which finally-copies this node lives in

    def __repr__(self):
        return f"<{self.id}:{self.kind}:{self.label}>"


class Cont:
    __slots__ = ("ret", "brk", "cont", "exc", "handler", "copy")

    def __init__(self, ret, brk, cont, exc, handler=None, copy=()):
        self.ret, self.brk, self.cont, self.exc, self.handler, self.copy = ret, brk, cont, exc, handler, copy

    def replace(self, **kw):
        d = {k: getattr(self, k) for k in self.__slots__}
        d.update(kw)
        return Cont(**d)


class CFG:
    def __init__(self, func_node, policy: Policy, name: str = ""):
        self.func = func_node
        self.policy = policy
        self.name = name or getattr(func_node, "name", "<body>")
        self.nodes: list[Node] = []
        self.succ: dict[int, list[tuple[int, object]]] = {}
        self.pred: dict[int, list[tuple[int, object]]] = {}
        self.by_ast: dict[int, list[int]] = {}
        self.entry = self._new("entry", None, None, "entry", ())
        self.exit = self._new("exit", None, None, "exit(return)", ())
        self.raise_exit = self._new("raise_exit", None, None, "exit(raise)", ())
        top = Cont(
            ret=lambda: self.exit,
            brk=lambda: self._bad("break outside loop"),
            cont=lambda: self._bad("continue outside loop"),
            exc=lambda kind: [self.raise_exit],
        )
        body = func_node.body if hasattr(func_node, "body") else func_node
        pend = self._seq(body, [(self.entry, "n")], top)
        self._connect(pend, self.exit)

    # -- construction helpers
    def _bad(self, msg):
        raise AnalysisError(f"CFG({self.name}): {msg}")

    def _new(self, kind, ast_node, stmt, label, copy) -> int:
        n = Node(len(self.nodes), kind, ast_node, stmt, label, copy)
        self.nodes.append(n)
        self.succ[n.id] = []
        self.pred[n.id] = []
        for a in (ast_node, stmt):
            if a is not None:
                lst = self.by_ast.setdefault(id(a), [])
                if n.id not in lst:
                    lst.append(n.id)
        return n.id

    def _edge(self, a: int, b: int, label):
        if (b, label) not in self.succ[a]:
            self.succ[a].append((b, label))
            self.pred[b].append((a, label))

    def _connect(self, pend, target: int):
        for src, label in pend:
            self._edge(src, target, label)

    def _exc_edges(self, nid: int, kinds, cont: Cont):
        for k in sorted(kinds):
            for t in cont.exc(k):
                self._edge(nid, t, ("exc", k))

    def _simple(self, kind, ast_node, stmt, pend, cont, label=None, raises=None) -> int:
        nid = self._new(kind, ast_node, stmt, label or A.head(stmt if stmt is not None else ast_node), cont.copy)
        self._connect(pend, nid)
        kinds = self.policy.raises(ast_node) if raises is None else raises
        self._exc_edges(nid, kinds, cont)
        return nid

    # -- statements
    def _seq(self, stmts, pend, cont):
        for s in stmts:
            if not pend:
                break  # unreachable code is not built
            pend = self._stmt(s, pend, cont)
        return pend

    def _stmt(self, s, pend, cont):
        P = self.policy
        if isinstance(s, ast.Return):
            nid = self._simple("return", s.value, s, pend, cont, label=A.head(s))
            self._edge(nid, cont.ret(), "return")
            return []
        if isinstance(s, ast.Raise):
            nid = self._simple("raise", s.exc, s, pend, cont, label=A.head(s), raises=set())
            # evaluating the exception expression itself is assumed not to fail differently
            for k in P.raise_kinds(s, cont.handler):
                for t in cont.exc(k):
                    self._edge(nid, t, ("exc", k))
            return []
        if isinstance(s, ast.Break):
            nid = self._simple("break", None, s, pend, cont, label="break", raises=set())
            self._edge(nid, cont.brk(), "break")
            return []
        if isinstance(s, ast.Continue):
            nid = self._simple("continue", None, s, pend, cont, label="continue", raises=set())
            self._edge(nid, cont.cont(), "continue")
            return []
        if isinstance(s, ast.Assert):
            nid = self._simple("test", s.test, s, pend, cont, label=A.head(s))
            for t in cont.exc("AssertionError"):
                self._edge(nid, t, "F")
            return [(nid, "T")]
        if isinstance(s, ast.If):
            nid = self._simple("test", s.test, s, pend, cont)
            out = self._seq(s.body, [(nid, "T")], cont)
            if s.orelse:
                out = out + self._seq(s.orelse, [(nid, "F")], cont)
            else:
                out = out + [(nid, "F")]
            return out
        if isinstance(s, ast.While):
            head = self._simple("test", s.test, s, pend, cont)
            after = self._new("join", None, s, "after " + A.head(s), cont.copy)
            inner = cont.replace(brk=lambda: after, cont=lambda: head)
            const_true = isinstance(s.test, ast.Constant) and bool(s.test.value) is True
            body_end = self._seq(s.body, [(head, "T")], inner)
            self._connect(body_end, head)
            if not const_true:
                if s.orelse:
                    self._connect(self._seq(s.orelse, [(head, "F")], cont), after)
                else:
                    self._edge(head, after, "F")
            if not self.pred[after]:
                return []
            return [(after, "n")]
        if isinstance(s, (ast.For, ast.AsyncFor)):
            init = self._simple("iter", s.iter, s, pend, cont, label="iter(" + A.short(s.iter) + ")")
            extra = set(P.await_kinds) if isinstance(s, ast.AsyncFor) else set()
            head_raises = set(extra)
            if P.calls_raise and not isinstance(s.iter, (ast.Name, ast.Attribute, ast.List, ast.Tuple)):
                pass
            head = self._new("for", s.target, s, A.head(s), cont.copy)
            self._edge(init, head, "n")
            self._exc_edges(head, head_raises | self._for_next_raises(s), cont)
            after = self._new("join", None, s, "after " + A.head(s), cont.copy)
            inner = cont.replace(brk=lambda: after, cont=lambda: head)
            body_end = self._seq(s.body, [(head, "iter")], inner)
            self._connect(body_end, head)
            if s.orelse:
                self._connect(self._seq(s.orelse, [(head, "done")], cont), after)
            else:
                self._edge(head, after, "done")
            return [(after, "n")]
        if isinstance(s, (ast.With, ast.AsyncWith)):
            is_async = isinstance(s, ast.AsyncWith)
            enter_raises = set()
            for item in s.items:
                enter_raises |= P.raises(item.context_expr)
            if is_async:
                enter_raises |= set(P.await_kinds)
            enter = self._simple("with_enter", s, s, pend, cont, raises=enter_raises)

            def build_exit(pend2, cont2):
                nid = self._new("with_exit", None, s, "exit " + A.head(s), cont2.copy)
                self._connect(pend2, nid)
                if is_async:
                    self._exc_edges(nid, set(P.await_kinds), cont2)
                return [(nid, "n")]

            inner = self._wrap_finally(cont, build_exit, s)
            body_end = self._seq(s.body, [(enter, "n")], inner)
            if body_end:
                return inner.normal(body_end)  # type: ignore[attr-defined]
            return []
        if isinstance(s, ast.Try) or (hasattr(ast, "TryStar") and isinstance(s, ast.TryStar)):
            return self._try(s, pend, cont)
        if isinstance(s, ast.Match):
            subj = self._simple("stmt", s.subject, s, pend, cont, label="match " + A.short(s.subject))
            out = []
            for i, c in enumerate(s.cases):
                out += self._seq(c.body, [(subj, ("case", i))], cont)
            out.append((subj, ("case", "none")))
            return out
        # simple statements (incl. nested defs, which only bind a name)
        if isinstance(s, (ast.FunctionDef, ast.AsyncFunctionDef, ast.ClassDef)):
            nid = self._simple("stmt", None, s, pend, cont, label=A.head(s), raises=set())
            return [(nid, "n")]
        nid = self._simple("stmt", s, s, pend, cont)
        return [(nid, "n")]

    def _for_next_raises(self, s) -> set:
        # advancing a plain iterator over a local container does not raise; a generator may.
        return set()

    # -- try / finally
    def _wrap_finally(self, outer: Cont, build_final, stmt) -> Cont:
        cache: dict = {}

        def via(key, then_targets):
            """copy of the final body for pending completion ``key``; its normal ends continue to
            ``then_targets()`` (a list of (node, label))."""
            if key in cache:
                return cache[key]
            tag = key if isinstance(key, str) else f"{key[0]}:{key[1]}"
            copy = outer.copy + ((id(stmt), tag),)
            entry = self._new("join", None, stmt, f"finally[{tag}] of {A.head(stmt)}", copy)
            cache[key] = entry
            fcont = outer.replace(copy=copy)
            ends = build_final([(entry, "n")], fcont)
            if ends:
                # a join node keeps the ends' own labels (T/F of a trailing test) separate from the
                # label of the resumed completion
                out = self._new("join", None, stmt, f"end of finally[{tag}] of {A.head(stmt)}", copy)
                self._connect(ends, out)
                for tgt, label in then_targets():
                    self._edge(out, tgt, label)
            return entry

        c = Cont(
            ret=lambda: via("return", lambda: [(outer.ret(), "return")]),
            brk=lambda: via("break", lambda: [(outer.brk(), "break")]),
            cont=lambda: via("continue", lambda: [(outer.cont(), "continue")]),
            exc=lambda kind: [via(("exc", kind), lambda: [(t, ("reraise", kind)) for t in outer.exc(kind)])],
            handler=outer.handler,
            copy=outer.copy,
        )

        def normal(pend):
            copy = outer.copy + ((id(stmt), "normal"),)
            entry = self._new("join", None, stmt, f"finally[normal] of {A.head(stmt)}", copy)
            self._connect(pend, entry)
            return build_final([(entry, "n")], outer.replace(copy=copy))

        # attach (Cont has __slots__, so keep the function in a dict on the builder)
        self._normal_of = getattr(self, "_normal_of", {})
        self._normal_of[id(c)] = normal
        return _ContWithNormal(c, normal)

    def _try(self, s, pend, cont: Cont):
        hier = self.policy.hier
        if s.finalbody:
            fc = self._wrap_finally(cont, lambda p, c2: self._seq(s.finalbody, p, c2), s)
        else:
            fc = None
        after_cont = fc if fc is not None else cont  # where handler bodies / else propagate

        handler_entries: dict = {}
        handler_ends: list = []

        def handler_entry(i: int, caught: tuple) -> int:
            """one copy of the handler body per caught kind, so that a bare ``raise`` re-raises exactly
            what was caught"""
            key = (i, caught)
            if key in handler_entries:
                return handler_entries[key]
            h = s.handlers[i]
            nid = self._new("handler", h, h, A.head(h) + (f" [{','.join(caught)}]" if len(s.handlers) and caught else ""), cont.copy)
            handler_entries[key] = nid
            hc = after_cont.replace(handler=(h.name, tuple(caught)))
            ends = self._seq(h.body, [(nid, "n")], hc)
            handler_ends.extend(ends)
            return nid

        def dispatch(kind: str):
            targets = []
            for i, h in enumerate(s.handlers):
                m, ref = hier.match(kind, self._handler_classes(h))
                if m != "no":
                    targets.append(handler_entry(i, tuple(ref)))
                if m == "yes":
                    return targets
            return targets + after_cont.exc(kind)

        body_cont = after_cont.replace(exc=dispatch) if s.handlers else after_cont
        body_end = self._seq(s.body, pend, body_cont)
        if s.orelse and body_end:
            body_end = self._seq(s.orelse, body_end, after_cont)
        ends = list(body_end) + handler_ends
        # handlers may have been created lazily after body_end was computed; handler_ends is shared
        if fc is not None:
            if not ends:
                return []
            return fc.normal(ends)
        return ends

    def _handler_classes(self, h: ast.ExceptHandler) -> list[str]:
        if h.type is None:
            return ["BaseException"]
        elts = h.type.elts if isinstance(h.type, ast.Tuple) else [h.type]
        out = []
        for e in elts:
            name = A.chain(e)
            if name is None:
                out.append("BaseException")  # computed class: assume it may catch anything
                continue
            k = Hier.kind_of_name(name)
            if not self.policy.hier.known(k):
                # unknown class (library exception): it is some subclass of Exception
                self.policy.hier.parents.setdefault(k, set()).add("Exception")
                self.policy.hier._anc.clear()
            out.append(k)
        return out

    # ------------------------------------------------------------------ queries
    def nodes_of(self, ast_node) -> list[int]:
        return list(self.by_ast.get(id(ast_node), []))

    def node(self, i: int) -> Node:
        return self.nodes[i]

    def reachable(self, starts, avoid=None, edge_ok=None, include_start_check=False):
        """BFS; returns {node: (parent, label)}.  ``avoid(node)`` nodes are not entered."""
        seen = {}
        dq = deque()
        for s in starts:
            if include_start_check and avoid and avoid(self.nodes[s]):
                continue
            if s not in seen:
                seen[s] = None
                dq.append(s)
        while dq:
            u = dq.popleft()
            for v, label in self.succ[u]:
                if v in seen:
                    continue
                if edge_ok and not edge_ok(u, v, label):
                    continue
                if avoid and avoid(self.nodes[v]):
                    continue
                seen[v] = (u, label)
                dq.append(v)
        return seen

    def path_to(self, seen, target) -> list[str]:
        out = []
        cur = target
        while cur is not None:
            p = seen[cur]
            lab = ""
            if p is not None:
                lab = p[1] if isinstance(p[1], str) else ":".join(map(str, p[1]))
            out.append((f"--{lab}--> " if p is not None else "") + self.nodes[cur].label)
            cur = p[0] if p is not None else None
        return list(reversed(out))

    def must_pass(self, starts, pred, exits=None, edge_ok=None):
        """Every path from ``starts`` to any exit passes a node satisfying ``pred``?
        Returns None if yes, else a witness path (list of labels) avoiding ``pred``."""
        exits = exits if exits is not None else [self.exit, self.raise_exit]
        starts = [s for s in starts if not pred(self.nodes[s])]
        seen = self.reachable(starts, avoid=pred, edge_ok=edge_ok)
        for e in exits:
            if e in seen:
                return self.path_to(seen, e)
        return None

    def dominators(self):
        """dom[n] = set of nodes dominating n (only for nodes reachable from entry)."""
        reach = self.reachable([self.entry])
        order = list(reach)
        allset = set(order)
        dom = {n: set(allset) for n in order}
        dom[self.entry] = {self.entry}
        changed = True
        while changed:
            changed = False
            for n in order:
                if n == self.entry:
                    continue
                ps = [p for p, _ in self.pred[n] if p in dom]
                new = set.intersection(*(dom[p] for p in ps)) if ps else set()
                new = new | {n}
                if new != dom[n]:
                    dom[n] = new
                    changed = True
        return dom

    def dominated_by(self, target_ids, pred, edge_ok=None) -> list | None:
        """Every path entry -> target passes a node satisfying pred?  None if yes else witness."""
        seen = self.reachable([self.entry], avoid=pred, edge_ok=edge_ok, include_start_check=True)
        for t in target_ids:
            if t in seen:
                return self.path_to(seen, t)
        return None

    def stats(self):
        return {"cfg_nodes": len(self.nodes), "cfg_edges": sum(len(v) for v in self.succ.values())}


class _ContWithNormal:
    """Cont plus the 'normal completion' builder of a try/finally."""

    def __init__(self, c: Cont, normal):
        self._c = c
        self.normal = normal

    def __getattr__(self, k):
        return getattr(self._c, k)

    def replace(self, **kw):
        return self._c.replace(**kw)


def build(func, policy: Policy) -> CFG:
    """func: loader.Func or an ast function node."""
    node = getattr(func, "node", func)
    name = getattr(func, "key", getattr(node, "name", "<f>"))
    return CFG(node, policy, name)


# --------------------------------------------------------------------------- fixpoint
def solve(cfg: CFG, init_states, flow, max_iter: int = 200000):
    """Forward powerset fixpoint.  ``flow(node, state, label, dst_node) -> iterable of states``
    is applied per out-edge of ``node`` (so branches refine and exceptional edges can skip the
    node's effect).  Returns {node_id: set(states)} = states *on entry* of each node."""
    IN: dict[int, set] = {cfg.entry: set(init_states)}
    work = deque([cfg.entry])
    inq = {cfg.entry}
    it = 0
    while work:
        it += 1
        if it > max_iter:
            raise AnalysisError(f"fixpoint did not converge on {cfg.name}")
        u = work.popleft()
        inq.discard(u)
        node = cfg.nodes[u]
        for v, label in cfg.succ[u]:
            dst = cfg.nodes[v]
            add = set()
            for st in IN.get(u, ()):
                for s2 in flow(node, st, label, dst):
                    add.add(s2)
            cur = IN.setdefault(v, set())
            if not add <= cur:
                cur |= add
                if v not in inq:
                    inq.add(v)
                    work.append(v)
    return IN
