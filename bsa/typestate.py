"""A2 - thread-modular typestate of RunEngine._state.

Abstract global tuple G = (state, permit_set, resumable, cancel_pending).  Function-local facts
(booleans assigned from refinable conditions, whether ``stashed_exception`` is None) ride along
inside one function and are dropped at its exits.

* The main coroutine ``_run`` is interpreted on its CFG.  ``await self.m()`` and ``self.m()`` on
  methods that (transitively) touch the tracked attributes are replaced by a computed summary of
  the callee (same interpreter, memoised per start tuple).  ``await coro(msg)`` is the union over
  every registered command handler.
* At an ``await`` of library code the task may be suspended: the reflexive-transitive closure of
  the *request summaries* (pause, suspend, abort, stop, halt - each obtained by interpreting the
  request coroutine's own source - plus "the main thread sets the run permit") is applied.  Tuples
  with a pending cancel leave through the CancelledError edge, the others through the normal edge.
  ``await asyncio.sleep(0)`` always yields to the loop; any other await may complete without
  yielding (then a pending cancel stays pending).
* Obligations: every ``self._state = <literal>`` executed by ``_run`` (or by a callee on its
  behalf) is legal in the transition table for every tuple in its pre-set; every
  ``assert self._state == ...`` holds on its pre-set; request coroutines contain no await
  (atomicity).  An illegal assignment inside a *request* is the designed rejection and is only
  reported as information.
"""

from __future__ import annotations

import ast
from collections import namedtuple

from . import astutil as A
from . import cfg as C
from .idioms import cname, where
from .loader import AnalysisError, Func
from .re_model import CLS, MOD, REModel
from .run_tail import OTEL_TOTAL

# origin: the await site at which the most recent accepted external request landed (None after _run's own
# transitions) - it keys findings by *where* the request was accepted, so a new window is a new finding
G = namedtuple("G", "state permit resumable cancel origin", defaults=(None,))
St = namedtuple("St", "g locs")  # locs: frozenset of (name, value)

TRACKED_ATTRS = ("self._state", "self._msg_cache")
REQUESTS = [
    ("pause", "RunEngine._request_pause_coro"),
    ("suspend", "RunEngine.request_suspend._request_suspend"),
    ("abort", "RunEngine._abort_coro"),
    ("stop", "RunEngine._stop_coro"),
    ("halt", "RunEngine._halt_coro"),
]


def _loc(st: St, name):
    for k, v in st.locs:
        if k == name:
            return v
    return None


def _setloc(st: St, name, value) -> St:
    locs = frozenset((k, v) for k, v in st.locs if k != name)
    if value is not None:
        locs = locs | {(name, value)}
    return St(st.g, locs)


class Engine:
    def __init__(self, rm: REModel):
        self.rm = rm
        self.repo = rm.repo
        self.states = rm.sm["states"]
        self.table = {k: set(v) for k, v in rm.sm["transitions"].items()}
        self.checkers = rm.sm["checkers"]
        self.pol = rm.policy(extra_total=OTEL_TOTAL)
        self._cfgs: dict[str, C.CFG] = {}
        self._summ: dict = {}
        self._stack: list = []
        self._relevant: dict[str, bool] = {}
        self._closure: dict[G, frozenset] = {}
        self._sites: dict = {}
        self.obligations: dict = {}  # (func.key, stmt id) -> {"stmt","func","pre":set,"bad":set,"kind"}
        self.rejections: dict = {}  # request -> {start state: (result, effects)}
        self.req_funcs = {name: self.repo.func(MOD, q) for name, q in REQUESTS}
        self.handlers = {cmd: rm.handler(cmd) for cmd in rm.registry}
        self.stats = {"summaries": 0, "solves": 0}

    # ------------------------------------------------------------------ await sites
    def site_of(self, f: Func, stmt) -> str:
        """Role-based name of an await site: function, statement, and (for _run) the region it lies in."""
        key = (f.key, id(stmt))
        if key in self._sites:
            return self._sites[key]
        name = f"{f.qualname}:{A.head(stmt)}"
        if f.key == self.rm.run.key:
            rm = self.rm
            region = "before the loop"
            if any(stmt is x for x in A.walk_stmts(rm.pause_block.body)):
                region = "in the pause block"
            elif any(stmt is x for x in A.walk_stmts(rm.loop.body)):
                region = "in the message loop"
            elif any(stmt is x for x in A.walk_stmts(rm.outer_try.finalbody)):
                region = "in the finally"
            else:
                for h in rm.outer_try.handlers:
                    if any(stmt is x for x in A.walk_stmts(h.body)):
                        region = "in " + A.head(h)
            name = f"{name} {region}"
        self._sites[key] = name
        return name

    # ------------------------------------------------------------------ relevance
    def touches(self, f: Func, seen=None) -> bool:
        """Does f (transitively through self.* calls) write a tracked attribute / cancel the task?"""
        if f.key in self._relevant:
            return self._relevant[f.key]
        seen = seen or set()
        if f.key in seen:
            return False
        seen.add(f.key)
        res = False
        for n in A.walk_local(f.node):
            if isinstance(n, (ast.Assign, ast.AugAssign, ast.AnnAssign)):
                for t in A.targets_of(n):
                    if A.chain(t) in TRACKED_ATTRS:
                        res = True
            if isinstance(n, ast.Call):
                cn = A.call_name(n) or ""
                if cn in ("self._task.cancel", "self._run_permit.set", "self._run_permit.clear"):
                    res = True
                elif cn.startswith("self.") and cn.count(".") == 1:
                    g = self.repo.funcs.get(f"{MOD}:{CLS}.{cn[5:]}")
                    if g is not None and self.touches(g, seen):
                        res = True
            if isinstance(n, ast.Attribute) and n.attr == "rewindable" and isinstance(n.ctx, ast.Store) and A.chain(n) == "self.rewindable":
                g = self.repo.funcs.get(f"{MOD}:{CLS}.rewindable.setter")
                if g is not None and self.touches(g, seen):
                    res = True
        self._relevant[f.key] = res
        return res

    def cfg_of(self, f: Func) -> C.CFG:
        if f.key not in self._cfgs:
            self._cfgs[f.key] = C.build(f, self.pol)
        return self._cfgs[f.key]

    # ------------------------------------------------------------------ conditions
    def legal(self, a: str, b: str) -> bool:
        return b in self.table.get(a, ())

    def _state_expr(self, node) -> bool:
        return A.chain(node) in ("self._state", "self.state")

    def assume(self, expr, st: St, truth: bool) -> list[St]:
        """States refined by assuming expr evaluates to truth ([] if impossible)."""
        g = st.g
        if isinstance(expr, ast.UnaryOp) and isinstance(expr.op, ast.Not):
            return self.assume(expr.operand, st, not truth)
        if isinstance(expr, ast.BoolOp):
            is_and = isinstance(expr.op, ast.And)
            if is_and == truth:
                # all operands must have value `truth`
                cur = [st]
                for v in expr.values:
                    cur = [s2 for s in cur for s2 in self.assume(v, s, truth)]
                return cur
            out = []
            # some operand has value `truth` (and the earlier ones the opposite)
            prefix = [st]
            for v in expr.values:
                for s in prefix:
                    out.extend(self.assume(v, s, truth))
                prefix = [s2 for s in prefix for s2 in self.assume(v, s, not truth)]
            return list(dict.fromkeys(out))
        if isinstance(expr, ast.NamedExpr):
            return self.assume(expr.value, st, truth)
        if isinstance(expr, ast.Compare) and len(expr.ops) == 1:
            left, op, right = expr.left, expr.ops[0], expr.comparators[0]
            if self._state_expr(left):
                vals = None
                s = A.const_str(right)
                if s is not None:
                    vals = {s}
                elif A.str_elts(right) is not None:
                    vals = set(A.str_elts(right))
                if vals is not None:
                    if isinstance(op, (ast.Eq, ast.In)):
                        return [st] if (g.state in vals) == truth else []
                    if isinstance(op, (ast.NotEq, ast.NotIn)):
                        return [st] if (g.state not in vals) == truth else []
            ch = A.chain(left)
            if ch == "self._msg_cache" and isinstance(right, ast.Constant) and right.value is None:
                is_none = not g.resumable
                if isinstance(op, ast.Is):
                    return [st] if is_none == truth else []
                if isinstance(op, ast.IsNot):
                    return [st] if (not is_none) == truth else []
            if isinstance(left, ast.Name) and isinstance(right, ast.Constant) and right.value is None:
                v = _loc(st, left.id)
                if v in ("None", "Some"):
                    is_none = v == "None"
                    if isinstance(op, ast.Is):
                        return [st] if is_none == truth else []
                    if isinstance(op, ast.IsNot):
                        return [st] if (not is_none) == truth else []
            return [st]
        ch = A.chain(expr)
        if ch in ("self._state.is_idle", "self.state.is_idle"):
            return [st] if (g.state == "idle") == truth else []
        if ch in ("self._state.is_paused", "self.state.is_paused"):
            return [st] if (g.state == "paused") == truth else []
        if ch in ("self._state.is_running", "self.state.is_running"):
            return [st] if (g.state == "running") == truth else []
        if ch and ch.split(".")[-1] in self.checkers and ch.rsplit(".", 1)[0] in ("self._state", "self.state"):
            target = self.checkers[ch.split(".")[-1]]
            return [st] if self.legal(g.state, target) == truth else []
        if ch == "self.resumable":
            return [st] if g.resumable == truth else []
        if isinstance(expr, ast.Call) and A.call_name(expr) == "self._run_permit.is_set":
            return [st] if g.permit == truth else []
        if isinstance(expr, ast.Name):
            v = _loc(st, expr.id)
            if v in (True, False):
                return [st] if v == truth else []
            if v == "None":
                return [st] if (False == truth) else []
            return [st]
        if isinstance(expr, ast.Constant):
            return [st] if bool(expr.value) == truth else []
        return [st]

    def refinable(self, expr) -> bool:
        """Does the expression mention only things assume() can decide?"""
        txt = A.norm(expr)
        return any(k in txt for k in ("self._state", "self.state", "self.resumable", "self._msg_cache", "is_set()"))

    # ------------------------------------------------------------------ environment
    def closure_at(self, g: G, site: str):
        """closure of the requests from g; tuples whose state an accepted request changed carry the await site"""
        base = g._replace(origin=None)
        out = set()
        for g2 in self.closure(base):
            out.add(g2._replace(origin=site if g2.state != g.state else g.origin))
        return out

    def closure(self, g0: G) -> frozenset:
        if g0 in self._closure:
            return self._closure[g0]
        seen = {g0}
        work = [g0]
        while work:
            g = work.pop()
            nxt = set()
            for name, f in self.req_funcs.items():
                for kind, g2 in self.summary(f, g, env=name):
                    nxt.add(g2)
            if g.state in ("idle", "paused", "aborting", "stopping", "halting") and not g.permit:
                nxt.add(g._replace(permit=True))  # main thread: loop.call_soon_threadsafe(self._run_permit.set)
            for g2 in nxt:
                if g2 not in seen:
                    seen.add(g2)
                    work.append(g2)
        self._closure[g0] = frozenset(seen)
        return self._closure[g0]

    # ------------------------------------------------------------------ summaries
    def summary(self, f: Func, g0: G, env: str | None = None) -> frozenset:
        """{(exit kind, G)}; exit kind 'return' or ('exc', K)."""
        key = (f.key, g0, env)
        if key in self._summ:
            return self._summ[key]
        if key in self._stack:
            raise AnalysisError(f"recursive summary for {f.key}")
        if len(self._stack) > 12:
            raise AnalysisError("summary recursion too deep")
        self._stack.append(key)
        try:
            cfg = self.cfg_of(f)
            flow = self.make_flow(f, cfg, env)
            IN = C.solve(cfg, [St(g0, frozenset())], flow)
            self.stats["solves"] += 1
            out = set()
            for p, label in cfg.pred[cfg.exit]:
                for st in IN.get(p, ()):
                    for s2 in flow(cfg.nodes[p], st, label, cfg.nodes[cfg.exit]):
                        out.add(("return", s2.g))
            for p, label in cfg.pred[cfg.raise_exit]:
                for st in IN.get(p, ()):
                    for s2 in flow(cfg.nodes[p], st, label, cfg.nodes[cfg.raise_exit]):
                        k = label[1] if isinstance(label, tuple) else "AssertionError"
                        out.add((("exc", k), s2.g))
        finally:
            self._stack.pop()
        self._summ[key] = frozenset(out)
        self.stats["summaries"] += 1
        return self._summ[key]

    # ------------------------------------------------------------------ transfer
    def record(self, f: Func, stmt, pre: St, ok: bool, kind: str, env, detail=""):
        if env is not None:
            if not ok:
                self.rejections.setdefault(env, {}).setdefault(pre.g.state, set()).add(detail)
            return
        key = (f.key, id(stmt), kind)
        o = self.obligations.setdefault(key, {"func": f, "stmt": stmt, "kind": kind, "pre": set(), "bad": set(), "detail": set()})
        o["pre"].add(pre.g)
        if not ok:
            o["bad"].add(pre.g)
            if detail:
                o["detail"].add(detail)

    def effects(self, f: Func, node: C.Node, st: St, env):
        """-> (normal: set[St], exc: dict[kind -> set[St]], precise: set[kind] | 'all')"""
        s = node.stmt
        a = node.ast
        g = st.g
        normal: set = set()
        exc: dict = {}
        precise: set = set()

        def add_exc(k, s2):
            exc.setdefault(k, set()).add(s2)

        if a is None or node.kind in ("join", "handler", "with_exit", "for", "break", "continue", "entry"):
            return {st}, exc, precise

        # ---- awaits
        awaits = [n for n in A.walk_local(a) if isinstance(n, ast.Await)] if isinstance(a, ast.AST) else []
        if awaits:
            aw = awaits[0]
            call = aw.value if isinstance(aw.value, ast.Call) else None
            cn = A.call_name(call) if call is not None else None
            callee = None
            if cn and cn.startswith("self.") and cn.count(".") == 1:
                callee = self.repo.funcs.get(f"{MOD}:{CLS}.{cn[5:]}")
            if callee is not None and self.touches(callee):
                for kind, g2 in self.summary(callee, g, env):
                    if kind == "return":
                        normal.add(St(g2, st.locs))
                    else:
                        add_exc(kind[1], St(g2, st.locs))
                return self._assign_result(a, normal), exc, "all"
            if cn == "coro" and f.qualname == f"{CLS}._run":
                # the command dispatch: union over every registered handler
                any_irrelevant = False
                for cmd, h in self.handlers.items():
                    if self.touches(h):
                        for kind, g2 in self.summary(h, g, env):
                            if kind == "return":
                                normal.add(St(g2, st.locs))
                            else:
                                add_exc(kind[1], St(g2, st.locs))
                    else:
                        any_irrelevant = True
                if any_irrelevant:
                    n2, c2 = self.lib_await(st, always_yields=False, site=self.site_of(f, s))
                    normal |= n2
                    for s2 in c2:
                        add_exc("CancelledError", s2)
                    for s2 in n2:
                        add_exc("Exception", s2)
                return self._assign_result(a, normal), exc, "all"
            # library / device / bundler await
            is_sleep0 = cn == "asyncio.sleep" and call.args and isinstance(call.args[0], ast.Constant) and call.args[0].value == 0
            is_sleep = cn == "asyncio.sleep"
            if cn == "self._run_permit.wait":
                n2, c2 = self.permit_wait(st, site=self.site_of(f, s))
            else:
                n2, c2 = self.lib_await(st, always_yields=bool(is_sleep0 or (is_sleep and call.args and not isinstance(call.args[0], ast.Starred)
                                                                     and isinstance(call.args[0], ast.Constant))), site=self.site_of(f, s))
            for s2 in c2:
                add_exc("CancelledError", s2)
            precise.add("CancelledError")
            # any other exception kind out of the awaited code: the state is whatever the
            # environment left (a failing device does not change it)
            for s2 in n2:
                for k in self.pol.raises(a) - {"CancelledError"}:
                    add_exc(k, s2)
                    precise.add(k)
            return self._assign_result(a, n2), exc, precise

        # ---- simple statements
        if isinstance(s, ast.Assign) and node.kind == "stmt":
            tgt = A.chain(s.targets[0]) if len(s.targets) == 1 else None
            if tgt == "self._state":
                lit = A.const_str(s.value)
                if lit is None:
                    raise AnalysisError(f"non-literal right-hand side in {A.head(s)} ({f.key})")
                ok = self.legal(g.state, lit)
                self.record(f, s, st, ok, "assign", env, f"{g.state} -> {lit} rejected by the setter")
                if ok:
                    return {St(g._replace(state=lit, origin=None if env is None else g.origin), st.locs)}, exc, {"TransitionError"}
                add_exc("TransitionError", st)  # the setter raises, the state is unchanged
                return set(), exc, {"TransitionError"}
            if tgt == "self._msg_cache":
                if isinstance(s.value, ast.Constant) and s.value.value is None:
                    return {St(g._replace(resumable=False), st.locs)}, exc, precise
                return {St(g._replace(resumable=True), st.locs)}, exc, precise
            if tgt == "self.rewindable":
                h = self.repo.funcs.get(f"{MOD}:{CLS}.rewindable.setter")
                if h is not None and self.touches(h):
                    for kind, g2 in self.summary(h, g, env):
                        if kind == "return":
                            normal.add(St(g2, st.locs))
                        else:
                            add_exc(kind[1], St(g2, st.locs))
                    return normal, exc, "all"
            if isinstance(s.targets[0], ast.Name) and len(s.targets) == 1:
                name = s.targets[0].id
                v = s.value
                if isinstance(v, ast.Constant) and v.value is None:
                    return {_setloc(st, name, "None")}, exc, precise
                if isinstance(v, ast.Constant) and isinstance(v.value, bool):
                    return {_setloc(st, name, v.value)}, exc, precise
                if isinstance(v, (ast.Compare, ast.BoolOp, ast.UnaryOp)) and self.refinable(v):
                    outs = set()
                    for truth in (True, False):
                        for s2 in self.assume(v, st, truth):
                            outs.add(_setloc(s2, name, truth))
                    return outs, exc, precise
                if name == "stashed_exception":
                    if isinstance(v, ast.Subscript) or isinstance(v, ast.Call) or isinstance(v, ast.Name) or isinstance(v, ast.Attribute):
                        # exception_map[...] / FailedPause() / e / self._exception (guarded by 'is not None')
                        return {_setloc(st, name, "Some")}, exc, precise
                out_st = _setloc(st, name, None)
                return self._calls(f, a, out_st, env, exc)
        if isinstance(a, ast.AST):
            return self._calls(f, a, st, env, exc)
        return {st}, exc, precise

    def _assign_result(self, a, normal):
        return normal

    def _calls(self, f, a, st: St, env, exc):
        """Effects of the calls in a plain statement (in evaluation order, approximated by source order)."""
        cur = {st}
        precise: set = set()
        calls = sorted((c for c in A.calls_in(a)), key=lambda c: (getattr(c, "end_lineno", 0), getattr(c, "end_col_offset", 0)))
        for c in calls:
            cn = A.call_name(c) or ""
            nxt = set()
            for s1 in cur:
                g = s1.g
                if cn == "self._run_permit.set":
                    nxt.add(St(g._replace(permit=True), s1.locs))
                elif cn == "self._run_permit.clear":
                    nxt.add(St(g._replace(permit=False), s1.locs))
                elif cn == "self._task.cancel":
                    nxt.add(St(g._replace(cancel=True), s1.locs))
                elif cn.startswith("self.") and cn.count(".") == 1:
                    callee = self.repo.funcs.get(f"{MOD}:{CLS}.{cn[5:]}")
                    if callee is not None and not callee.is_async and self.touches(callee):
                        for kind, g2 in self.summary(callee, g, env):
                            if kind == "return":
                                nxt.add(St(g2, s1.locs))
                            else:
                                exc.setdefault(kind[1], set()).add(St(g2, s1.locs))
                                precise.add(kind[1])
                    else:
                        nxt.add(s1)
                else:
                    nxt.add(s1)
            cur = nxt
        return cur, exc, precise

    def lib_await(self, st: St, always_yields: bool, site: str = "?"):
        normal, cancelled = set(), set()
        for g2 in self.closure_at(st.g, site):
            if g2.cancel:
                cancelled.add(St(g2._replace(cancel=False), st.locs))
            else:
                normal.add(St(g2, st.locs))
        if not always_yields and st.g.cancel:
            normal.add(st)  # completed without yielding to the loop: the cancel is still pending
        return normal, cancelled

    def permit_wait(self, st: St, site: str = "?"):
        normal, cancelled = set(), set()
        if st.g.permit:
            normal.add(st)  # Event.wait() returns at once when the event is set
            return normal, cancelled
        for g2 in self.closure_at(st.g, site):
            if g2.cancel:
                cancelled.add(St(g2._replace(cancel=False), st.locs))
            elif g2.permit:
                normal.add(St(g2, st.locs))
        return normal, cancelled

    def make_flow(self, f: Func, cfg: C.CFG, env):
        cache: dict = {}

        def flow(node: C.Node, st: St, label, dst: C.Node):
            is_exc = isinstance(label, tuple) and label[0] == "exc"
            if node.kind == "test":
                if label in ("T", "F"):
                    outs = self.assume(node.ast, st, label == "T")
                    if isinstance(node.stmt, ast.Assert) and self.refinable(node.ast):
                        ok = not self.assume(node.ast, st, False)
                        self.record(f, node.stmt, st, ok, "assert", env, f"assert can fail in state {st.g.state}")
                    return outs
                if is_exc:
                    return [st]
                return [st]
            key = (node.id, st)
            if key not in cache:
                cache[key] = self.effects(f, node, st, env)
            normal, exc, precise = cache[key]
            if is_exc:
                k = label[1]
                if k in exc:
                    return exc[k]
                if precise == "all" or k in precise:
                    # a more general handler kind may receive a precise subclass (e.g. TransitionError -> Exception)
                    return exc.get(k, ())
                return [st]
            return normal

        return flow

    # ------------------------------------------------------------------ driver
    def run_main(self):
        f = self.rm.run
        g0 = G("idle", False, True, False)
        cfg = self.cfg_of(f)
        flow = self.make_flow(f, cfg, None)
        IN = C.solve(cfg, [St(g0, frozenset())], flow)
        self.stats["solves"] += 1
        self.IN = IN
        self.cfg = cfg
        return IN

    def pre_states(self, stmt) -> set:
        out = set()
        for nid in self.cfg.nodes_of(stmt):
            for st in self.IN.get(nid, ()):
                out.add(st.g)
        return out


def fmt(gs) -> str:
    def one(g):
        return f"({g.state},permit={'set' if g.permit else 'clear'},{'resumable' if g.resumable else 'not-resumable'}" + \
            (",cancel-pending" if g.cancel else "") + ")"
    return ", ".join(sorted(one(g) for g in gs))


def check_c07_d1(ctx, rm: REModel, eng: Engine | None = None) -> Engine:
    eng = eng or Engine(rm)
    # atomicity of the request coroutines
    atomic = True
    for name, f in eng.req_funcs.items():
        aw = [n for n in A.walk_local(f.node) if isinstance(n, ast.Await)]
        atomic = atomic and not aw
        ctx.ob("C07.D1-request-atomic", cname(f, None, "no await in the request coroutine"), not aw,
               "" if not aw else f"`{A.short(aw[0])}` makes the request non-atomic with respect to _run", where=where(f, f.node))
    if not atomic:
        # the thread-modular model (requests as atomic summaries) does not apply; the failed
        # atomicity obligation above is the verdict
        eng.IN, eng.cfg = {}, eng.cfg_of(rm.run)
        return eng
    eng.run_main()
    n_ob = 0
    for key, o in sorted(eng.obligations.items(), key=lambda kv: (kv[0][0], getattr(kv[1]["stmt"], "lineno", 0))):
        f, stmt = o["func"], o["stmt"]
        pre_states = sorted({g.state for g in o["pre"]})
        bad_keys = sorted({(g.state, g.origin or "no external request since _run's last own transition") for g in o["bad"]})
        rule = "C07.D1-transition-legal" if o["kind"] == "assign" else "C07.D1-assert-holds"
        n_ob += 1
        if not bad_keys:
            ctx.ob(rule, cname(f, stmt), True, f"pre-states {pre_states}", nontrivial=True, where=where(f, stmt))
        else:
            for b, origin in bad_keys:
                ctx.ob(rule, f"{cname(f, stmt)} from {b} <- request accepted at [{origin}]", False,
                       f"reachable with the engine in state {b!r} ({'; '.join(sorted(o['detail']))[:200]}) after a request was accepted at "
                       f"`{origin}`; reachable pre-tuples: {fmt(g for g in o['bad'] if g.state == b and (g.origin or '') == (origin if g.origin else ''))}",
                       nontrivial=True, where=where(f, stmt))
            ok_states = [s for s in pre_states if s not in {b for b, _o in bad_keys}]
            ctx.ob(rule, f"{cname(f, stmt)} from the other pre-states", True, f"legal from {ok_states}", nontrivial=True)
    ctx.expect("C07.D1-transition-legal", 6)
    # report the request table (information, not violations)
    for name, f in eng.req_funcs.items():
        row = {}
        for s in eng.states:
            for res in (True, False):
                for kind, g2 in eng.summary(f, G(s, True, res, False), env=name):
                    tag = ("" if kind == "return" else "rej:") + g2.state + ("+cancel" if g2.cancel else "")
                    row.setdefault(f"{s}/{'res' if res else 'nores'}", set()).add(tag)
        ctx.extra.setdefault("request_summaries", {})[name] = {k: sorted(v) for k, v in sorted(row.items())}
    ctx.extra["typestate"] = {
        "tuples_per_node_max": max((len(v) for v in eng.IN.values()), default=0),
        "nodes_with_states": len(eng.IN),
        "summaries": eng.stats["summaries"],
        "fixpoint_solves": eng.stats["solves"],
        "relevant_methods": sorted(k.split(":")[1] for k, v in eng._relevant.items() if v),
    }
    return eng
