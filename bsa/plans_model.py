"""Helpers for generator plans: which yields are 'actions', checkpoint dominance per iteration."""

from __future__ import annotations

import ast

from . import astutil as A
from . import cfg as C
from . import q
from .idioms import cname, where

ACTION_COMMANDS = {"set", "trigger", "create", "read", "save", "kickoff", "collect", "complete"}
ACTION_SUBPLANS = {"mv", "mvr", "abs_set", "rel_set", "trigger_and_read", "take_reading", "ensure_generator", "per_step", "per_shot",
                   "one_shot", "one_1d_step", "one_nd_step", "move_per_step", "trigger", "read", "create", "save", "move"}


def is_checkpoint_stmt(s: ast.stmt) -> bool:
    for n in A.walk_local(s):
        if A.is_msg_yield(n, "checkpoint"):
            return True
        if isinstance(n, ast.YieldFrom) and isinstance(n.value, ast.Call):
            cn = A.call_name(n.value) or ""
            if cn.split(".")[-1] == "checkpoint":
                return True
    return False


def is_action_stmt(s: ast.stmt, extra=()) -> bool:
    if isinstance(s, (ast.If, ast.While, ast.For, ast.Try, ast.With, ast.FunctionDef, ast.AsyncFunctionDef)):
        return False
    for n in A.walk_local(s):
        if isinstance(n, ast.Yield) and isinstance(n.value, ast.Call) and A.call_name(n.value) in ("Msg", "utils.Msg") and n.value.args:
            c = A.const_str(n.value.args[0])
            if c in ACTION_COMMANDS:
                return True
        if isinstance(n, ast.YieldFrom) and isinstance(n.value, ast.Call):
            cn = (A.call_name(n.value) or "").split(".")[-1]
            if cn in ACTION_SUBPLANS or cn in extra:
                return True
    return False


def checkpoint_dominates_actions(ctx, rule: str, f, loop=None, extra_actions=(), what="", allow_after_loop=True):
    """Every action yield of f (of each iteration of ``loop`` when given) is preceded by a checkpoint."""
    g = q.cfg(f, q.quiet_policy(ctx.repo))
    if loop is not None:
        heads = [n for n in g.nodes_of(loop) if g.nodes[n].kind in ("test", "for")]
        starts = [v for h in heads for v, lab in g.succ[h] if lab in ("T", "iter")]
        body_ids = {id(s) for s in A.walk_stmts(loop.body)}
    else:
        starts = [g.entry]
        body_ids = None
    seen = g.reachable(starts, avoid=lambda n: n.stmt is not None and n.kind == "stmt" and is_checkpoint_stmt(n.stmt),
                       include_start_check=True)
    bad = []
    n_actions = 0
    for nid, node in enumerate(g.nodes):
        if node.kind != "stmt" or node.stmt is None or not is_action_stmt(node.stmt, extra_actions):
            continue
        if body_ids is not None and id(node.stmt) not in body_ids:
            continue
        n_actions += 1
        if nid in seen:
            bad.append((node, g.path_to(seen, nid)))
    ctx.ob(rule, cname(f, loop, what or ("each iteration starts with a checkpoint" if loop is not None else "checkpoint before the first action")),
           not bad and n_actions > 0,
           f"{n_actions} action yields, all preceded by a checkpoint" if (not bad and n_actions) else
           (f"`{A.head(bad[0][0].stmt)}` is reachable without passing a checkpoint: a pause there replays work of an earlier data point"
            if bad else "no action yields recognised (rule anchor lost)"),
           nontrivial=True, witness=bad[0][1][-6:] if bad else None, where=where(f, loop if loop is not None else f.node))
    return not bad
