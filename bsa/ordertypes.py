"""A9 - order-type evaluation: evaluate comparison-only predicates on every weak ordering of their symbols."""

from __future__ import annotations

import ast
import itertools
import operator

from . import astutil as A


def weak_orderings(symbols):
    """All assignments symbol -> rank such that every weak ordering (ties allowed) appears exactly once."""
    n = len(symbols)
    seen = set()
    for ranks in itertools.product(range(n), repeat=n):
        # canonical form: ranks used are 0..k-1 without gaps
        used = sorted(set(ranks))
        canon = tuple(used.index(r) for r in ranks)
        if canon in seen:
            continue
        seen.add(canon)
        yield dict(zip(symbols, canon))


OPS = {ast.Lt: operator.lt, ast.LtE: operator.le, ast.Gt: operator.gt, ast.GtE: operator.ge, ast.Eq: operator.eq, ast.NotEq: operator.ne}


class Unsupported(Exception):
    pass


def evaluate(expr, env, funcs=None):
    """Evaluate a predicate AST whose leaves are looked up (by normalised text) in env."""
    funcs = funcs or {}
    key = A.norm(expr)
    if key in env:
        return env[key]
    if isinstance(expr, ast.Constant):
        return expr.value
    if isinstance(expr, ast.UnaryOp) and isinstance(expr.op, ast.Not):
        return not evaluate(expr.operand, env, funcs)
    if isinstance(expr, ast.BoolOp):
        vals = [evaluate(v, env, funcs) for v in expr.values]
        return all(vals) if isinstance(expr.op, ast.And) else any(vals)
    if isinstance(expr, ast.Compare):
        left = evaluate(expr.left, env, funcs)
        for op, comp in zip(expr.ops, expr.comparators):
            right = evaluate(comp, env, funcs)
            if type(op) not in OPS:
                raise Unsupported(A.norm(expr))
            if not OPS[type(op)](left, right):
                return False
            left = right
        return True
    if isinstance(expr, ast.Call):
        cn = A.call_name(expr)
        if cn == "bool" and len(expr.args) == 1:
            return bool(evaluate(expr.args[0], env, funcs))
        if cn in ("max", "min") and len(expr.args) >= 2 and not expr.keywords:
            # order-preserving selections: the result is one of the operands, so the rank abstraction stays exact
            vals = [evaluate(a, env, funcs) for a in expr.args]
            return max(vals) if cn == "max" else min(vals)
        if cn in funcs:
            return funcs[cn](*[evaluate(a, env, funcs) for a in expr.args])
    if isinstance(expr, ast.IfExp):
        return evaluate(expr.body, env, funcs) if evaluate(expr.test, env, funcs) else evaluate(expr.orelse, env, funcs)
    raise Unsupported(A.norm(expr))
