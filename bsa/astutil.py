"""Small AST helpers shared by the rules."""

from __future__ import annotations

import ast
from typing import Iterable, Iterator

FUNC_TYPES = (ast.FunctionDef, ast.AsyncFunctionDef, ast.Lambda)
SCOPE_TYPES = (ast.FunctionDef, ast.AsyncFunctionDef, ast.Lambda, ast.ClassDef)


def norm(node: ast.AST | None) -> str:
    """Normalised source text of a node (layout independent)."""
    if node is None:
        return ""
    try:
        return ast.unparse(node)
    except Exception:  # pragma: no cover
        return ast.dump(node)


def short(node: ast.AST | None, n: int = 100) -> str:
    s = " ".join(norm(node).split())
    return s if len(s) <= n else s[: n - 3] + "..."


class _Elide(ast.NodeTransformer):
    def visit_Call(self, node):
        self.generic_visit(node)
        if len(norm(node)) > 48 and (node.args or node.keywords):
            return ast.Call(func=node.func, args=[ast.Constant(value=...)], keywords=[])
        return node

    def visit_JoinedStr(self, node):
        return ast.Constant(value="f-string")


def brief(node: ast.AST | None) -> str:
    """Statement text with the arguments of long calls elided - a stable construct key."""
    if node is None:
        return ""
    s = " ".join(norm(node).split())
    if len(s) <= 72:
        return s
    import copy

    try:
        n2 = _Elide().visit(copy.deepcopy(node))
        ast.fix_missing_locations(n2)
        s2 = " ".join(norm(n2).split())
    except Exception:  # pragma: no cover
        s2 = s
    return s2 if len(s2) <= 110 else s2[:107] + "..."


def head(node: ast.AST) -> str:
    """First line of a statement (compound statements are reduced to their header)."""
    if isinstance(node, (ast.If, ast.While)):
        kw = "if" if isinstance(node, ast.If) else "while"
        return f"{kw} {brief(node.test)}:"
    if isinstance(node, (ast.For, ast.AsyncFor)):
        return f"for {short(node.target)} in {brief(node.iter)}:"
    if isinstance(node, (ast.With, ast.AsyncWith)):
        return "with " + ", ".join(short(i) for i in node.items) + ":"
    if isinstance(node, ast.Try):
        return "try:"
    if isinstance(node, ast.ExceptHandler):
        return "except " + (short(node.type) if node.type else "") + ":"
    if isinstance(node, (ast.FunctionDef, ast.AsyncFunctionDef)):
        return f"def {node.name}(...)"
    if isinstance(node, ast.ClassDef):
        return f"class {node.name}"
    return brief(node)


def walk_local(node: ast.AST) -> Iterator[ast.AST]:
    """ast.walk that does not descend into nested function / lambda / class bodies
    (the nested def node itself is yielded; the root is always entered)."""
    yield node
    for child in ast.iter_child_nodes(node):
        if isinstance(child, SCOPE_TYPES):
            yield child
            continue
        yield from walk_local(child)


def walk_stmts(body: Iterable[ast.stmt]) -> Iterator[ast.stmt]:
    """All statements of a body, recursively, not entering nested defs."""
    for s in body:
        yield s
        if isinstance(s, SCOPE_TYPES):
            continue
        for fld in ("body", "orelse", "finalbody"):
            sub = getattr(s, fld, None)
            if isinstance(sub, list) and sub and isinstance(sub[0], ast.stmt):
                yield from walk_stmts(sub)
        if isinstance(s, ast.Try):
            for h in s.handlers:
                yield from walk_stmts(h.body)
        if isinstance(s, ast.Match):
            for c in s.cases:
                yield from walk_stmts(c.body)


def chain(node: ast.AST | None) -> str | None:
    """Dotted name of a Name/Attribute chain: ``self._run_bundlers`` -> 'self._run_bundlers'."""
    parts = []
    while isinstance(node, ast.Attribute):
        parts.append(node.attr)
        node = node.value
    if isinstance(node, ast.Name):
        parts.append(node.id)
        return ".".join(reversed(parts))
    return None


def call_name(call: ast.AST) -> str | None:
    if isinstance(call, ast.Call):
        return chain(call.func)
    return None


def calls_in(node: ast.AST, local: bool = True) -> Iterator[ast.Call]:
    it = walk_local(node) if local else ast.walk(node)
    for n in it:
        if isinstance(n, ast.Call):
            yield n


def find_calls(node: ast.AST, name: str, local: bool = True) -> list[ast.Call]:
    """Calls whose dotted callee equals ``name`` or ends with '.name'."""
    out = []
    for c in calls_in(node, local):
        cn = call_name(c)
        if cn is None:
            # method call on a non-chain receiver: x[...].name(...)
            if isinstance(c.func, ast.Attribute) and c.func.attr == name:
                out.append(c)
            continue
        if cn == name or cn.endswith("." + name):
            out.append(c)
    return out


def method_calls(node: ast.AST, attr: str, local: bool = True) -> list[ast.Call]:
    return [c for c in calls_in(node, local) if isinstance(c.func, ast.Attribute) and c.func.attr == attr]


def has_await(node: ast.AST) -> bool:
    return any(isinstance(n, ast.Await) for n in walk_local(node))


def has_yield(node: ast.AST) -> bool:
    return any(isinstance(n, (ast.Yield, ast.YieldFrom)) for n in walk_local(node))


def const_str(node: ast.AST | None) -> str | None:
    if isinstance(node, ast.Constant) and isinstance(node.value, str):
        return node.value
    return None


def str_elts(node: ast.AST | None) -> list[str] | None:
    """String elements of a list/tuple/set literal, None if not all literal strings."""
    if isinstance(node, (ast.List, ast.Tuple, ast.Set)):
        out = []
        for e in node.elts:
            s = const_str(e)
            if s is None:
                return None
            out.append(s)
        return out
    return None


def parents(root: ast.AST) -> dict[ast.AST, ast.AST]:
    p = {}
    for n in ast.walk(root):
        for c in ast.iter_child_nodes(n):
            p[c] = n
    return p


def enclosing_stmt(node: ast.AST, pmap: dict) -> ast.stmt | None:
    while node is not None and not isinstance(node, ast.stmt):
        node = pmap.get(node)
    return node


def targets_of(stmt: ast.stmt) -> list[ast.AST]:
    """Assignment targets (flattened tuples) of Assign / AugAssign / AnnAssign / walrus-free."""
    out = []

    def flat(t):
        if isinstance(t, (ast.Tuple, ast.List)):
            for e in t.elts:
                flat(e)
        elif isinstance(t, ast.Starred):
            flat(t.value)
        else:
            out.append(t)

    if isinstance(stmt, ast.Assign):
        for t in stmt.targets:
            flat(t)
    elif isinstance(stmt, (ast.AugAssign, ast.AnnAssign)):
        if not (isinstance(stmt, ast.AnnAssign) and stmt.value is None):
            flat(stmt.target)
    return out


def kw(call: ast.Call, name: str) -> ast.AST | None:
    for k in call.keywords:
        if k.arg == name:
            return k.value
    return None


def is_msg_yield(node: ast.AST, command: str | None = None) -> bool:
    """``yield Msg("command", ...)``"""
    if isinstance(node, ast.Yield) and isinstance(node.value, ast.Call):
        cn = call_name(node.value)
        if cn in ("Msg", "utils.Msg", "bluesky.utils.Msg") and node.value.args:
            c = const_str(node.value.args[0])
            return command is None or c == command
    return False


def yielded_commands(node: ast.AST) -> list[str]:
    out = []
    for n in walk_local(node):
        if isinstance(n, ast.Yield) and isinstance(n.value, ast.Call):
            cn = call_name(n.value)
            if cn in ("Msg", "utils.Msg") and n.value.args:
                c = const_str(n.value.args[0])
                if c:
                    out.append(c)
    return out


def names_in(node: ast.AST) -> set[str]:
    return {n.id for n in ast.walk(node) if isinstance(n, ast.Name)}


MUTATORS = {
    "append", "appendleft", "extend", "extendleft", "insert", "pop", "popleft", "popitem", "remove",
    "clear", "update", "setdefault", "add", "discard", "sort", "reverse", "rotate", "__setitem__",
    "__delitem__", "difference_update", "intersection_update", "symmetric_difference_update",
}


_LOG_METHODS = (".debug", ".info", ".warning", ".warn", ".error", ".exception", ".critical")


def inert(s: ast.stmt) -> bool:
    """Statements that cannot change what a rule decides: docstrings / bare constants, ``pass`` and calls of
    logging methods, ``print`` and ``warnings.warn`` (total by the exception policy, no state written)."""
    if isinstance(s, ast.Pass):
        return True
    if isinstance(s, ast.Expr):
        if isinstance(s.value, ast.Constant):
            return True
        if isinstance(s.value, ast.Call):
            cn = call_name(s.value) or ""
            if cn in ("print", "warnings.warn", "warn") or cn.endswith(_LOG_METHODS):
                # the arguments themselves must not call anything that is not plainly a formatting helper
                inner = [c for a in list(s.value.args) + [k.value for k in s.value.keywords] for c in ast.walk(a) if isinstance(c, ast.Call)]
                return all((call_name(c) or "") in ("str", "repr", "len", "type", "id", "list", "sorted", "short_uid") or (call_name(c) or "").endswith(".format") for c in inner)
    return False


def body(stmts) -> list[ast.stmt]:
    """A statement list without its inert statements (see ``inert``)."""
    if isinstance(stmts, (ast.FunctionDef, ast.AsyncFunctionDef)):
        stmts = stmts.body
    return [s for s in stmts if not inert(s)]


def dict_items(node) -> dict | None:
    """{key: value node} of a dict display with constant string keys or of a `dict(k=v, ...)` call; None otherwise"""
    if isinstance(node, ast.Dict) and all(k is not None and const_str(k) is not None for k in node.keys):
        return {const_str(k): v for k, v in zip(node.keys, node.values)}
    if isinstance(node, ast.Call) and call_name(node) == "dict" and not node.args and all(k.arg for k in node.keywords):
        return {k.arg: k.value for k in node.keywords}
    return None
