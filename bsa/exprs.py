"""Exact evaluation of arithmetic expression ASTs over the rationals, for identity testing of two
formulas (Schwartz-Zippel: two different rational functions of bounded degree agree on a random
point with negligible probability; we use several points and exact Fractions, so there is no
floating-point tolerance anywhere).  Nothing from /repo is executed: only +, -, *, /, unary minus,
abs and integer powers of expression trees are interpreted."""

from __future__ import annotations

import ast
import random
from fractions import Fraction

from . import astutil as A
from .loader import AnalysisError

ABS_NAMES = {"abs", "np.abs", "numpy.abs", "np.fabs", "np.absolute", "math.fabs"}


def feval(expr, env):
    key = A.norm(expr)
    if key in env:
        return env[key]
    if isinstance(expr, ast.Constant) and isinstance(expr.value, (int, float)) and not isinstance(expr.value, bool):
        return Fraction(expr.value)
    if isinstance(expr, ast.UnaryOp) and isinstance(expr.op, (ast.USub, ast.UAdd)):
        v = feval(expr.operand, env)
        return -v if isinstance(expr.op, ast.USub) else v
    if isinstance(expr, ast.BinOp):
        a, b = feval(expr.left, env), feval(expr.right, env)
        if isinstance(expr.op, ast.Add):
            return a + b
        if isinstance(expr.op, ast.Sub):
            return a - b
        if isinstance(expr.op, ast.Mult):
            return a * b
        if isinstance(expr.op, ast.Div):
            if b == 0:
                raise ZeroDivisionError
            return a / b
        if isinstance(expr.op, ast.Pow) and b.denominator == 1 and abs(b) <= 6:
            return a ** int(b)
    if isinstance(expr, ast.Call) and A.call_name(expr) in ABS_NAMES and len(expr.args) == 1:
        return abs(feval(expr.args[0], env))
    raise AnalysisError(f"expression evaluator: unsupported construct `{A.short(expr, 80)}` (free symbols known: {sorted(env)})")


def random_points(symbols, n, seed=20240901, signed=()):
    rng = random.Random(seed)
    for _ in range(n):
        env = {}
        for s in symbols:
            v = Fraction(rng.randint(1, 997), rng.randint(1, 89))
            if s in signed and rng.random() < 0.5:
                v = -v
            env[s] = v
        yield env
