"""Reference-guided normalisation of behaviour-preserving refactors (applied by the loader before any rule runs).

The rules were written against the tree as it was when bsa/local_names.json was generated.  That table records, per module,
which functions and module-level names existed, and per outermost function the tests of its `if` statements in negation normal
form.  Three kinds of refactor are undone here when - and only when - the result is again a shape the table knows:

  A. a NEW module-level constant bound to a literal is substituted where it is used;
  B. a NEW private helper (function / method / nested def that the table does not know) is inlined at its call sites
     `h(..)`, `x = h(..)`, `await self.h(..)`, `yield from h(..)`, `return h(..)`, and - for helpers that are one `return expr` -
     inside expressions; when every call site was inlined the helper's definition is dropped;
  C. guard clauses: `if T: return / continue` followed by the rest  <->  `if not T: rest`, chosen so that the test is one the
     table knows; nested `if a: if b:` <-> `if a and b:` likewise.

Each rewrite is semantics preserving by construction (parameters are bound to argument expressions only when those are pure
names / attributes / constants, otherwise to temporaries evaluated in call order; a helper is inlined only if it is not
recursive, has no decorators other than staticmethod, no *args / **kwargs, and `return` only in tail position).  Anything that
does not fit is left as it is: the rules then see the code as written."""

from __future__ import annotations

import ast
import copy
import json
import os

TABLE = os.path.join(os.path.dirname(__file__), "local_names.json")
_FUNCS = (ast.FunctionDef, ast.AsyncFunctionDef)
# `not (a < b)` is NOT `a >= b` (NaN, sets, any partial order), so ordering comparisons are never negated by rewriting the operator
_NEG = {ast.Eq: ast.NotEq, ast.NotEq: ast.Eq, ast.Is: ast.IsNot, ast.IsNot: ast.Is, ast.In: ast.NotIn, ast.NotIn: ast.In}

_ref = None


def ref() -> dict:
    global _ref
    if _ref is None:
        _ref = {}
        if os.path.exists(TABLE):
            with open(TABLE) as f:
                _ref = json.load(f)
    return _ref


# ------------------------------------------------------------------------------------------------ negation normal form
def nnf(e: ast.expr, neg: bool = False) -> ast.expr:
    if isinstance(e, ast.UnaryOp) and isinstance(e.op, ast.Not):
        return nnf(e.operand, not neg)
    if isinstance(e, ast.BoolOp):
        op = e.op
        if neg:
            op = ast.Or() if isinstance(e.op, ast.And) else ast.And()
        return ast.BoolOp(op=op, values=[nnf(v, neg) for v in e.values])
    if neg and isinstance(e, ast.Compare) and len(e.ops) == 1 and type(e.ops[0]) in _NEG:
        return ast.Compare(left=e.left, ops=[_NEG[type(e.ops[0])]()], comparators=e.comparators)
    if neg:
        return ast.UnaryOp(op=ast.Not(), operand=e)
    return e


class _Truthy(ast.NodeTransformer):
    """in a boolean context `len(x)`, `len(x) > 0`, `len(x) != 0` mean `x`; `len(x) == 0` means `not x`"""

    def _len_arg(self, e):
        if isinstance(e, ast.Call) and isinstance(e.func, ast.Name) and e.func.id == "len" and len(e.args) == 1 and not e.keywords:
            return e.args[0]
        return None

    def boolctx(self, e):
        if isinstance(e, ast.BoolOp):
            return ast.BoolOp(op=e.op, values=[self.boolctx(v) for v in e.values])
        if isinstance(e, ast.UnaryOp) and isinstance(e.op, ast.Not):
            return ast.UnaryOp(op=ast.Not(), operand=self.boolctx(e.operand))
        a = self._len_arg(e)
        if a is not None:
            return a
        if isinstance(e, ast.Compare) and len(e.ops) == 1 and isinstance(e.comparators[0], ast.Constant) and e.comparators[0].value == 0:
            a = self._len_arg(e.left)
            if a is not None:
                if isinstance(e.ops[0], (ast.Gt, ast.NotEq)):
                    return a
                if isinstance(e.ops[0], ast.Eq):
                    return ast.UnaryOp(op=ast.Not(), operand=a)
        return e


def nnf_text(e: ast.expr, neg: bool = False) -> str:
    e2 = _Truthy().boolctx(copy.deepcopy(e))
    return ast.unparse(ast.fix_missing_locations(copy.deepcopy(nnf(e2, neg))))


def if_tests(fn: ast.AST) -> list[str]:
    return sorted({nnf_text(n.test) for n in ast.walk(fn) if isinstance(n, ast.If)})


def if_orelse_tests(fn: ast.AST) -> list[str]:
    """canonical texts of the tests of if statements that have an else / elif part"""
    return sorted({nnf_text(n.test) for n in ast.walk(fn) if isinstance(n, ast.If) and n.orelse})


def if_tests_raw(fn: ast.AST) -> dict[str, str]:
    """canonical text -> the test as written (used to put a test back exactly as the reference wrote it)"""
    out = {}
    for n in ast.walk(fn):
        if isinstance(n, ast.If):
            out.setdefault(nnf_text(n.test), ast.unparse(n.test))
    return out


# ------------------------------------------------------------------------------------------------ qualified names
def all_functions(tree: ast.Module) -> dict[str, ast.AST]:
    out = {}

    def rec(body, prefix):
        for s in body:
            if isinstance(s, _FUNCS):
                out.setdefault(prefix + s.name, s)
                rec(s.body, prefix + s.name + ".")
            elif isinstance(s, ast.ClassDef):
                rec(s.body, prefix + s.name + ".")
            else:
                for fld in ("body", "orelse", "finalbody"):
                    sub = getattr(s, fld, None)
                    if isinstance(sub, list) and sub and isinstance(sub[0], ast.stmt):
                        rec(sub, prefix)
                if isinstance(s, ast.Try):
                    for h in s.handlers:
                        rec(h.body, prefix)
    rec(tree.body, "")
    return out


def module_level_names(tree: ast.Module) -> set[str]:
    names = set()
    for s in tree.body:
        if isinstance(s, (ast.Assign, ast.AnnAssign, ast.AugAssign)):
            for t in (s.targets if isinstance(s, ast.Assign) else [s.target]):
                for n in ast.walk(t):
                    if isinstance(n, ast.Name):
                        names.add(n.id)
        elif isinstance(s, _FUNCS + (ast.ClassDef,)):
            names.add(s.name)
        elif isinstance(s, (ast.Import, ast.ImportFrom)):
            for a in s.names:
                names.add((a.asname or a.name).split(".")[0])
    return names


# ------------------------------------------------------------------------------------------------ A. constants
def _literal(e) -> bool:
    if isinstance(e, ast.Constant):
        return True
    if isinstance(e, ast.UnaryOp) and isinstance(e.op, (ast.USub, ast.UAdd)):
        return _literal(e.operand)
    if isinstance(e, ast.BinOp):
        return _literal(e.left) and _literal(e.right)
    if isinstance(e, (ast.Tuple, ast.List, ast.Set)):
        return all(_literal(x) for x in e.elts) and isinstance(e, ast.Tuple)
    return False


def substitute_new_constants(tree: ast.Module, known_names: set[str]) -> int:
    consts = {}
    for s in tree.body:
        if isinstance(s, ast.Assign) and len(s.targets) == 1 and isinstance(s.targets[0], ast.Name) and s.targets[0].id not in known_names and _literal(s.value):
            consts[s.targets[0].id] = s.value
        elif isinstance(s, ast.AnnAssign) and isinstance(s.target, ast.Name) and s.value is not None and s.target.id not in known_names and _literal(s.value):
            consts[s.target.id] = s.value
    if not consts:
        return 0
    # never substitute a name that is rebound anywhere
    rebound = {n.id for n in ast.walk(tree) if isinstance(n, ast.Name) and isinstance(n.ctx, (ast.Store, ast.Del)) and n.id in consts}
    counts = {k: 0 for k in consts}
    for n in ast.walk(tree):
        if isinstance(n, ast.Name) and isinstance(n.ctx, ast.Store) and n.id in counts:
            counts[n.id] += 1
    ok = {k for k in consts if counts[k] == 1}

    class Sub(ast.NodeTransformer):
        n = 0

        def visit_Name(self, node):
            if isinstance(node.ctx, ast.Load) and node.id in ok:
                Sub.n += 1
                return ast.copy_location(copy.deepcopy(consts[node.id]), node)
            return node
    for fn in all_functions(tree).values():
        shadow = {a.arg for a in ast.walk(fn) if isinstance(a, ast.arg)} | {n.id for n in ast.walk(fn) if isinstance(n, ast.Name) and isinstance(n.ctx, ast.Store)}
        if shadow & ok:
            continue
        Sub().visit(fn)
    return Sub.n


# ------------------------------------------------------------------------------------------------ C. guard clauses
def _is_bare(stmt, kind) -> bool:
    if kind == "return":
        return isinstance(stmt, ast.Return) and (stmt.value is None or (isinstance(stmt.value, ast.Constant) and stmt.value.value is None))
    return isinstance(stmt, ast.Continue)


def _terminal(block) -> bool:
    return bool(block) and isinstance(block[-1], (ast.Return, ast.Continue, ast.Break, ast.Raise))


class _Guards:
    """rewrites one function; `known` = NNF texts of the if-tests the reference knows for it"""

    def __init__(self, known, raw=None, known_ifelse=()):
        self.known = set(known)
        self.raw = raw or {}
        self.known_ifelse = set(known_ifelse)
        self.n = 0
        self.cleanups = 0  # trailing `continue` / `return` removed: done on every tree, the reference included

    def neg(self, test):
        """the negated test, written the way the reference wrote it when it knows it"""
        t = nnf_text(test, True)
        if t in self.raw:
            return ast.parse(self.raw[t], mode="eval").body
        return nnf(test, True)

    def run(self, fn):
        self.have = set(if_tests(fn))
        self._block(fn.body, "return")
        self._drop_trailing_return(fn.body)
        for n in ast.walk(fn):
            if isinstance(n, (ast.For, ast.AsyncFor, ast.While)):
                self._drop_trailing(n.body, "continue")
        if self.n or self.cleanups:
            ast.fix_missing_locations(fn)

    def _drop_trailing_return(self, block):
        """a bare `return` in tail position of a function body does nothing"""
        if not block:
            return
        last = block[-1]
        if _is_bare(last, "return") and len(block) > 1:
            block.pop()
            self._drop_trailing_return(block)
        elif isinstance(last, ast.If):
            self._drop_trailing_return(last.body)
            self._drop_trailing_return(last.orelse)

    def _drop_trailing(self, block, kind):
        if not block:
            return
        last = block[-1]
        if _is_bare(last, kind) and len(block) > 1:
            block.pop()
            self.cleanups += 1
            self._drop_trailing(block, kind)
        elif _is_bare(last, kind) and len(block) == 1:
            block[0] = ast.copy_location(ast.Pass(), last)  # `else: continue` in tail position does nothing
            self.cleanups += 1
        elif isinstance(last, ast.If):
            self._drop_trailing(last.body, kind)
            self._drop_trailing(last.orelse, kind)
        elif isinstance(last, ast.Try):
            # leaving the try (through its finally, if any) in tail position of the loop body is `continue`
            self._drop_trailing(last.body, kind)
            for h in last.handlers:
                self._drop_trailing(h.body, kind)
            self._drop_trailing(last.orelse, kind)
            if last.orelse == []:
                pass
        elif isinstance(last, (ast.With, ast.AsyncWith)):
            self._drop_trailing(last.body, kind)

    def _wanted(self, test, negated: bool) -> bool:
        """the (possibly negated) test is a shape the reference knows and the function does not contain yet, while the current
        orientation is unknown to the reference"""
        cur, other = nnf_text(test, False), nnf_text(test, True)
        if negated:
            return cur not in self.known and other in self.known
        return False

    def _block(self, block, kind, _again=True):
        n_before = self.n
        self._block_once(block, kind)
        if self.n != n_before and _again:
            # a rewrite moved statements into new blocks: give those a turn too
            self._block(block, kind, _again=False)

    def _block_once(self, block, kind, _depth=0):
        # recurse first
        for s in block:
            if isinstance(s, _FUNCS):
                self._block(s.body, "return")
                continue
            if isinstance(s, ast.ClassDef):
                continue
            if isinstance(s, (ast.For, ast.AsyncFor, ast.While)):
                self._block(s.body, "continue")
                self._block(s.orelse, kind)
            elif isinstance(s, ast.If):
                # an if in tail position of the block: leaving its branches is leaving the block
                tail_kind = kind if (s is block[-1] and not (kind == "return" and False)) else None
                self._block(s.body, tail_kind)
                self._block(s.orelse, tail_kind)
            elif isinstance(s, (ast.With, ast.AsyncWith)):
                # leaving the body of a `with` that is the last statement of the block is leaving the block (through __exit__ either way)
                self._block(s.body, kind if s is block[-1] else None)
            elif isinstance(s, ast.Try):
                # a try in tail position: falling off a handler (or the else part, or the body when there is no else part) leaves the
                # block, through the finally either way - the same as `continue` / a bare `return` there
                tk = kind if (s is block[-1] and kind in ("continue", "return")) else None
                self._block(s.body, tk if not s.orelse else None)
                for h in s.handlers:
                    self._block(h.body, tk)
                self._block(s.orelse, tk)
                self._block(s.finalbody, None)
        changed = True
        while changed:
            changed = False
            # value-returning functions: the common final `return E`
            tail = block[-1] if block and isinstance(block[-1], ast.Return) and block[-1].value is not None and kind == "return" else None
            for i, s in enumerate(block):
                if not isinstance(s, ast.If) or s.orelse:
                    continue
                rest = block[i + 1:]
                # G1: guard + rest  ->  if not T: rest
                if kind is not None and len(s.body) == 1 and rest:
                    g = s.body[0]
                    bare = _is_bare(g, kind)
                    same_tail = tail is not None and isinstance(g, ast.Return) and g.value is not None and ast.unparse(g.value) == ast.unparse(tail.value) and rest[-1] is tail
                    if (bare and not (kind == "return" and tail is not None)) or same_tail:
                        if self._wanted(s.test, True):
                            inner = rest[:-1] if same_tail else rest
                            if inner:
                                new = ast.copy_location(ast.If(test=self.neg(s.test), body=inner, orelse=[]), s)
                                block[i:] = [new] + ([tail] if same_tail else [])
                                self.n += 1
                                changed = True
                                break
                # G4: `if T: body; continue|return` + rest  ->  `if T: body else: rest`  when the reference has this test as an if/else
                if kind is not None and len(s.body) >= 2 and _is_bare(s.body[-1], kind) and rest and nnf_text(s.test) in self.known_ifelse \
                        and not (kind == "return" and tail is not None):
                    new = ast.copy_location(ast.If(test=s.test, body=s.body[:-1], orelse=rest), s)
                    block[i:] = [new]
                    self.n += 1
                    changed = True
                    break
                # G4': the same with the negated test: `if not T: body; return` + rest  ->  `if T: rest else: body`
                if kind is not None and len(s.body) >= 2 and _is_bare(s.body[-1], kind) and rest and nnf_text(s.test, True) in self.known_ifelse \
                        and nnf_text(s.test) not in self.known and not (kind == "return" and tail is not None):
                    new = ast.copy_location(ast.If(test=self.neg(s.test), body=rest, orelse=s.body[:-1]), s)
                    block[i:] = [new]
                    self.n += 1
                    changed = True
                    break
                # G3: `if T: <block that always leaves>` + rest  ->  `if not T: rest else: <block>`  (any terminal block: raise, return x, ...)
                if s.body and _terminal(s.body) and rest and self._wanted(s.test, True):
                    new = ast.copy_location(ast.If(test=self.neg(s.test), body=rest, orelse=s.body), s)
                    block[i:] = [new]
                    self.n += 1
                    changed = True
                    break
                # G2: last statement `if T: R` (R not terminal)  ->  if not T: return/continue ; R
                is_last = (i == len(block) - 1) or (tail is not None and i == len(block) - 2)
                if kind is not None and is_last and s.body and not _terminal(s.body) and self._wanted(s.test, True):
                    if kind == "continue" or tail is None:
                        term = ast.Continue() if kind == "continue" else ast.Return(value=None)
                    else:
                        term = ast.Return(value=copy.deepcopy(tail.value))
                    guard = ast.copy_location(ast.If(test=self.neg(s.test), body=[ast.copy_location(term, s)], orelse=[]), s)
                    block[i:i + 1] = [guard] + s.body
                    self.n += 1
                    changed = True
                    break
        # G6: `if T: <block that always leaves>` + rest  ->  `if T: <block> else: rest` when the reference has T as the head of an if/else
        changed = True
        while changed:
            changed = False
            for i, s in enumerate(block):
                if isinstance(s, ast.If) and not s.orelse and _terminal(s.body) and block[i + 1:] and nnf_text(s.test) in self.known_ifelse \
                        and not any(isinstance(x, ast.NamedExpr) for x in ast.walk(s.test)):
                    rest = block[i + 1:]
                    # (what follows the chain in the reference - a final `return x` - stays outside when the rest ends with a plain if-chain)
                    tail_keep = []
                    if kind == "return" and isinstance(rest[-1], ast.Return) and len(rest) > 1 and all(isinstance(x, ast.If) for x in rest[:-1]):
                        tail_keep, rest = [rest[-1]], rest[:-1]
                    s.orelse = rest
                    block[i + 1:] = tail_keep
                    self.n += 1
                    changed = True
                    self._block(s.orelse, kind if not tail_keep else None)
                    break
        # G7: `if T: <block that always leaves> else: REST` -> `if T: <block>` + REST when the reference knows T as a plain `if`
        # (the inverse of G6; valid anywhere because the first block never falls through)
        changed = True
        while changed:
            changed = False
            for i, s in enumerate(block):
                if isinstance(s, ast.If) and s.orelse and _terminal(s.body) and nnf_text(s.test) in self.known \
                        and nnf_text(s.test) not in self.known_ifelse and nnf_text(s.test, True) not in self.known_ifelse \
                        and not any(isinstance(x, ast.NamedExpr) for x in ast.walk(s.test)):
                    rest = s.orelse
                    s.orelse = []
                    block[i + 1:i + 1] = rest
                    self.n += 1
                    changed = True
                    break
        # G5: an if/else in tail position whose test the reference knows only as a plain `if` (a guard clause there):
        #     `if T: A else: B`  ->  `if T: A; return|continue` + B   (or with the negated test, whichever the reference has)
        if kind is not None and block and isinstance(block[-1], ast.If) and block[-1].orelse and not (kind == "return" and False):
            s = block[-1]
            t_pos, t_neg = nnf_text(s.test), nnf_text(s.test, True)
            if t_pos not in self.known_ifelse and t_neg not in self.known_ifelse \
                    and not any(isinstance(x, ast.NamedExpr) for x in ast.walk(s.test)):
                term = ast.Continue() if kind == "continue" else ast.Return(value=None)
                if t_pos in self.known:
                    first, rest, test = s.body, s.orelse, s.test
                elif t_neg in self.known:
                    first, rest, test = s.orelse, s.body, self.neg(s.test)
                else:
                    first = None
                if first is not None:
                    guard_body = list(first) + ([] if _terminal(first) else [ast.copy_location(term, s)])
                    block[-1:] = [ast.copy_location(ast.If(test=test, body=guard_body, orelse=[]), s)] + list(rest)
                    self.n += 1
                    if _depth < 12:
                        self._block_once(block, kind, _depth + 1)  # the rest (an elif chain) is the new tail
                        return
        self._merge_split(block)

    def _merge_split(self, block):
        for i, s in enumerate(block):
            if not isinstance(s, ast.If) or s.orelse:
                continue
            # a whole chain `if a: if b: if c: X` -> `if a and b and c: X` when the reference knows that conjunction
            chain, cur = [s.test], s
            while len(cur.body) == 1 and isinstance(cur.body[0], ast.If) and not cur.body[0].orelse:
                cur = cur.body[0]
                chain.append(cur.test)
            if len(chain) > 2:
                conj = _FlattenBoolOps().visit(ast.BoolOp(op=ast.And(), values=[copy.deepcopy(t) for t in chain]))
                if nnf_text(conj) in self.known and nnf_text(s.test) not in self.known:
                    raw = self.raw.get(nnf_text(conj))
                    block[i] = ast.copy_location(ast.If(test=ast.parse(raw, mode="eval").body if raw else conj, body=cur.body, orelse=[]), s)
                    self.n += 1
                    continue
            # nested `if a: if b: X` -> `if a and b: X` when the reference knows the conjunction
            if len(s.body) == 1 and isinstance(s.body[0], ast.If) and not s.body[0].orelse:
                conj = ast.BoolOp(op=ast.And(), values=[s.test, s.body[0].test])
                if nnf_text(conj) in self.known and nnf_text(s.test) not in self.known:
                    block[i] = ast.copy_location(ast.If(test=conj, body=s.body[0].body, orelse=[]), s)
                    self.n += 1
                    continue
            # `if a and b: X` -> nested when the reference knows a and b separately
            if isinstance(s.test, ast.BoolOp) and isinstance(s.test.op, ast.And) and len(s.test.values) == 2 and nnf_text(s.test) not in self.known:
                a, b = s.test.values
                if nnf_text(a) in self.known and nnf_text(b) in self.known:
                    inner = ast.copy_location(ast.If(test=b, body=s.body, orelse=[]), s)
                    block[i] = ast.copy_location(ast.If(test=a, body=[inner], orelse=[]), s)
                    self.n += 1


# ------------------------------------------------------------------------------------------------ B. inlining
def _pure_arg(e) -> bool:
    if isinstance(e, (ast.Name, ast.Constant)):
        return True
    if isinstance(e, ast.Attribute):
        return _pure_arg(e.value)
    if isinstance(e, ast.Subscript):
        return _pure_arg(e.value) and _pure_arg(e.slice)
    return False


def _helper_is_pure(fn) -> bool:
    """the helper only computes: no call (other than a few total builtins), await, yield, attribute / item store or delete -
    so an attribute or item passed as an argument has the same value wherever the helper reads its parameter"""
    for n in _walk_no_defs(fn):
        if n is fn:
            continue
        if isinstance(n, (ast.Await, ast.Yield, ast.YieldFrom, ast.Delete, ast.Global, ast.Nonlocal, ast.With, ast.AsyncWith, ast.NamedExpr)):
            return False
        if isinstance(n, ast.Call) and not (isinstance(n.func, ast.Name) and n.func.id in _STABLE_BUILTINS and not n.keywords):
            return False
        if isinstance(n, (ast.Attribute, ast.Subscript)) and isinstance(n.ctx, (ast.Store, ast.Del)):
            return False
    return not any(isinstance(c, _FUNCS + (ast.ClassDef, ast.Lambda)) for c in ast.walk(fn) if c is not fn)


def _tail_returns_only(body) -> bool:
    """`return` occurs only in tail position of the body (after else-ification of guards)"""
    def ok(block, tail):
        for i, s in enumerate(block):
            last = tail and i == len(block) - 1
            if isinstance(s, ast.Return):
                if not last:
                    return False
            elif isinstance(s, ast.If):
                if not ok(s.body, last) or not ok(s.orelse, last):
                    return False
            elif isinstance(s, _FUNCS + (ast.ClassDef,)):
                continue
            else:
                if any(isinstance(n, ast.Return) for n in _walk_no_defs(s)):
                    return False
        return True
    return ok(body, True)


def _walk_no_defs(node):
    yield node
    for c in ast.iter_child_nodes(node):
        if isinstance(c, _FUNCS + (ast.ClassDef, ast.Lambda)):
            continue
        yield from _walk_no_defs(c)


def _elseify(block):
    """`if T: ...return` + rest  ->  `if T: ... else: rest` (so that returns are in tail position)"""
    out = list(block)
    for i, s in enumerate(out):
        if isinstance(s, ast.If):
            s.body = _elseify(s.body)
            s.orelse = _elseify(s.orelse)
            if not s.orelse and s.body and isinstance(s.body[-1], ast.Return) and out[i + 1:]:
                s.orelse = _elseify(out[i + 1:])
                return out[:i + 1]
    return out


def _replace_tail_returns(block, make):
    """replace every tail `return E` by make(E) (a list of statements); add make(None) on fall-through paths"""
    if not block:
        return make(None)
    last = block[-1]
    if isinstance(last, ast.Return):
        return block[:-1] + make(last.value)
    if isinstance(last, ast.If):
        last.body = _replace_tail_returns(last.body, make) or [ast.copy_location(ast.Pass(), last)]
        last.orelse = _replace_tail_returns(last.orelse, make)
        if all(isinstance(x, ast.Pass) for x in last.body) and last.orelse:
            # `if c: <nothing> else: rest`  is  `if not c: rest`
            last.test, last.body, last.orelse = nnf(last.test, True), last.orelse, []
        return block
    if isinstance(last, ast.Raise):
        return block
    return block + make(None)


class _Renamer(ast.NodeTransformer):
    def __init__(self, mapping):
        self.mapping = mapping

    def visit_Name(self, node):
        if node.id in self.mapping:
            m = self.mapping[node.id]
            if isinstance(m, str):
                return ast.copy_location(ast.Name(id=m, ctx=node.ctx), node)
            if isinstance(node.ctx, ast.Load):
                return ast.copy_location(copy.deepcopy(m), node)
        return node


def _callee_key(call: ast.Call, cls_prefix: str, scope_prefix: str):
    f = call.func
    if isinstance(f, ast.Name):
        # a nested helper of this function, of any enclosing function (a sibling nested def), or a module-level one
        out, parts = [], scope_prefix.rstrip(".").split(".") if scope_prefix else []
        while parts:
            out.append(".".join(parts) + "." + f.id)
            parts.pop()
        return out + [f.id]
    if isinstance(f, ast.Attribute) and isinstance(f.value, ast.Name) and f.value.id in ("self", "cls") and cls_prefix:
        return [cls_prefix + f.attr]
    return []


def _const_truth(e):
    """truth value of a test made of constants only (`None is not None`, `'abort' is not None`, `not False`, a bare constant)"""
    if isinstance(e, ast.Constant):
        return bool(e.value)
    if isinstance(e, ast.UnaryOp) and isinstance(e.op, ast.Not):
        v = _const_truth(e.operand)
        return None if v is None else not v
    if isinstance(e, ast.Compare) and len(e.ops) == 1 and isinstance(e.left, ast.Constant) and isinstance(e.comparators[0], ast.Constant):
        a, b, op = e.left.value, e.comparators[0].value, e.ops[0]
        if isinstance(op, (ast.Is, ast.IsNot)) and (a is None or b is None or isinstance(a, bool) or isinstance(b, bool)):
            same = (a is b) if (a is None or b is None or (isinstance(a, bool) and isinstance(b, bool))) else False
            return same if isinstance(op, ast.Is) else not same
        if isinstance(op, (ast.Eq, ast.NotEq)) and type(a) is type(b) and isinstance(a, (str, int, bool, type(None))):
            return (a == b) if isinstance(op, ast.Eq) else (a != b)
    return None


class _FoldConstantTests(ast.NodeTransformer):
    """after a literal argument was substituted for a parameter: `if None is not None: A else: B` is B"""

    def visit_If(self, node):
        self.generic_visit(node)
        v = _const_truth(node.test)
        if v is None:
            return node
        taken = node.body if v else node.orelse
        return taken if taken else ast.copy_location(ast.Pass(), node)

    def visit_IfExp(self, node):
        self.generic_visit(node)
        v = _const_truth(node.test)
        if v is None:
            return node
        return node.body if v else node.orelse


def _relocate(stmts, base, before=False):
    """Inlined statements keep the line of the call they replace, plus a fraction that preserves their order (rules compare
    line numbers for "earlier / later"; reports show int(line)).  ``before``: the statements go in front of the call's line."""
    flat = []

    def rec(block):
        for st in block:
            flat.append(st)
            for fld in ("body", "orelse", "finalbody"):
                sub = getattr(st, fld, None)
                if isinstance(sub, list) and sub and isinstance(sub[0], ast.stmt):
                    rec(sub)
            for h in getattr(st, "handlers", []) or []:
                flat.append(h)
                rec(h.body)
    rec(stmts)
    eps = 2.0 ** -10 if float(base).is_integer() else 2.0 ** -20
    n = len(flat)
    own = {}
    for k, st in enumerate(flat):
        own[id(st)] = (base - (n - k) * eps) if before else (base + (k + 1) * eps)
    def paint(node, line):
        for c in ast.iter_child_nodes(node):
            if id(c) in own:
                continue
            if hasattr(c, "lineno") or isinstance(c, (ast.expr, ast.stmt)):
                c.lineno = line
                c.end_lineno = line
            paint(c, line)
    for st in flat:
        st.lineno = own[id(st)]
        st.end_lineno = own[id(st)]
        paint(st, own[id(st)])
    # compound statements end where their last inner statement ends
    for st in reversed(flat):
        inner = [x.end_lineno for x in ast.walk(st) if x is not st and hasattr(x, "end_lineno") and x.end_lineno is not None]
        if inner:
            st.end_lineno = max([st.end_lineno] + inner)
    return stmts


class _FlattenBoolOps(ast.NodeTransformer):
    """`a and (b and c)` is `a and b and c` (same operands evaluated in the same order, same result)"""

    def visit_BoolOp(self, node):
        self.generic_visit(node)
        vals = []
        for v in node.values:
            if isinstance(v, ast.BoolOp) and type(v.op) is type(node.op):
                vals.extend(v.values)
            else:
                vals.append(v)
        node.values = vals
        return node


def _predicate_expression(body):
    """[`if c: return <True|False>`]+ `return e`  ->  an expression with the same truth value, or None"""
    if len(body) < 2 or not isinstance(body[-1], ast.Return) or body[-1].value is None:
        return None
    # a search loop: `for t in it: if c: return True` + `return False` is any(c for t in it) (and the dual is all(...))
    if len(body) == 2 and isinstance(body[0], ast.For) and not body[0].orelse and len(body[0].body) == 1 and isinstance(body[0].body[0], ast.If) \
            and not body[0].body[0].orelse and len(body[0].body[0].body) == 1 and isinstance(body[0].body[0].body[0], ast.Return) \
            and isinstance(body[0].body[0].body[0].value, ast.Constant) and isinstance(body[0].body[0].body[0].value.value, bool) \
            and isinstance(body[1].value, ast.Constant) and isinstance(body[1].value.value, bool) \
            and body[0].body[0].body[0].value.value is not body[1].value.value \
            and not any(isinstance(x, (ast.NamedExpr, ast.Await, ast.Yield, ast.YieldFrom)) for x in ast.walk(body[0])):
        lp, found = body[0], body[0].body[0].body[0].value.value
        cond = copy.deepcopy(lp.body[0].test)
        gen = ast.comprehension(target=copy.deepcopy(lp.target), iter=copy.deepcopy(lp.iter), ifs=[], is_async=0)
        if found:
            e = ast.Call(func=ast.Name(id="any", ctx=ast.Load()), args=[ast.GeneratorExp(elt=cond, generators=[gen])], keywords=[])
        else:
            e = ast.Call(func=ast.Name(id="all", ctx=ast.Load()), args=[ast.GeneratorExp(elt=nnf(cond, True), generators=[gen])], keywords=[])
        return ast.fix_missing_locations(e)
    guards = body[:-1]
    for g in guards:
        if not (isinstance(g, ast.If) and not g.orelse and len(g.body) == 1 and isinstance(g.body[0], ast.Return)
                and isinstance(g.body[0].value, ast.Constant) and isinstance(g.body[0].value.value, bool)
                and not any(isinstance(x, (ast.NamedExpr, ast.Await, ast.Yield, ast.YieldFrom)) for x in ast.walk(g.test))):
            return None
    e = copy.deepcopy(body[-1].value)
    for g in reversed(guards):
        if g.body[0].value.value is False:
            e = ast.BoolOp(op=ast.And(), values=[nnf(copy.deepcopy(g.test), True), e])
        else:
            e = ast.BoolOp(op=ast.Or(), values=[copy.deepcopy(g.test), e])
    return ast.fix_missing_locations(_FlattenBoolOps().visit(e))


class Inliner:
    def __init__(self, tree: ast.Module, known_functions: set[str]):
        self.tree = tree
        self.known = known_functions
        self.n = 0
        self.uid = 0
        self.truth_only = set()

    def helpers(self):
        out = {}
        funcs = all_functions(self.tree)
        for q, fn in funcs.items():
            if q in self.known:
                continue
            # do not treat functions nested inside NEW functions separately
            if any(q.startswith(p + ".") and p not in self.known and p in funcs for p in funcs):
                parent_new = any(q.startswith(p + ".") and p not in self.known for p in funcs if p != q)
                if parent_new:
                    continue
            decos = [ast.unparse(d) for d in fn.decorator_list]
            if any(d not in ("staticmethod",) for d in decos):
                continue
            a = fn.args
            if a.vararg or a.posonlyargs:
                continue
            if any(isinstance(n, ast.Call) and isinstance(n.func, (ast.Name, ast.Attribute)) and (getattr(n.func, "id", None) == fn.name or getattr(n.func, "attr", None) == fn.name)
                   for n in ast.walk(fn)):
                continue  # recursive
            if any(isinstance(n, (ast.Global, ast.Nonlocal)) for n in ast.walk(fn)):
                continue
            body = [s for s in fn.body if not (isinstance(s, ast.Expr) and isinstance(s.value, ast.Constant))]
            # a predicate written as guard clauses - `if c1: return False` ... `return e` - is the expression `not c1 and ... and e`
            # (`if c: return True` gives `c or ...`) as far as its truth value goes; such a helper is inlined in test positions only
            pred = _predicate_expression(body)
            if pred is not None:
                out[q] = (fn, [ast.Return(value=pred)], "staticmethod" in decos)
                self.truth_only.add(q)
                continue
            body = _elseify(copy.deepcopy(body))
            if not _tail_returns_only(body):
                continue
            out[q] = (fn, body, "staticmethod" in decos)
        return out

    def run(self) -> int:
        self._all_funcs = set(all_functions(self.tree))
        for _ in range(3):
            hs = self.helpers()
            if not hs:
                break
            before = self.n
            used_elsewhere = {q: 0 for q in hs}
            self._visit_scope(self.tree.body, "", "", hs, used_elsewhere)
            # drop helpers that are no longer referenced
            for q, (fn, _b, _s) in hs.items():
                name = fn.name
                refs = sum(1 for n in ast.walk(self.tree) if (isinstance(n, ast.Name) and n.id == name and isinstance(n.ctx, ast.Load))
                           or (isinstance(n, ast.Attribute) and n.attr == name))
                if refs == 0:
                    self._drop(fn)
            if self.n == before:
                break
        if self.n:
            _FoldConstantTests().visit(self.tree)
            _FlattenBoolOps().visit(self.tree)
            ast.fix_missing_locations(self.tree)
        return self.n

    def _drop(self, fn):
        for parent in ast.walk(self.tree):
            for fld in ("body", "orelse", "finalbody"):
                lst = getattr(parent, fld, None)
                if isinstance(lst, list) and fn in lst:
                    lst.remove(fn)
                    if not lst:
                        lst.append(ast.Pass())
                    return

    def _visit_scope(self, body, cls_prefix, scope_prefix, hs, used):
        for s in body:
            if isinstance(s, ast.ClassDef):
                self._visit_scope(s.body, cls_prefix + s.name + "." if not scope_prefix else cls_prefix, scope_prefix + s.name + ".", hs, used)
            elif isinstance(s, _FUNCS):
                q = scope_prefix + s.name
                if q in hs:
                    continue
                cp = scope_prefix if (scope_prefix and scope_prefix[:-1] in self._classes()) else cls_prefix
                self._inline_in_function(s, cp, q + ".", hs)
                self._visit_scope(s.body, cp, q + ".", hs, used)

    def _bases(self):
        if not hasattr(self, "_bases_cache"):
            self._bases_cache = {}

            def rec(body, prefix):
                for st in body:
                    if isinstance(st, ast.ClassDef):
                        self._bases_cache[prefix + st.name] = [b.id for b in st.bases if isinstance(b, ast.Name)]
                        rec(st.body, prefix + st.name + ".")
            rec(self.tree.body, "")
        return self._bases_cache

    def _classes(self):
        out = set()

        def rec(body, prefix):
            for s in body:
                if isinstance(s, ast.ClassDef):
                    out.add(prefix + s.name)
                    rec(s.body, prefix + s.name + ".")
        rec(self.tree.body, "")
        return out

    # -- per function
    def _lookup(self, call, cls_prefix, scope_prefix, hs):
        # nested helper defined in this function, module-level helper, or method of the same class
        if isinstance(call.func, ast.Name) and call.func.id in getattr(self, "_shadowed", ()):
            return None  # the caller binds that name itself (parameter, assignment, loop target ...): not the helper
        for k in _callee_key(call, cls_prefix, scope_prefix):
            if k in hs:
                return k
        # a new helper defined in a base class of the caller's class (same module, looked up in base order)
        f = call.func
        if isinstance(f, ast.Attribute) and isinstance(f.value, ast.Name) and f.value.id == "self" and cls_prefix:
            seen, work = set(), [cls_prefix[:-1]]
            while work:
                c = work.pop(0)
                if c in seen:
                    continue
                seen.add(c)
                if c != cls_prefix[:-1] and (c + "." + f.attr) in hs:
                    return c + "." + f.attr
                if c != cls_prefix[:-1] and (c + "." + f.attr) in self._all_funcs:
                    return None  # a known (reference) method of that name comes first
                work.extend(self._bases().get(c, []))
        return None

    def _bind(self, fn, is_static, call, caller_names):
        """-> (prelude statements, renaming map) or None"""
        params = [a.arg for a in fn.args.args]
        if params and params[0] in ("self", "cls") and not is_static and isinstance(call.func, ast.Attribute):
            params = params[1:]
            selfmap = {fn.args.args[0].arg: ast.Name(id=call.func.value.id, ctx=ast.Load())}
        else:
            selfmap = {}
        defaults = fn.args.defaults
        kwonly = [a.arg for a in fn.args.kwonlyargs]
        kwdefaults = {a.arg: d for a, d in zip(fn.args.kwonlyargs, fn.args.kw_defaults) if d is not None}
        # a default is evaluated when the helper is defined, not when it is called: only literal defaults can be copied to the call
        if any(not _literal(d) for d in list(defaults) + list(kwdefaults.values())):
            return None
        dmap = dict(zip(params[len(params) - len(defaults):], defaults)) if defaults else {}
        dmap.update(kwdefaults)
        given = {}
        order = []
        if len(call.args) > len(params) or any(isinstance(a, ast.Starred) for a in call.args):
            return None
        for p, a in zip(params, call.args):
            given[p] = a
            order.append(p)
        params = params + kwonly
        extra = []  # keywords collected by the helper's **kwargs, in call order
        for k in call.keywords:
            if k.arg is None or k.arg in given:
                return None
            if k.arg not in params:
                if fn.args.kwarg is None:
                    return None
                extra.append(k)
                continue
            given[k.arg] = k.value
            order.append(k.arg)
        if fn.args.kwarg is not None:
            kwname = fn.args.kwarg.arg
            params = params + [kwname]
            given[kwname] = ast.Dict(keys=[ast.Constant(k.arg) for k in extra], values=[k.value for k in extra])
            order.append(kwname)
        for p in params:
            if p not in given:
                if p in dmap:
                    given[p] = dmap[p]
                    order.append(p)
                else:
                    return None
        # parameters assigned inside the helper need a real local
        stored = {n.id for n in ast.walk(fn) if isinstance(n, ast.Name) and isinstance(n.ctx, (ast.Store, ast.Del))}
        helper_pure = _helper_is_pure(fn)
        mapping = dict(selfmap)
        prelude = []
        for p in order:  # in the order the call evaluates its arguments
            a = given[p]
            by_name = isinstance(a, (ast.Name, ast.Constant)) or (helper_pure and _pure_arg(a))
            if by_name and p not in stored:
                mapping[p] = a
            else:
                self.uid += 1
                tmp = p if (p not in caller_names) else f"{p}_inl{self.uid}"
                prelude.append(ast.Assign(targets=[ast.Name(id=tmp, ctx=ast.Store())], value=a, lineno=call.lineno))
                mapping[p] = tmp
        arg_names = {n.id for m in mapping.values() if isinstance(m, ast.AST) for n in ast.walk(m) if isinstance(n, ast.Name)}
        # the helper's locals keep their names unless that could disturb the caller: a caller's variable of the same name may be
        # overwritten only if the caller never reads it again after the call (and the call is not inside a loop that reads it)
        locals_ = {n.id for n in ast.walk(fn) if isinstance(n, ast.Name) and isinstance(n.ctx, ast.Store)} - set(params)
        for v in locals_:
            # (a local of the helper must never capture a name that an argument expression mentions)
            if v in arg_names or (v in caller_names and not self._dead_after(v, call)):
                self.uid += 1
                mapping[v] = f"{v}_inl{self.uid}"
        return prelude, mapping

    def _dead_after(self, name, call) -> bool:
        caller = self._caller
        if any(a.arg == name for a in ast.walk(caller) if isinstance(a, ast.arg)):
            return False
        line = call.lineno
        parents = {}
        for p in ast.walk(caller):
            for c in ast.iter_child_nodes(p):
                parents[c] = p
        n = call
        loops = []
        while n in parents:
            n = parents[n]
            if isinstance(n, (ast.For, ast.AsyncFor, ast.While)):
                loops.append(n)
            if isinstance(n, _FUNCS) and n is not caller:
                return False  # call inside a nested function: closures could read the name any time
        for x in ast.walk(caller):
            if isinstance(x, ast.Name) and x.id == name and isinstance(x.ctx, ast.Load):
                if getattr(x, "lineno", 0) > line:
                    # a later read must be preceded by its own store: accept only loop targets / assignments that rebind first
                    later_stores = [y for y in ast.walk(caller) if isinstance(y, ast.Name) and y.id == name and isinstance(y.ctx, ast.Store) and line < getattr(y, "lineno", 0) <= x.lineno]
                    if not later_stores:
                        return False
                if any(x in set(ast.walk(lp)) for lp in loops) and getattr(x, "lineno", 0) <= line:
                    return False
        return True

    def _inline_in_function(self, caller, cls_prefix, scope_prefix, hs):
        self._caller = caller
        self._shadowed = {a.arg for a in ast.walk(caller) if isinstance(a, ast.arg)} | \
            {n.id for n in ast.walk(caller) if isinstance(n, ast.Name) and isinstance(n.ctx, (ast.Store, ast.Del))}
        caller_names = {n.id for n in ast.walk(caller) if isinstance(n, ast.Name)} | {a.arg for a in ast.walk(caller) if isinstance(a, ast.arg)}

        def expand(stmt):
            """-> list of statements replacing stmt, or None"""
            # forms: Expr(call) / Assign(x = call) / Return(call), with await / yield from wrappers
            def unwrap(v):
                kind = None
                if isinstance(v, ast.Await):
                    kind, v = "await", v.value
                elif isinstance(v, ast.YieldFrom):
                    kind, v = "yieldfrom", v.value
                return kind, v
            if isinstance(stmt, (ast.Expr, ast.Return)) or (isinstance(stmt, ast.Assign) and len(stmt.targets) == 1):
                val = stmt.value
                if val is None:
                    return None
                paren_kind, inner = unwrap(val)
                if isinstance(inner, ast.Call):
                    k = self._lookup(inner, cls_prefix, scope_prefix, hs)
                    if k is not None:
                        fn, body, is_static = hs[k]
                        is_async, is_gen = isinstance(fn, ast.AsyncFunctionDef), any(isinstance(n, (ast.Yield, ast.YieldFrom)) for n in _walk_no_defs(fn))
                        if (paren_kind == "await") != is_async or (paren_kind == "yieldfrom") != is_gen:
                            return None
                        b = self._bind(fn, is_static, inner, caller_names)
                        if b is None:
                            return None
                        prelude, mapping = b
                        new_body = [_Renamer(mapping).visit(copy.deepcopy(s)) for s in body]
                        if isinstance(stmt, ast.Expr):
                            make = lambda e: []  # noqa: E731
                        elif isinstance(stmt, ast.Assign):
                            tgt = stmt.targets[0]
                            def make(e, tgt=tgt):
                                a_ = ast.Assign(targets=[copy.deepcopy(tgt)], value=e if e is not None else ast.Constant(None), lineno=stmt.lineno)
                                a_._from_inlining = True  # `a, b = helper()` whose helper ends in `return x, y`: evaluated left to right either way
                                return [a_]
                        else:
                            make = lambda e: [ast.Return(value=e, lineno=stmt.lineno)]  # noqa: E731
                        new_body = _replace_tail_returns(new_body, make)
                        self.n += 1
                        return _relocate(prelude + new_body, stmt.lineno) or [ast.copy_location(ast.Pass(), stmt)]
            return None

        def single_expr_helpers(node, is_test=False):
            """calls to helpers whose body is one `return expr` are replaced inside expressions; multi-statement straight-line
            helpers used once in a simple statement are hoisted in front of it"""
            in_test = set()

            def mark(e, t):
                if t:
                    in_test.add(id(e))
                if isinstance(e, ast.BoolOp):
                    for v in e.values:
                        mark(v, t)
                elif isinstance(e, ast.UnaryOp) and isinstance(e.op, ast.Not):
                    mark(e.operand, True)
                elif isinstance(e, ast.IfExp):
                    mark(e.test, True)
                    mark(e.body, t)
                    mark(e.orelse, t)
                else:
                    for c in ast.iter_child_nodes(e):
                        if isinstance(c, ast.expr):
                            mark(c, False)
            mark(node, is_test)

            class T(ast.NodeTransformer):
                def __init__(s2):
                    s2.changed = 0

                def visit_FunctionDef(s2, n):
                    return n
                visit_AsyncFunctionDef = visit_FunctionDef
                visit_Lambda = visit_FunctionDef

                def visit_Call(s2, n):
                    s2.generic_visit(n)
                    k = self._lookup(n, cls_prefix, scope_prefix, hs)
                    if k is None:
                        return n
                    if k in self.truth_only and id(n) not in in_test:
                        return n
                    fn, body, is_static = hs[k]
                    if isinstance(fn, ast.AsyncFunctionDef) or any(isinstance(x, (ast.Yield, ast.YieldFrom)) for x in _walk_no_defs(fn)):
                        return n
                    if len(body) == 1 and isinstance(body[0], ast.Return) and body[0].value is not None:
                        b = self._bind(fn, is_static, n, caller_names)
                        if b is None or b[0]:
                            return n
                        s2.changed += 1
                        self.n += 1
                        rep = _Renamer(b[1]).visit(copy.deepcopy(body[0].value))
                        for x in ast.walk(rep):
                            if hasattr(x, "lineno") or isinstance(x, ast.expr):
                                x.lineno = x.end_lineno = n.lineno
                        return rep
                    return n
            t = T()
            return t.visit(node)

        def hoist(stmt):
            """stmt contains exactly one call to a straight-line helper (defs / assignments then `return expr`)"""
            if not isinstance(stmt, (ast.Expr, ast.Assign, ast.Return, ast.If)):
                return None
            scope = stmt.test if isinstance(stmt, ast.If) else stmt  # an `if` runs its test once, right where the statement stands
            calls = [n for n in _walk_no_defs(scope) if isinstance(n, ast.Call) and self._lookup(n, cls_prefix, scope_prefix, hs) is not None]
            if len(calls) != 1:
                return None
            call = calls[0]
            # the helper's statements are moved in front of the statement: nothing of the statement with an effect may be
            # evaluated before the call (and the call's own arguments must be effect-free)
            if not (_used_before_any_effect(stmt, call) or _in_header_before_effect(stmt, call)):
                return None
            fn, body, is_static = hs[self._lookup(call, cls_prefix, scope_prefix, hs)]
            if isinstance(fn, ast.AsyncFunctionDef) or any(isinstance(x, (ast.Yield, ast.YieldFrom)) for x in _walk_no_defs(fn)):
                return None
            if not body or not isinstance(body[-1], ast.Return) or body[-1].value is None:
                return None
            if any(isinstance(x, (ast.If, ast.For, ast.While, ast.Try, ast.With)) for x in body[:-1]):
                return None
            b = self._bind(fn, is_static, call, caller_names)
            if b is None:
                return None
            prelude, mapping = b
            pre = [_Renamer(mapping).visit(copy.deepcopy(s)) for s in body[:-1]]
            ret = _Renamer(mapping).visit(copy.deepcopy(body[-1].value))

            class R(ast.NodeTransformer):
                def visit_Call(s2, n):
                    if n is call:
                        return ast.copy_location(ret, n)
                    return s2.generic_visit(n)
            if isinstance(stmt, ast.If):
                stmt.test = R().visit(stmt.test)
                new_stmt = stmt
            else:
                new_stmt = R().visit(stmt)
            self.n += 1
            for x in ast.walk(ret):
                if hasattr(x, "lineno") or isinstance(x, ast.expr):
                    x.lineno = x.end_lineno = stmt.lineno
            return _relocate(prelude + pre, stmt.lineno, before=True) + [new_stmt]

        def walk_block(block):
            i = 0
            while i < len(block):
                s = block[i]
                if isinstance(s, _FUNCS + (ast.ClassDef,)):
                    i += 1
                    continue
                rep = expand(s)
                if rep is None and not isinstance(s, (ast.For, ast.AsyncFor, ast.While, ast.Try, ast.With, ast.AsyncWith)):
                    rep = hoist(s)
                if rep is not None:
                    block[i:i + 1] = rep
                    continue  # re-examine (helpers calling helpers)
                for fld in ("body", "orelse", "finalbody"):
                    sub = getattr(s, fld, None)
                    if isinstance(sub, list) and sub and isinstance(sub[0], ast.stmt):
                        walk_block(sub)
                if isinstance(s, ast.Try):
                    for h in s.handlers:
                        walk_block(h.body)
                # expression-position helpers in the statement's own expressions (tests, iterables, values)
                for fld in ("test", "iter", "value", "exc"):
                    e = getattr(s, fld, None)
                    if isinstance(e, ast.AST):
                        setattr(s, fld, single_expr_helpers(e, is_test=(fld == "test")))
                i += 1
        walk_block(caller.body)


# ------------------------------------------------------------------------------------------------ D. new temporaries
_STABLE_BUILTINS = ("id", "type", "isinstance")  # results depend only on the identity / class of the argument objects


# conversions / measures whose result is an immutable value determined by their (unchanged) arguments: evaluating them once or
# several times gives the same value
_VALUE_BUILTINS = ("int", "float", "str", "bool", "len", "abs", "min", "max", "repr", "round", "tuple", "frozenset")


# attribute names that are assigned (on any receiver) somewhere in the package outside an `__init__`: set by the loader before any
# module is normalised.  `x = self.attr` for an attribute NOT in this set is an alias of a reference that never changes after
# construction, so reading `self.attr` later gives the same object whatever was called in between.
REBOUND_ATTRS: set | None = None


def collect_rebound_attrs(trees) -> set:
    out = set()
    for tree in trees:
        def rec(node, in_init):
            for c in ast.iter_child_nodes(node):
                if isinstance(c, _FUNCS):
                    rec(c, in_init or c.name == "__init__")
                    continue
                if isinstance(c, ast.Attribute) and isinstance(c.ctx, (ast.Store, ast.Del)) and not in_init:
                    out.add(c.attr)
                rec(c, in_init)
        rec(tree, False)
    return out


_CUR_MODULE_USES_SETATTR = True  # set per module by normalise_temporaries: a module that calls setattr / delattr gets no alias reasoning


def _stable_attr_alias(e) -> bool:
    return REBOUND_ATTRS is not None and not _CUR_MODULE_USES_SETATTR and isinstance(e, ast.Attribute) and isinstance(e.value, ast.Name) \
        and e.value.id == "self" and e.attr not in REBOUND_ATTRS


def _pure(e) -> bool:
    """evaluating the expression again gives an equal, interchangeable value and has no effect: no call (but a few builtins on pure
    arguments), no await / yield, and no display that creates a NEW mutable object each time ([] {} set / list / dict comprehensions)"""
    for n in ast.walk(e):
        if isinstance(n, (ast.Await, ast.Yield, ast.YieldFrom, ast.NamedExpr, ast.List, ast.Dict, ast.Set, ast.ListComp, ast.DictComp, ast.SetComp,
                          ast.GeneratorExp, ast.Lambda)):
            return False
        if isinstance(n, ast.Call) and not (isinstance(n.func, ast.Name) and n.func.id in _STABLE_BUILTINS + _VALUE_BUILTINS and not n.keywords):
            return False
    return True


def _loads(node, name):
    return [n for n in _walk_no_defs(node) if isinstance(n, ast.Name) and n.id == name and isinstance(n.ctx, ast.Load)]


def _eval_order(e):
    """sub-expressions of e in (approximate) evaluation order, operands before the operation that uses them"""
    if isinstance(e, ast.Call):
        yield from _eval_order(e.func)
        for a in e.args:
            yield from _eval_order(a)
        for k in e.keywords:
            yield from _eval_order(k.value)
        yield e
    elif isinstance(e, (ast.Lambda, ast.ListComp, ast.SetComp, ast.DictComp, ast.GeneratorExp)):
        yield e
    else:
        for c in ast.iter_child_nodes(e):
            if isinstance(c, ast.expr):
                yield from _eval_order(c)
        yield e


def _used_before_any_effect(stmt, load) -> bool:
    """nothing with a side effect is evaluated in `stmt` before `load` is read"""
    v = getattr(stmt, "value", None)
    if not isinstance(stmt, (ast.Assign, ast.AnnAssign, ast.AugAssign, ast.Return, ast.Expr)) or v is None:
        return False
    for n in _eval_order(v):
        if n is load:
            return True
        if isinstance(n, (ast.Call, ast.Await, ast.Yield, ast.YieldFrom, ast.NamedExpr, ast.Lambda, ast.ListComp, ast.SetComp, ast.DictComp, ast.GeneratorExp)):
            return False
    return False


_EFFECT = (ast.Call, ast.Await, ast.Yield, ast.YieldFrom, ast.NamedExpr)


def _has_effect(stmt) -> bool:
    return any(isinstance(n, _EFFECT) and not (isinstance(n, ast.Call) and isinstance(n.func, ast.Name) and n.func.id in _STABLE_BUILTINS and not n.keywords)
               for n in ast.walk(stmt))


# builtins that only read their arguments (user-defined __len__ / __iter__ / __eq__ ... are taken not to change unrelated state)
_READ_ONLY_BUILTINS = ("len", "isinstance", "type", "id", "abs", "min", "max", "int", "float", "str", "bool", "tuple", "list", "dict", "set",
                       "frozenset", "sorted", "range", "zip", "enumerate", "sum", "any", "all", "repr", "callable", "hasattr", "getattr")


def _is_effect(n) -> bool:
    if isinstance(n, ast.Call):
        return not (isinstance(n.func, ast.Name) and n.func.id in _STABLE_BUILTINS + _READ_ONLY_BUILTINS and not n.keywords)
    return isinstance(n, (ast.Await, ast.Yield, ast.YieldFrom, ast.NamedExpr, ast.Lambda, ast.ListComp, ast.SetComp, ast.DictComp, ast.GeneratorExp))


def _reads_before_effects(stmts, v) -> bool:
    """Along every path through ``stmts`` the name ``v`` is only read while nothing with an effect (a call, await, yield ...)
    has been evaluated yet (so a value read from the heap before ``stmts`` is still the value the heap holds at each read)."""
    def expr(e, eff):
        ok = True
        for n in _eval_order(e):
            if isinstance(n, ast.Name) and n.id == v and isinstance(n.ctx, ast.Load):
                if eff:
                    ok = False
            elif _is_effect(n):
                if any(isinstance(x, ast.Name) and x.id == v for x in ast.walk(n)) and isinstance(n, (ast.Lambda, ast.ListComp, ast.SetComp, ast.DictComp, ast.GeneratorExp)):
                    ok = False
                eff = True
        return ok, eff

    def block(bl, eff):
        ok = True
        for st in bl:
            if isinstance(st, (ast.Assign, ast.AnnAssign, ast.AugAssign, ast.Expr, ast.Return, ast.Raise, ast.Assert, ast.Delete)):
                parts = []
                if isinstance(st, ast.AugAssign):
                    parts = [st.target, st.value]
                elif isinstance(st, ast.Assign):
                    parts = [st.value] + list(st.targets)
                elif isinstance(st, ast.AnnAssign):
                    parts = [x for x in (st.value, st.target) if x is not None]
                elif isinstance(st, ast.Raise):
                    parts = [x for x in (st.exc, st.cause) if x is not None]
                elif isinstance(st, ast.Assert):
                    parts = [x for x in (st.test, st.msg) if x is not None]
                elif isinstance(st, ast.Delete):
                    parts = list(st.targets)
                elif st.value is not None:
                    parts = [st.value]
                for e in parts:
                    o, eff = expr(e, eff)
                    ok = ok and o
                    if isinstance(e, (ast.Attribute, ast.Subscript)) and isinstance(getattr(e, "ctx", None), (ast.Store, ast.Del)):
                        eff = True  # a property setter / __setitem__ / __delitem__ may run
            elif isinstance(st, ast.If):
                o, eff = expr(st.test, eff)
                o1, e1 = block(st.body, eff)
                o2, e2 = block(st.orelse, eff)
                ok, eff = ok and o and o1 and o2, e1 or e2
            elif isinstance(st, (ast.While, ast.For, ast.AsyncFor)):
                hdr = st.test if isinstance(st, ast.While) else st.iter
                o, eff = expr(hdr, eff)
                if not isinstance(st, ast.While):
                    eff = True  # iteration calls __iter__ / __next__
                o1, e1 = block(st.body, eff)
                o1b, _ = block(st.body, e1)       # second iteration
                oh, _ = expr(hdr, e1) if isinstance(st, ast.While) else (True, e1)
                o2, e2 = block(st.orelse, e1)
                ok, eff = ok and o and o1 and o1b and oh and o2, e1 or e2
            elif isinstance(st, (ast.With, ast.AsyncWith)):
                for it in st.items:
                    o, eff = expr(it.context_expr, eff)
                    ok = ok and o
                    nm = ast.unparse(it.context_expr).lower()
                    if not (isinstance(it.context_expr, (ast.Name, ast.Attribute)) and nm.endswith("lock")):
                        eff = True  # __enter__ of anything that is not plainly a lock
                o1, eff = block(st.body, eff)
                ok = ok and o1
            elif isinstance(st, ast.Try):
                o1, e1 = block(st.body, eff)
                ok = ok and o1
                for h in st.handlers:
                    oh, _ = block(h.body, True)
                    ok = ok and oh
                o2, e2 = block(st.orelse, e1)
                o3, _ = block(st.finalbody, True)
                ok, eff = ok and o2 and o3, True
            elif isinstance(st, (ast.Pass, ast.Break, ast.Continue, ast.Import, ast.ImportFrom, ast.Global, ast.Nonlocal)):
                pass
            else:
                if any(isinstance(x, ast.Name) and x.id == v for x in ast.walk(st)):
                    ok = False
                eff = True
        return ok, eff
    return block(list(stmts), False)[0]


def _in_header_before_effect(stmt, load) -> bool:
    """the load is in the test of an if / while (or the iterable of a for) and nothing with an effect is evaluated before it"""
    hdr = stmt.test if isinstance(stmt, (ast.If, ast.While)) else stmt.iter if isinstance(stmt, (ast.For, ast.AsyncFor)) else None
    if hdr is None:
        return False
    for n in _eval_order(hdr):
        if n is load:
            return True
        if isinstance(n, _EFFECT + (ast.Lambda, ast.ListComp, ast.SetComp, ast.DictComp, ast.GeneratorExp)):
            return False
    return False


def _whole_value(stmt, load) -> bool:
    """the load is the entire value of the statement (possibly under one await / yield from)"""
    v = getattr(stmt, "value", None)
    if isinstance(stmt, (ast.Assign, ast.AnnAssign, ast.AugAssign, ast.Return, ast.Expr)) and v is not None:
        if v is load:
            return True
        if isinstance(v, (ast.Await, ast.YieldFrom)) and v.value is load:
            return True
    return False


def _rebinds(stmt, v) -> bool:
    """the statement (anywhere inside it: a loop body, a branch, a walrus, a with/for/except target) binds the name again"""
    for n in ast.walk(stmt):
        if isinstance(n, ast.Name) and n.id == v and isinstance(n.ctx, (ast.Store, ast.Del)):
            return True
        if isinstance(n, ast.ExceptHandler) and n.name == v:
            return True
    return False


def substitute_new_temporaries(fn, known_locals: set[str]) -> int:
    """A local the reference does not know, assigned once and used only in the statements right after, is substituted:
    (a) any right-hand side, one use, that use being the whole value of the very next statement; (b) a pure right-hand side
    (names / attributes / constants / operators) used any number of times in the following statements of the same block, as long
    as nothing in between can rebind what it reads (no assignment to those names / attributes, no await / yield)."""
    n_done = 0
    # `a, b = x, y` with new names on the left and pure values on the right is two plain assignments
    for node in _walk_no_defs(fn):
        for fld in ("body", "orelse", "finalbody"):
            block = getattr(node, fld, None)
            if not (isinstance(block, list) and block and isinstance(block[0], ast.stmt)):
                continue
            i = 0
            while i < len(block):
                st = block[i]
                if isinstance(st, ast.Assign) and len(st.targets) == 1 and isinstance(st.targets[0], ast.Tuple) and isinstance(st.value, ast.Tuple) \
                        and len(st.targets[0].elts) == len(st.value.elts) and all(isinstance(t, ast.Name) for t in st.targets[0].elts) \
                        and (any(t.id not in known_locals for t in st.targets[0].elts) or getattr(st, "_from_inlining", False)) \
                        and (all(_pure(v) for v in st.value.elts) or getattr(st, "_from_inlining", False)) \
                        and not ({t.id for t in st.targets[0].elts} & {n.id for v in st.value.elts for n in ast.walk(v) if isinstance(n, ast.Name)}):
                    block[i:i + 1] = [ast.copy_location(ast.Assign(targets=[t], value=v), st) for t, v in zip(st.targets[0].elts, st.value.elts)]
                    i += len(st.value.elts)
                    continue
                i += 1
    # `known = new_name` where new_name is an unknown local and `known` has no other binding: new_name was just another name
    # for what the reference calls `known` -> rename it and drop the alias
    for node in list(_walk_no_defs(fn)):
        for fld in ("body", "orelse", "finalbody"):
            block = getattr(node, fld, None)
            if not (isinstance(block, list) and block and isinstance(block[0], ast.stmt)):
                continue
            for st in list(block):
                if isinstance(st, ast.Assign) and len(st.targets) == 1 and isinstance(st.targets[0], ast.Name) and isinstance(st.value, ast.Name):
                    a, b = st.targets[0].id, st.value.id
                    if a in known_locals and b not in known_locals and a != b:
                        stores_a = [n for n in ast.walk(fn) if isinstance(n, ast.Name) and n.id == a and isinstance(n.ctx, (ast.Store, ast.Del))]
                        uses_a_before = [n for n in ast.walk(fn) if isinstance(n, ast.Name) and n.id == a and n is not st.targets[0] and getattr(n, "lineno", 0) < st.lineno]
                        is_param = any(x.arg == b for x in ast.walk(fn) if isinstance(x, ast.arg))
                        # the alias stands for b's value at this point: b must not be bound again afterwards, nor around (a loop)
                        stores_b = [n for n in ast.walk(fn) if isinstance(n, ast.Name) and n.id == b and isinstance(n.ctx, (ast.Store, ast.Del))]
                        in_loop = any(isinstance(lp, (ast.For, ast.AsyncFor, ast.While)) and any(x is st for x in ast.walk(lp)) for lp in ast.walk(fn))
                        b_stable = all(getattr(n, "lineno", 0) < st.lineno for n in stores_b) and (not in_loop or len(stores_b) <= 1) and \
                            not any(isinstance(h, ast.ExceptHandler) and h.name == b for h in ast.walk(fn))
                        if len(stores_a) == 1 and not uses_a_before and not is_param and b_stable:
                            for n in ast.walk(fn):
                                if isinstance(n, ast.Name) and n.id == b:
                                    n.id = a
                            block.remove(st)
                            if not block:
                                block.append(ast.Pass())
                            n_done += 1
    changed = True
    while changed:
        changed = False
        for node in _walk_no_defs(fn):
            for fld in ("body", "orelse", "finalbody"):
                block = getattr(node, fld, None)
                if not (isinstance(block, list) and block and isinstance(block[0], ast.stmt)):
                    continue
                for i, st in enumerate(block):
                    if not (isinstance(st, ast.Assign) and len(st.targets) == 1 and isinstance(st.targets[0], ast.Name)):
                        continue
                    v = st.targets[0].id
                    if v in known_locals:
                        continue
                    stores = [n for n in ast.walk(fn) if isinstance(n, ast.Name) and n.id == v and isinstance(n.ctx, (ast.Store, ast.Del))]
                    all_loads = [n for n in ast.walk(fn) if isinstance(n, ast.Name) and n.id == v and isinstance(n.ctx, ast.Load)]
                    if len(stores) != 1:
                        # several definitions: fine if every one is a plain assignment whose uses all follow it inside its own block
                        # (the same temporary introduced in several branches); then each region is treated on its own
                        if not _pure(st.value):
                            continue
                        region = []
                        for stj in block[i + 1:]:
                            if _rebinds(stj, v):
                                break
                            region.append(stj)
                        region_loads = [ld for stj in region for ld in _loads(stj, v)]
                        others_ok = True
                        total = 0
                        for n2 in _walk_no_defs(fn):
                            for fld2 in ("body", "orelse", "finalbody"):
                                b2 = getattr(n2, fld2, None)
                                if isinstance(b2, list):
                                    for k2, s2 in enumerate(b2):
                                        if isinstance(s2, ast.Assign) and len(s2.targets) == 1 and isinstance(s2.targets[0], ast.Name) and s2.targets[0].id == v:
                                            reg2 = []
                                            for s3 in b2[k2 + 1:]:
                                                if _rebinds(s3, v):
                                                    break
                                                reg2.append(s3)
                                            total += sum(len(_loads(s3, v)) for s3 in reg2)
                        if total != len(all_loads) or not region_loads:
                            continue
                        all_loads = region_loads
                    if not all_loads or i + 1 >= len(block):
                        continue
                    nxt = block[i + 1]
                    in_next = _loads(nxt, v)
                    done = False
                    # anything but a plain name / constant (or a tuple of those) is computed FROM objects that a call in between may
                    # mutate (`n = len(cache); cache.append(x); n`): such a value may only be used before anything with an effect runs
                    def _plain(e):
                        return isinstance(e, (ast.Name, ast.Constant)) or (isinstance(e, ast.Tuple) and all(_plain(x) for x in e.elts)) or \
                            (isinstance(e, ast.UnaryOp) and isinstance(e.operand, ast.Constant)) or \
                            (isinstance(e, (ast.BinOp, ast.UnaryOp)) and all(isinstance(x, (ast.BinOp, ast.UnaryOp, ast.Constant, ast.operator, ast.unaryop))
                                                                             for x in ast.walk(e))) or \
                            (isinstance(e, ast.Compare) and isinstance(e.left, (ast.Name, ast.Constant)) and all(
                                isinstance(c, ast.Constant) or (isinstance(c, ast.Tuple) and all(isinstance(x, ast.Constant) for x in c.elts)) for c in e.comparators)
                             and all(isinstance(o, (ast.Eq, ast.NotEq, ast.Is, ast.IsNot, ast.In, ast.NotIn)) for o in e.ops)) or \
                            (isinstance(e, ast.UnaryOp) and isinstance(e.op, ast.Not) and _plain(e.operand)) or \
                            (isinstance(e, ast.BoolOp) and all(_plain(v) for v in e.values)) or \
                            (isinstance(e, ast.Call) and isinstance(e.func, ast.Name) and e.func.id in _STABLE_BUILTINS and not e.keywords
                             and all(_plain(a) for a in e.args))  # id(x) / type(x): fixed by WHICH object x is, not by its state
                    heap = not (_plain(st.value) or _stable_attr_alias(st.value))
                    if len(all_loads) == 1 and len(in_next) == 1 and (_whole_value(nxt, in_next[0]) or (_pure(st.value) and not heap) or _used_before_any_effect(nxt, in_next[0])
                                                                        or (_in_header_before_effect(nxt, in_next[0]) and not isinstance(nxt, ast.While))
                                                                        or (_pure(st.value) and _reads_before_effects([nxt], v))) and not isinstance(nxt, _FUNCS):
                        _replace_node(nxt, in_next[0], st.value)
                        done = True
                    elif _pure(st.value):
                        # all uses in the following straight-line statements of this block
                        j, seen = i + 1, 0
                        reads = {ast.unparse(x) for x in ast.walk(st.value) if isinstance(x, (ast.Name, ast.Attribute))}
                        ok = True
                        while j < len(block) and seen < len(all_loads):
                            stj = block[j]
                            if any(isinstance(x, (ast.Await, ast.Yield, ast.YieldFrom)) for x in _walk_no_defs(stj)) and seen + len(_loads(stj, v)) < len(all_loads):
                                ok = False
                                break
                            for t in ast.walk(stj):
                                if isinstance(t, (ast.Name, ast.Attribute)) and isinstance(getattr(t, "ctx", None), (ast.Store, ast.Del)) and ast.unparse(t) in reads:
                                    ok = False
                            seen += len(_loads(stj, v))
                            j += 1
                        if ok and heap and not _reads_before_effects(block[i + 1:j], v):
                            # the value reads an attribute / item, which any call in between could change: every use must come
                            # before anything with an effect is evaluated on its path
                            ok = False
                        if ok and seen == len(all_loads):
                            for stj in block[i + 1:j]:
                                for ld in _loads(stj, v):
                                    _replace_node(stj, ld, copy.deepcopy(st.value))
                            done = True
                    if done:
                        del block[i]
                        n_done += 1
                        changed = True
                        break
                if changed:
                    break
            if changed:
                break
    if n_done:
        ast.fix_missing_locations(fn)
    return n_done


def _replace_node(root, old, new):
    for parent in ast.walk(root):
        for fld, val in ast.iter_fields(parent):
            if val is old:
                setattr(parent, fld, new)
                return True
            if isinstance(val, list):
                for k, x in enumerate(val):
                    if x is old:
                        val[k] = new
                        return True
    return False


# ------------------------------------------------------------------------------------------------ driver
def normalise_module(tree: ast.Module, modname: str) -> dict:
    """phase 1 (before the locals are renamed back): constants, helpers, temporaries"""
    r = ref()
    stats = {"constants": 0, "inlined": 0, "guards": 0, "temporaries": 0}
    mods = r.get("modules", {})
    if modname not in mods:
        return stats
    info = mods[modname]
    stats["constants"] = substitute_new_constants(tree, set(info.get("names", [])))
    stats["inlined"] = Inliner(tree, set(info.get("functions", []))).run()
    return stats


def loops_to_comprehensions(fn, comp_locals: dict, known_locals=None) -> int:
    """`x = {}` + `for t in it: [if c:] x[k] = v` (also `[]` with append, `set()` with add) is the comprehension
    `x = {k: v for t in it if c}` when the reference binds x by exactly that kind of comprehension, the loop variables are not
    read outside the loop and nothing in the loop mentions x or suspends."""
    n_done = 0
    for node in list(_walk_no_defs(fn)):
        for fld in ("body", "orelse", "finalbody"):
            block = getattr(node, fld, None)
            if not (isinstance(block, list) and block and isinstance(block[0], ast.stmt)):
                continue
            i = 0
            while i + 1 < len(block):
                a, lp = block[i], block[i + 1]
                i += 1
                if not (isinstance(a, ast.Assign) and len(a.targets) == 1 and isinstance(a.targets[0], ast.Name) and isinstance(lp, ast.For) and not lp.orelse):
                    continue
                x = a.targets[0].id
                want = comp_locals.get(x)
                empty = ast.unparse(a.value)
                kind = {"{}": "DictComp", "dict()": "DictComp", "[]": "ListComp", "list()": "ListComp", "set()": "SetComp"}.get(empty)
                into_next = None
                if kind is not None and want is None and known_locals is not None and x not in known_locals and i + 1 < len(block):
                    # a NEW accumulator read exactly once, by the statement right after the loop: the comprehension goes there
                    others = [n for n in ast.walk(fn) if isinstance(n, ast.Name) and n.id == x and not any(n is y for y in ast.walk(lp)) and n is not a.targets[0]]
                    nxt = block[i + 1]
                    if len(others) == 1 and isinstance(others[0].ctx, ast.Load) and any(others[0] is y for y in ast.walk(nxt)) \
                            and (_whole_value(nxt, others[0]) or _used_before_any_effect(nxt, others[0])):
                        into_next = (nxt, others[0])
                if kind is None or (want != kind and into_next is None):
                    continue
                # nested `for` / `if` levels become the generators of one comprehension
                gens = [ast.comprehension(target=lp.target, iter=lp.iter, ifs=[], is_async=0)]
                loops_seen = [lp]
                inner = lp.body
                while len(inner) == 1 and ((isinstance(inner[0], ast.If) and not inner[0].orelse) or (isinstance(inner[0], ast.For) and not inner[0].orelse)):
                    if isinstance(inner[0], ast.If):
                        gens[-1].ifs.append(inner[0].test)
                    else:
                        gens.append(ast.comprehension(target=inner[0].target, iter=inner[0].iter, ifs=[], is_async=0))
                        loops_seen.append(inner[0])
                    inner = inner[0].body
                conds = [c for g_ in gens for c in g_.ifs]
                if len(inner) != 1:
                    continue
                st = inner[0]
                elt = None
                if kind == "DictComp" and isinstance(st, ast.Assign) and len(st.targets) == 1 and isinstance(st.targets[0], ast.Subscript) \
                        and isinstance(st.targets[0].value, ast.Name) and st.targets[0].value.id == x:
                    elt = (st.targets[0].slice, st.value)
                elif kind in ("ListComp", "SetComp") and isinstance(st, ast.Expr) and isinstance(st.value, ast.Call) and isinstance(st.value.func, ast.Attribute) \
                        and isinstance(st.value.func.value, ast.Name) and st.value.func.value.id == x \
                        and st.value.func.attr == ("append" if kind == "ListComp" else "add") and len(st.value.args) == 1 and not st.value.keywords:
                    elt = (st.value.args[0],)
                if elt is None:
                    continue
                parts = [*[g_.iter for g_ in gens], *conds, *elt]
                if any(isinstance(n, ast.Name) and n.id == x for e in parts for n in ast.walk(e)):
                    continue
                if any(isinstance(n, (ast.Await, ast.Yield, ast.YieldFrom, ast.NamedExpr)) for e in parts for n in ast.walk(e)):
                    continue
                loop_vars = {n.id for l_ in loops_seen for n in ast.walk(l_.target) if isinstance(n, ast.Name)}
                inside = {id(n) for n in ast.walk(lp)}
                # other uses of these names are fine when they belong to another loop / comprehension that binds the name itself first
                rebound_elsewhere = set()
                for other in ast.walk(fn):
                    if isinstance(other, (ast.For, ast.AsyncFor)) and other is not lp and id(other) not in inside:
                        tn = {n.id for n in ast.walk(other.target) if isinstance(n, ast.Name)}
                        for sub in [other.target] + other.body:
                            for n in ast.walk(sub):
                                if isinstance(n, ast.Name) and n.id in tn:
                                    rebound_elsewhere.add(id(n))
                    if isinstance(other, ast.comprehension):
                        pass
                if any(isinstance(n, ast.Name) and n.id in loop_vars and id(n) not in inside and id(n) not in rebound_elsewhere for n in ast.walk(fn)):
                    continue
                if kind == "DictComp":
                    comp = ast.DictComp(key=elt[0], value=elt[1], generators=gens)
                elif kind == "ListComp":
                    comp = ast.ListComp(elt=elt[0], generators=gens)
                else:
                    comp = ast.SetComp(elt=elt[0], generators=gens)
                if into_next is not None:
                    _replace_node(into_next[0], into_next[1], comp)
                    block.remove(lp)
                    block.remove(a)
                    i -= 1
                else:
                    a.value = comp
                    block.remove(lp)
                n_done += 1
    if n_done:
        ast.fix_missing_locations(fn)
    return n_done


def branch_assignments_to_conditionals(fn, ifexp_locals: set) -> int:
    """`if c: x = a` / `else: x = b` is `x = a if c else b` - rewritten when the reference binds x by a conditional expression"""
    n_done = 0
    for node in list(_walk_no_defs(fn)):
        for fld in ("body", "orelse", "finalbody"):
            block = getattr(node, fld, None)
            if not (isinstance(block, list) and block and isinstance(block[0], ast.stmt)):
                continue
            for i, st in enumerate(block):
                if not (isinstance(st, ast.If) and len(st.body) == 1 and len(st.orelse) == 1):
                    continue
                a, b = st.body[0], st.orelse[0]
                if not (isinstance(a, ast.Assign) and isinstance(b, ast.Assign) and len(a.targets) == 1 and len(b.targets) == 1
                        and isinstance(a.targets[0], ast.Name) and isinstance(b.targets[0], ast.Name) and a.targets[0].id == b.targets[0].id
                        and a.targets[0].id in ifexp_locals):
                    continue
                if any(isinstance(x, (ast.NamedExpr, ast.Await, ast.Yield, ast.YieldFrom)) for x in ast.walk(st)):
                    continue
                block[i] = ast.copy_location(ast.Assign(targets=[a.targets[0]], value=ast.IfExp(test=st.test, body=a.value, orelse=b.value)), st)
                n_done += 1
    if n_done:
        ast.fix_missing_locations(fn)
    return n_done


def assignments_to_walrus_tests(fn, raw_tests) -> int:
    """`v = E` + `if v:` / `if not v:`  is  `if (v := E):` / `if not (v := E):` - rewritten when the reference tests a walrus of
    the same expression E at that place (its recorded if-tests contain `... := E`)."""
    n_done = 0
    wal = [t for t in raw_tests if ":=" in t]
    if not wal:
        return 0
    for node in list(_walk_no_defs(fn)):
        for fld in ("body", "orelse", "finalbody"):
            block = getattr(node, fld, None)
            if not (isinstance(block, list) and block and isinstance(block[0], ast.stmt)):
                continue
            i = 0
            while i + 1 < len(block):
                a, iff = block[i], block[i + 1]
                i += 1
                if not (isinstance(a, ast.Assign) and len(a.targets) == 1 and isinstance(a.targets[0], ast.Name) and isinstance(iff, ast.If)):
                    continue
                v = a.targets[0].id
                t = iff.test
                neg = isinstance(t, ast.UnaryOp) and isinstance(t.op, ast.Not)
                core = t.operand if neg else t
                if not (isinstance(core, ast.Name) and core.id == v):
                    continue
                etxt = ast.unparse(a.value)
                if not any(w.split(":=", 1)[1].strip().rstrip(")").strip() == etxt or (":= " + etxt) in w for w in wal):
                    continue
                w = ast.NamedExpr(target=ast.Name(id=v, ctx=ast.Store()), value=a.value)
                iff.test = ast.UnaryOp(op=ast.Not(), operand=w) if neg else w
                block.remove(a)
                i -= 1
                n_done += 1
    if n_done:
        ast.fix_missing_locations(fn)
    return n_done


def unroll_literal_dict_loops(fn, known_locals: set) -> int:
    """`d = {'a': x, 'b': y}` (a NEW name, values plain names / constants) + `for k, v in d.items(): BODY` with d used nowhere else
    is BODY for ('a', x) then BODY for ('b', y)."""
    n_done = 0
    for node in list(_walk_no_defs(fn)):
        for fld in ("body", "orelse", "finalbody"):
            block = getattr(node, fld, None)
            if not (isinstance(block, list) and block and isinstance(block[0], ast.stmt)):
                continue
            i = 0
            while i + 1 < len(block):
                a, lp = block[i], block[i + 1]
                i += 1
                if not (isinstance(a, ast.Assign) and len(a.targets) == 1 and isinstance(a.targets[0], ast.Name) and a.targets[0].id not in known_locals
                        and isinstance(a.value, ast.Dict) and len(a.value.keys) <= 4 and all(isinstance(k, ast.Constant) for k in a.value.keys)
                        and all(isinstance(v, (ast.Name, ast.Constant)) for v in a.value.values)):
                    continue
                d = a.targets[0].id
                if not (isinstance(lp, ast.For) and not lp.orelse and isinstance(lp.iter, ast.Call) and isinstance(lp.iter.func, ast.Attribute) and lp.iter.func.attr == "items"
                        and isinstance(lp.iter.func.value, ast.Name) and lp.iter.func.value.id == d and not lp.iter.args
                        and isinstance(lp.target, ast.Tuple) and len(lp.target.elts) == 2 and all(isinstance(e, ast.Name) for e in lp.target.elts)):
                    continue
                uses = [n for n in ast.walk(fn) if isinstance(n, ast.Name) and n.id == d]
                if len(uses) != 2:
                    continue
                kv, vv = lp.target.elts[0].id, lp.target.elts[1].id
                inside = {id(n) for n in ast.walk(lp)}
                if any(isinstance(n, ast.Name) and n.id in (kv, vv) and id(n) not in inside for n in ast.walk(fn)):
                    continue
                if any(isinstance(n, (ast.Break, ast.Continue, ast.Return)) for x in lp.body for n in ast.walk(x)) or \
                        any(isinstance(n, ast.Name) and n.id in (kv, vv) and isinstance(n.ctx, ast.Store) for x in lp.body for n in ast.walk(x)):
                    continue
                values_names = {v.id for v in a.value.values if isinstance(v, ast.Name)}
                if any(isinstance(n, ast.Name) and n.id in values_names and isinstance(n.ctx, ast.Store) for x in lp.body for n in ast.walk(x)):
                    continue
                out = []
                for k, v in zip(a.value.keys, a.value.values):
                    for st in lp.body:
                        out.append(_Renamer({kv: k, vv: v}).visit(copy.deepcopy(st)))
                block[i - 1:i + 1] = out or [ast.copy_location(ast.Pass(), a)]
                n_done += 1
    if n_done:
        ast.fix_missing_locations(fn)
    return n_done


def for_else_to_any_tests(fn, known_locals: set) -> int:
    """`for t in it: if c: break` + `else: S` runs S exactly when no element satisfies c: `if not any(c for t in it): S` (the loop
    variables must be new names that nothing else uses)."""
    n_done = 0
    for node in list(_walk_no_defs(fn)):
        for fld in ("body", "orelse", "finalbody"):
            block = getattr(node, fld, None)
            if not (isinstance(block, list) and block and isinstance(block[0], ast.stmt)):
                continue
            for i, lp in enumerate(block):
                if not (isinstance(lp, ast.For) and lp.orelse and len(lp.body) == 1 and isinstance(lp.body[0], ast.If) and not lp.body[0].orelse
                        and len(lp.body[0].body) == 1 and isinstance(lp.body[0].body[0], ast.Break)):
                    continue
                loop_vars = {x.id for x in ast.walk(lp.target) if isinstance(x, ast.Name)}
                inside = {id(x) for x in ast.walk(lp.target)} | {id(x) for x in ast.walk(lp.body[0].test)}
                if loop_vars & known_locals or any(isinstance(x, ast.Name) and x.id in loop_vars and id(x) not in inside for x in ast.walk(fn)):
                    continue
                if any(isinstance(x, (ast.Await, ast.Yield, ast.YieldFrom, ast.NamedExpr)) for x in ast.walk(lp.body[0].test)) or \
                        any(isinstance(x, (ast.Await, ast.Yield, ast.YieldFrom, ast.NamedExpr)) for x in ast.walk(lp.iter)):
                    continue
                for x in ast.walk(lp.target):
                    if isinstance(x, ast.Name):
                        x.ctx = ast.Store()
                gen = ast.GeneratorExp(elt=lp.body[0].test, generators=[ast.comprehension(target=lp.target, iter=lp.iter, ifs=[], is_async=0)])
                test = ast.UnaryOp(op=ast.Not(), operand=ast.Call(func=ast.Name(id="any", ctx=ast.Load()), args=[gen], keywords=[]))
                block[i] = ast.copy_location(ast.If(test=test, body=lp.orelse, orelse=[]), lp)
                n_done += 1
    if n_done:
        ast.fix_missing_locations(fn)
    return n_done


def any_tests_to_loops(fn, known_tests: set) -> int:
    """`if any(c for t in it): <block that always leaves>` is the search loop `for t in it: if c: <block>` (the first hit
    leaves; no hit falls through) - rewritten when the reference does not know the `any(...)` test."""
    n_done = 0
    for node in list(_walk_no_defs(fn)):
        for fld in ("body", "orelse", "finalbody"):
            block = getattr(node, fld, None)
            if not (isinstance(block, list) and block and isinstance(block[0], ast.stmt)):
                continue
            for i, st in enumerate(block):
                if not (isinstance(st, ast.If) and not st.orelse and _terminal(st.body) and isinstance(st.body[-1], (ast.Raise, ast.Return))):
                    continue
                t = st.test
                if not (isinstance(t, ast.Call) and isinstance(t.func, ast.Name) and t.func.id == "any" and len(t.args) == 1 and not t.keywords
                        and isinstance(t.args[0], ast.GeneratorExp) and len(t.args[0].generators) == 1 and not t.args[0].generators[0].is_async):
                    continue
                if nnf_text(t) in known_tests:
                    continue
                gen = t.args[0].generators[0]
                if any(isinstance(x, (ast.Await, ast.Yield, ast.YieldFrom, ast.NamedExpr)) for x in ast.walk(t)):
                    continue
                loop_vars = {x.id for x in ast.walk(gen.target) if isinstance(x, ast.Name)}
                if any(isinstance(x, ast.Name) and x.id in loop_vars for x in ast.walk(fn) if not any(x is y for y in ast.walk(t))):
                    continue  # the names would leak into / clash with the rest of the function
                cond = t.args[0].elt
                for extra in reversed(gen.ifs):
                    cond = ast.BoolOp(op=ast.And(), values=[extra, cond])
                inner = ast.copy_location(ast.If(test=cond, body=st.body, orelse=[]), st)
                block[i] = ast.copy_location(ast.For(target=gen.target, iter=gen.iter, body=[inner], orelse=[], type_comment=None), st)
                for x in ast.walk(gen.target):
                    if isinstance(x, ast.Name):
                        x.ctx = ast.Store()
                n_done += 1
    if n_done:
        ast.fix_missing_locations(fn)
    return n_done


class _SpreadLiteralKwargs(ast.NodeTransformer):
    """`f(a, **{'k': v, 'm': w})` is `f(a, k=v, m=w)` (same values evaluated in the same order)"""

    def __init__(self):
        self.n = 0

    def visit_Call(self, node):
        self.generic_visit(node)
        new = []
        for k in node.keywords:
            if k.arg is None and isinstance(k.value, ast.Dict) and k.value.keys and all(isinstance(x, ast.Constant) and isinstance(x.value, str) and x.value.isidentifier()
                                                                                         for x in k.value.keys):
                new.extend(ast.keyword(arg=x.value, value=v) for x, v in zip(k.value.keys, k.value.values))
                self.n += 1
            else:
                new.append(k)
        names = [k.arg for k in new if k.arg]
        if len(names) == len(set(names)):
            node.keywords = new
        return node


def normalise_temporaries(tree: ast.Module, modname: str) -> int:
    """phase 1b (after a first renaming pass, so that merely renamed locals are not mistaken for new temporaries)"""
    from . import alpha

    global _CUR_MODULE_USES_SETATTR
    _CUR_MODULE_USES_SETATTR = any(isinstance(c, ast.Call) and isinstance(c.func, ast.Name) and c.func.id in ("setattr", "delattr", "vars") for c in ast.walk(tree)) \
        or any(isinstance(a, ast.Attribute) and a.attr == "__dict__" for a in ast.walk(tree))
    r = ref()
    locs = r.get("functions", {})
    n = 0
    todo = []
    for key, outer in alpha.outermost_functions(tree, modname):
        if key not in r.get("if_tests", {}):
            continue
        # the outermost function and every function nested in it (the table lists the locals of all of them under the outer key)
        todo.append((key, outer))
        todo += [(key, x) for x in ast.walk(outer) if isinstance(x, _FUNCS) and x is not outer]
    for key, fn in todo:
        params = {a.arg for a in ast.walk(fn) if isinstance(a, ast.arg)}
        n += branch_assignments_to_conditionals(fn, {x[0] for x in locs.get(key, []) if x[1] == "Assign" and x[2] == "IfExp"})
        n += for_else_to_any_tests(fn, {x[0] for x in locs.get(key, [])} | params)
        n += unroll_literal_dict_loops(fn, {x[0] for x in locs.get(key, [])} | params)
        n += assignments_to_walrus_tests(fn, list(r.get("if_tests_raw", {}).get(key, {}).values()))
        n += any_tests_to_loops(fn, set(r.get("if_tests", {}).get(key, [])))
        n += loops_to_comprehensions(fn, {x[0]: x[2] for x in locs.get(key, []) if x[1] == "Assign" and x[2] in ("DictComp", "ListComp", "SetComp")},
                                     {x[0] for x in locs.get(key, [])} | params)
        n += substitute_new_temporaries(fn, {x[0] for x in locs.get(key, [])} | params)
        sp = _SpreadLiteralKwargs()
        sp.visit(fn)
        n += sp.n
    return n


def normalise_guards(tree: ast.Module, modname: str) -> int:
    """phase 2 (after the locals were renamed back, so that tests can be compared with the table)"""
    from . import alpha

    tests = ref().get("if_tests", {})
    n = 0
    for key, fn in alpha.outermost_functions(tree, modname):
        known = tests.get(key)
        if known is None:
            continue
        ifelse = {nnf_text(ast.parse(t, mode="eval").body) for t in ref().get("shapes", {}).get(key, {}).get("if_else_tests", [])}
        ifelse |= set(ref().get("if_orelse_tests", {}).get(key, []))  # also the heads of if / elif chains
        g = _Guards(set(known), ref().get("if_tests_raw", {}).get(key, {}), ifelse)
        g.run(fn)
        n += g.n
    return n
