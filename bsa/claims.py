"""What is claimed in MANIFEST.json, per property (text = assurance, note = assumptions)."""

CLAIMS: dict[str, dict] = {}

NOT_APPLICABLE = {
    "C26": "statement is about values produced by numpy index arithmetic (tile/repeat/reverse); no clause is visible in "
           "the shape of the code except the slice expressions themselves (a frozen fragment), so static analysis does not apply",
    "C44": "numerical statistics over arbitrary arrays (argmax, interpolation, centre of mass); nothing structural to decide statically",
}
