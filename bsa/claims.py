"""What is claimed in MANIFEST.json.  Each rule module bsa/rules/cNN.py carries its own
``CLAIM = {"text": ..., "technique": ..., "note": ..., "level": ...}``; a property without a rule
module (or whose module has no CLAIM) is listed as not applicable."""

import importlib
import os

_BASE_NOTE = ("Static analysis of the current /repo source only (ast; nothing is imported or run). Sound for the stated "
              "model: asyncio switches tasks only at await; calls in the 'total' table (logging, container methods, "
              "OpenTelemetry API) do not raise; device / library code is opaque and may raise Exception. Trusted base: "
              "CPython ast parser, the CFG builder and solvers in /verif/bsa. Clauses named 'not decided' in the evidence "
              "explanation are outside the claim; the behaviour under real inputs / schedules is decided only through the "
              "named structural clauses, each a necessary condition of the property.")

CLAIMS: dict[str, dict] = {}
_rules = os.path.join(os.path.dirname(__file__), "rules")
for fn in sorted(os.listdir(_rules)):
    if fn.startswith("c") and fn.endswith(".py") and fn[1:-3].isdigit():
        mod = importlib.import_module(f"bsa.rules.{fn[:-3]}")
        c = getattr(mod, "CLAIM", None)
        if c:
            CLAIMS[fn[:-3].upper()] = {
                "text": c["text"], "technique": c["technique"], "level": c.get("level", "other"),
                "note": ((c.get("note", "") + " ") if c.get("note") else "") + _BASE_NOTE,
            }

NOT_APPLICABLE = {
    "C26": "statement is about values produced by numpy index arithmetic (tile/repeat/reverse); no clause is visible in "
           "the shape of the code except the slice expressions themselves (a frozen fragment), so static analysis does not apply",
    "C44": "numerical statistics over arbitrary arrays (argmax, interpolation, centre of mass); nothing structural to decide statically",
}
