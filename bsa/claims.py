"""What is claimed in MANIFEST.json, per property (text = assurance, note = assumptions)."""

_BASE_NOTE = ("Static analysis of the current /repo source only (ast; nothing is imported or run). Sound for the stated "
              "model: asyncio switches tasks only at await; calls in the 'total' table (logging, container methods, "
              "OpenTelemetry API) do not raise; device / library code is opaque and may raise Exception. Trusted base: "
              "CPython ast parser, the CFG builder and solvers in /verif/bsa. Clauses marked 'not decided' in the evidence "
              "explanation are outside the claim.")


def _c(text, technique, note="", level="other"):
    return {"text": text, "technique": technique, "note": (note + " " if note else "") + _BASE_NOTE, "level": level}


CLAIMS: dict[str, dict] = {
    "C07": _c(
        "Decides, for every interleaving at await granularity of the five request coroutines with RunEngine._run, that "
        "each assignment to _state made by _run (or by a handler on its behalf) is in the transition table for every "
        "reachable abstract tuple (state, run-permit, resumable, cancel-pending); that every exit of _run passes "
        "_state='idle' on every path including CancelledError/Exception edges; that _state is written only by RunEngine "
        "with literal states through the checking setter; and that the blocking entry points are guarded. The behaviour "
        "under real timing is not decided; today's tree has the F-1 family of known findings (engine stuck when a request "
        "lands during the epilogue).",
        "thread-modular typestate fixpoint over a CFG with exceptional edges; post-dominance (must-pass-through); ownership table",
        "Request alphabet: pause, deferred pause, suspend, abort, stop, halt, main-thread permit set; KeyboardInterrupt / "
        "'panicked' path and commands added with register_command are outside the model."),
}

NOT_APPLICABLE = {
    "C26": "statement is about values produced by numpy index arithmetic (tile/repeat/reverse); no clause is visible in "
           "the shape of the code except the slice expressions themselves (a frozen fragment), so static analysis does not apply",
    "C44": "numerical statistics over arbitrary arrays (argmax, interpolation, centre of mass); nothing structural to decide statically",
}
