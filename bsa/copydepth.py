"""A7 - copy-depth / mutation analysis for document handlers.

Every local is classified as
  INPUT    an alias of a document received from the caller (mutation at any depth is a finding),
  SHARED   a value nested inside an INPUT / SHALLOW / SHARED object (mutation is a finding),
  SHALLOW  a shallow copy of such an object (top-level mutation is fine, nested values are SHARED),
  FRESH    a deep copy or a newly built object (anything goes).
Values flow through ``self.<helper>(...)`` calls (callee analysed with the argument's class) and through
instance caches (``self._cache[k] = doc`` stores the class of ``doc``)."""

from __future__ import annotations

import ast

from . import astutil as A

INPUT, SHARED, SHALLOW, FRESH = 0, 1, 2, 3
NAMES = {INPUT: "input alias", SHARED: "shared nested value", SHALLOW: "shallow copy", FRESH: "fresh / deep copy"}
DERIVERS = {"get", "pop", "setdefault", "values", "items", "popitem", "__getitem__"}
PASS_THROUGH = {"cast", "patch"}  # cast(T, x) / a user patch function returns (an alias of) its argument


def worst(a, b):
    return min(a, b)


class CopyDepth:
    def __init__(self, repo, module, clsname):
        self.repo, self.module, self.clsname = repo, module, clsname
        self.cache_cls: dict[str, int] = {}
        self.findings: list = []
        self.evaluated = 0
        self._ret: dict = {}
        self._stack: list = []

    def method(self, name):
        return self.repo.funcs.get(f"{self.module}:{self.clsname}.{name}")

    # -- expressions
    def cls(self, e, env) -> int:
        if e is None:
            return FRESH
        if isinstance(e, ast.Name):
            return env.get(e.id, FRESH)
        if isinstance(e, ast.NamedExpr):
            c = self.cls(e.value, env)
            env[e.target.id] = c
            return c
        if isinstance(e, ast.Await):
            return self.cls(e.value, env)
        if isinstance(e, ast.IfExp):
            return worst(self.cls(e.body, env), self.cls(e.orelse, env))
        if isinstance(e, ast.BoolOp):
            c = FRESH
            for v in e.values:
                c = worst(c, self.cls(v, env))
            return c
        if isinstance(e, ast.Subscript):
            ch = A.chain(e.value) or ""
            if ch.startswith("self.") and ch.count(".") == 1:
                return self.cache_cls.get(ch[5:], FRESH)
            base = self.cls(e.value, env)
            return SHARED if base in (INPUT, SHARED, SHALLOW) else FRESH
        if isinstance(e, ast.Attribute):
            return FRESH
        if isinstance(e, ast.Call):
            cn = A.call_name(e) or ""
            if cn in ("copy.deepcopy", "deepcopy"):
                return FRESH
            if cn in ("copy.copy", "dict", "list") and e.args:
                base = self.cls(e.args[0], env)
                return SHALLOW if base in (INPUT, SHARED, SHALLOW) else FRESH
            if cn.split(".")[-1] in PASS_THROUGH and e.args:
                return self.cls(e.args[-1], env)
            if isinstance(e.func, ast.Attribute):
                recv = e.func.value
                rch = A.chain(recv) or ""
                if e.func.attr in DERIVERS:
                    if rch.startswith("self.") and rch.count(".") == 1:
                        return self.cache_cls.get(rch[5:], FRESH)
                    base = self.cls(recv, env)
                    return SHARED if base in (INPUT, SHARED, SHALLOW) else FRESH
                if e.func.attr == "copy" and not e.args:
                    base = self.cls(recv, env)
                    return SHALLOW if base in (INPUT, SHARED, SHALLOW) else FRESH
                if rch == "self":
                    callee = self.method(e.func.attr)
                    if callee is not None:
                        args = [self.cls(a, env) for a in e.args]
                        return self.analyse(callee, args)
            return FRESH
        if isinstance(e, ast.Dict) and any(k is None for k in e.keys):  # {**x}
            c = FRESH
            for k, v in zip(e.keys, e.values):
                if k is None and self.cls(v, env) in (INPUT, SHARED, SHALLOW):
                    c = SHALLOW
            return c
        return FRESH

    # -- statements
    def report(self, f, stmt, recv_cls, what):
        self.findings.append((f, stmt, recv_cls, what))

    def check_mutations(self, f, stmt, env):
        targets = []
        if isinstance(stmt, (ast.Assign, ast.AugAssign, ast.AnnAssign)):
            targets = A.targets_of(stmt)
        elif isinstance(stmt, ast.Delete):
            targets = stmt.targets
        for t in targets:
            if isinstance(t, ast.Subscript):
                ch = A.chain(t.value) or ""
                if ch.startswith("self."):
                    continue
                self.evaluated += 1
                c = self.cls(t.value, env)
                if c in (INPUT, SHARED):
                    self.report(f, stmt, c, f"item assignment / deletion on a {NAMES[c]} `{A.short(t.value, 50)}`")
        exprs = [stmt] if not isinstance(stmt, (ast.If, ast.For, ast.While, ast.Try, ast.With)) else (
            [stmt.test] if isinstance(stmt, (ast.If, ast.While)) else ([stmt.iter] if isinstance(stmt, ast.For) else []))
        for ex in exprs:
            for c in A.calls_in(ex):
                if isinstance(c.func, ast.Attribute) and c.func.attr in A.MUTATORS:
                    recv = c.func.value
                    ch = A.chain(recv) or ""
                    if ch.startswith("self.") or ch == "self":
                        continue
                    self.evaluated += 1
                    rc = self.cls(recv, env)
                    if rc in (INPUT, SHARED):
                        self.report(f, stmt, rc, f"`.{c.func.attr}()` on a {NAMES[rc]} `{A.short(recv, 50)}`")

    def bind(self, target, c, env, weak):
        if isinstance(target, ast.Name):
            env[target.id] = worst(env[target.id], c) if (weak and target.id in env) else c
        elif isinstance(target, (ast.Tuple, ast.List)):
            for e in target.elts:
                self.bind(e, c, env, weak)
        elif isinstance(target, ast.Subscript):
            ch = A.chain(target.value) or ""
            if ch.startswith("self.") and ch.count(".") == 1:
                self.cache_cls[ch[5:]] = worst(self.cache_cls.get(ch[5:], FRESH), c)

    def block(self, f, stmts, env, weak):
        for s in stmts:
            self.check_mutations(f, s, env)
            if isinstance(s, ast.Assign):
                c = self.cls(s.value, env)
                for t in s.targets:
                    self.bind(t, c, env, weak)
            elif isinstance(s, ast.AnnAssign) and s.value is not None:
                self.bind(s.target, self.cls(s.value, env), env, weak)
            elif isinstance(s, ast.Expr):
                self.cls(s.value, env)
            elif isinstance(s, ast.Return):
                self._ret[f.key] = worst(self._ret.get(f.key, FRESH), self.cls(s.value, env)) if s.value is not None else self._ret.get(f.key, FRESH)
            elif isinstance(s, ast.If):
                self.cls(s.test, env)
                self.block(f, s.body, env, True)
                self.block(f, s.orelse, env, True)
            elif isinstance(s, (ast.For, ast.AsyncFor)):
                base = self.cls(s.iter, env)
                it = s.iter
                elem = FRESH
                if isinstance(it, ast.Call) and isinstance(it.func, ast.Attribute) and it.func.attr in ("values", "items", "keys"):
                    elem = base if base == FRESH else SHARED
                elif base in (INPUT, SHARED, SHALLOW):
                    elem = SHARED
                if isinstance(it, ast.Call) and (A.call_name(it) or "").startswith("itertools.chain"):
                    for a in it.args:
                        if self.cls(a.value if isinstance(a, ast.Starred) else a, env) != FRESH:
                            elem = SHARED
                self.bind(s.target, elem, env, True)
                self.block(f, s.body, env, True)
                self.block(f, s.orelse, env, True)
            elif isinstance(s, ast.While):
                self.block(f, s.body, env, True)
            elif isinstance(s, (ast.With, ast.AsyncWith)):
                self.block(f, s.body, env, weak)
            elif isinstance(s, ast.Try):
                self.block(f, s.body, env, True)
                for h in s.handlers:
                    self.block(f, h.body, env, True)
                self.block(f, s.orelse, env, True)
                self.block(f, s.finalbody, env, True)

    def analyse(self, f, arg_classes) -> int:
        key = (f.key, tuple(arg_classes))
        if key in self._stack:
            return FRESH
        self._stack.append(key)
        try:
            params = [a.arg for a in f.node.args.args if a.arg != "self"]
            env = {p: (arg_classes[i] if i < len(arg_classes) else FRESH) for i, p in enumerate(params)}
            self._ret.pop(f.key, None)
            self.block(f, f.node.body, env, False)
            return self._ret.get(f.key, FRESH)
        finally:
            self._stack.pop()
