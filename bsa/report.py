"""Obligations, findings, known-findings matching, evidence files, exit codes."""

from __future__ import annotations

import hashlib
import json
import os
import time

from .loader import AnalysisError, Repo

VERIF = os.path.dirname(os.path.dirname(os.path.abspath(__file__)))
KNOWN_FILE = os.path.join(VERIF, "known_findings.json")
EVIDENCE_DIR = os.environ.get("BSA_EVIDENCE_DIR") or os.path.join(VERIF, "evidence")  # overridden only by tools/ that analyse scratch copies
OUT_DIR = os.environ.get("BSA_OUT_DIR") or os.path.join(VERIF, "out")


def load_known() -> list[dict]:
    if not os.path.exists(KNOWN_FILE):
        return []
    with open(KNOWN_FILE) as f:
        data = json.load(f)
    return [e for e in data.get("findings", []) if e.get("status") == "known"]


class Ctx:
    """Collects what one run of one property's rules did."""

    def __init__(self, prop: str, tier: str, repo: Repo, level: str = "other"):
        self.prop = prop
        self.tier = tier
        self.repo = repo
        self.level = level
        self.obligations: list[dict] = []
        self.infos: list[str] = []
        self.assumptions: list[str] = []
        self.extra: dict = {}
        self.explanation = ""
        self.rule_text = ""
        self.trusted_base: list[str] = []
        self._min: dict[str, int] = {}
        self.t0 = time.time()

    # -- obligations ---------------------------------------------------------
    def ob(self, rule: str, construct: str, ok: bool, detail: str = "", *, nontrivial: bool = False,
           witness=None, where: str = ""):
        """Record one evaluated rule instance.

        rule      e.g. 'C07.D3-state-writers'
        construct stable identity: 'module:qualname:<normalised statement or role>'
        """
        self.obligations.append(
            {"rule": rule, "construct": construct, "ok": bool(ok), "detail": detail,
             "nontrivial": bool(nontrivial), "witness": witness, "where": where}
        )
        return bool(ok)

    def require(self, cond, msg: str):
        """Anchor / shape requirement: failure means the analysis cannot run (exit 2)."""
        if not cond:
            raise AnalysisError(msg)
        return cond

    def expect(self, rule: str, minimum: int):
        """At the end of the run the rule must have been evaluated on >= minimum instances."""
        self._min[rule] = max(self._min.get(rule, 0), minimum)

    def info(self, msg: str):
        self.infos.append(msg)

    def assume(self, *msgs: str):
        for m in msgs:
            if m not in self.assumptions:
                self.assumptions.append(m)

    def count(self, rule_prefix: str) -> int:
        return sum(1 for o in self.obligations if o["rule"].startswith(rule_prefix))

    # -- finishing -------------------------------------------------------------
    def check_minimums(self):
        for rule, minimum in self._min.items():
            n = sum(1 for o in self.obligations if o["rule"] == rule)
            if n < minimum:
                raise AnalysisError(
                    f"rule {rule} matched {n} instance(s), fewer than the {minimum} confirmed by hand: "
                    "the anchor pattern no longer matches the code (refusing to pass vacuously)"
                )


def _key(o: dict) -> str:
    return hashlib.sha1((o["rule"] + "|" + o["construct"]).encode()).hexdigest()[:16]


def finish(ctx: Ctx, seed: int = 0) -> int:
    """Match findings against the committed known-findings file, print the verdict lines,
    write the evidence file and return the exit code."""
    ctx.check_minimums()
    known = [k for k in load_known() if k.get("property") == ctx.prop]
    failed = [o for o in ctx.obligations if not o["ok"]]
    # de-duplicate findings by (rule, construct)
    seen = set()
    uniq_failed = []
    for o in failed:
        k = (o["rule"], o["construct"])
        if k not in seen:
            seen.add(k)
            uniq_failed.append(o)
    violations = []
    matched = []
    for o in uniq_failed:
        hit = None
        for k in known:
            if k.get("rule") == o["rule"] and k.get("construct") == o["construct"]:
                hit = k
                break
        if hit is not None:
            matched.append((o, hit))
        else:
            violations.append(o)

    for msg in ctx.infos:
        print(f"INFO property={ctx.prop} {msg}")
    for o, k in matched:
        print(f"KNOWN-FINDING: property={ctx.prop} rule={o['rule']} construct={o['construct']} -- {k.get('what', o['detail'])}")
    replay_paths = []
    outdir = os.path.join(OUT_DIR, ctx.prop)
    if os.path.isdir(outdir):
        for fn in os.listdir(outdir):
            if fn.endswith(".json"):
                os.remove(os.path.join(outdir, fn))
    if violations:
        os.makedirs(outdir, exist_ok=True)
        for o in violations:
            path = os.path.join(outdir, _key(o) + ".json")
            with open(path, "w") as f:
                json.dump(
                    {"property": ctx.prop, "rule": o["rule"], "construct": o["construct"], "where": o["where"],
                     "detail": o["detail"], "witness": o["witness"], "tier": ctx.tier,
                     "source_sha256": ctx.repo.digests()},
                    f, indent=1, default=str)
            replay_paths.append(path)
            print(f"FINDING property={ctx.prop} rule={o['rule']} at {o['where'] or o['construct']}: {o['detail']}")
            print(f"VIOLATION property={ctx.prop} replay={path}")

    n_ob = len(ctx.obligations)
    n_ok = sum(1 for o in ctx.obligations if o["ok"])
    distinct_nt = len({(o["rule"], o["construct"]) for o in ctx.obligations if o["nontrivial"]})
    # samples: every failed obligation + a spread of discharged ones per rule
    samples = []
    per_rule: dict[str, int] = {}
    for o in ctx.obligations:
        if not o["ok"] or per_rule.get(o["rule"], 0) < 2:
            per_rule[o["rule"]] = per_rule.get(o["rule"], 0) + 1
            s = {"rule": o["rule"], "construct": o["construct"], "verdict": "discharged" if o["ok"] else "FAILED"}
            if o["detail"]:
                s["detail"] = o["detail"]
            if o["witness"] is not None:
                s["witness"] = o["witness"]
            samples.append(s)
    rules = sorted({o["rule"] for o in ctx.obligations})
    coverage = {
        "explanation": ctx.explanation,
        "rule": ctx.rule_text or ("one obligation per rule instance (construct) found in the current source; "
                                  "non-trivial = the verdict needed a path / fixpoint / dataflow query rather than a presence test"),
        "obligations": n_ob,
        "discharged": n_ok,
        "evaluations": n_ob,
        "distinct_nontrivial": distinct_nt,
        "samples": samples[:60],
        "rules": {r: sum(1 for o in ctx.obligations if o["rule"] == r) for r in rules},
        "checker_cmd": f"./check {ctx.prop} --tier {ctx.tier}",
        "trusted_base": ctx.trusted_base or [
            "CPython ast parser", "bsa CFG builder and solvers (/verif/bsa)", "asyncio task-switch-at-await contract",
        ],
        "known_findings_matched": [{"rule": o["rule"], "construct": o["construct"]} for o, _ in matched],
        "source_digests": ctx.repo.digests(),
        **ctx.repo.stats(),
        **ctx.extra,
    }
    if ctx.infos:
        coverage["info"] = ctx.infos[:40]
    level = ctx.level
    if level == "proof" and (n_ok != n_ob or n_ob == 0):
        level = "other"  # a proof-level claim needs every obligation discharged
    ev = {
        "property_id": ctx.prop,
        "tier": ctx.tier,
        "seed": seed,
        "level": level,
        "coverage": coverage,
        "assumptions": ctx.assumptions,
        "wall_s": round(time.time() - ctx.t0, 3),
        "violations": len(violations),
    }
    os.makedirs(EVIDENCE_DIR, exist_ok=True)
    with open(os.path.join(EVIDENCE_DIR, f"{ctx.prop}.json"), "w") as f:
        json.dump(ev, f, indent=1, default=str)
        f.write("\n")
    print(f"{ctx.prop} tier={ctx.tier}: {n_ob} obligations, {n_ok} discharged, "
          f"{len(matched)} known finding(s), {len(violations)} violation(s), {ev['wall_s']}s")
    return 1 if violations else 0
