"""Evaluate a boolean test AST under an assignment of its atoms (truth-table reasoning).

Atoms are looked up by their normalised source text; comparisons ``a != b`` / ``a == b`` / ``a is b`` between atoms
and ``not`` / ``and`` / ``or`` are interpreted.  Returns True / False, or None when the test mentions an
unknown atom (then the caller must treat the result as undecided)."""

import ast

from . import astutil as A


def ev(expr, env: dict):
    key = A.norm(expr)
    if key in env:
        return env[key]
    if isinstance(expr, ast.Constant):
        return expr.value
    if isinstance(expr, ast.UnaryOp) and isinstance(expr.op, ast.Not):
        v = ev(expr.operand, env)
        return None if v is None else (not v)
    if isinstance(expr, ast.BoolOp):
        vals = [ev(v, env) for v in expr.values]
        if isinstance(expr.op, ast.And):
            if any(v is False for v in vals):
                return False
            return None if any(v is None for v in vals) else all(vals)
        if any(v is True for v in vals):
            return True
        return None if any(v is None for v in vals) else any(vals)
    if isinstance(expr, ast.Compare) and len(expr.ops) == 1:
        a, b = ev(expr.left, env), ev(expr.comparators[0], env)
        if a is None or b is None:
            return None
        op = expr.ops[0]
        if isinstance(op, (ast.Eq, ast.Is)):
            return a == b
        if isinstance(op, (ast.NotEq, ast.IsNot)):
            return a != b
    if isinstance(expr, ast.IfExp):
        t = ev(expr.test, env)
        return None if t is None else ev(expr.body if t else expr.orelse, env)
    if isinstance(expr, ast.Call) and A.call_name(expr) == "bool" and len(expr.args) == 1:
        return ev(expr.args[0], env)
    return None
