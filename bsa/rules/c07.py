"""C07 - RunEngine lifecycle never takes an illegal transition or gets stuck."""

from __future__ import annotations

import ast

from .. import astutil as A
from .. import q
from ..idioms import cname, where
from ..loader import AnalysisError
from ..re_model import CLS, MOD, REModel
from ..run_tail import RunTail


def d2_must_reach_idle(ctx, rm: REModel, tail: RunTail):
    """Every exit of _run after the state left 'idle' is post-dominated by self._state = 'idle'."""
    idle_writes = [s for s, lit in rm.state_writes(rm.run.node) if lit == "idle"]
    ctx.require(idle_writes, "anchor vanished: self._state = 'idle' in RunEngine._run")
    idle_ids = {id(s) for s in idle_writes}
    g = tail.g
    starts = [v for nid in g.nodes_of(tail.entry_write) for v, _l in g.succ[nid]]
    ctx.require(starts, "the entry write self._state = 'running' is unreachable in the CFG")

    def is_cut(u, label, v):
        # crossing = completing an idle write normally.  The TransitionError edge out of the write
        # itself (setter refusing) is decided precisely, per pre-state, by C07.D1 and not repeated here.
        return u.stmt is not None and id(u.stmt) in idle_ids and (
            not (isinstance(label, tuple) and label[0] == "exc") or label[1] == "TransitionError")

    tail.check_must_complete(ctx, "C07.D2-must-reach-idle", "the assignment self._state = 'idle'", is_cut, starts)


def d3_state_writers(ctx, rm: REModel):
    repo = rm.repo
    n_writers = 0
    for f in repo.all_funcs():
        for s in A.walk_stmts(f.node.body):
            tg = A.targets_of(s)
            for t in tg:
                ch = A.chain(t)
                if ch and ch.endswith("._state") or ch == "_state":
                    n_writers += 1
                    in_re = f.module.name == MOD and f.qualname.startswith(CLS + ".")
                    lit = A.const_str(getattr(s, "value", None))
                    ok = in_re and lit is not None and lit in rm.sm["states"]
                    ctx.ob("C07.D3-state-writers", cname(f, s), ok,
                           "" if ok else ("write to _state outside RunEngine" if not in_re else
                                          "right-hand side is not a literal state name"),
                           where=where(f, s))
        for c in A.calls_in(f.node):
            if isinstance(c.func, ast.Attribute) and c.func.attr in ("force_set", "set_"):
                ctx.ob("C07.D3-no-unchecked-set", cname(f, c), False,
                       f"{c.func.attr}() bypasses / duplicates the checked setter outside the vendored machine",
                       where=where(f, c))
    ctx.expect("C07.D3-state-writers", 10)
    # positive control for the zero-count rule
    ctrl = ast.parse("def f(self):\n    self._state.force_set('idle')\n")
    hits = [c for c in A.calls_in(ctrl.body[0]) if isinstance(c.func, ast.Attribute) and c.func.attr == "force_set"]
    ctx.require(len(hits) == 1, "positive control for C07.D3-no-unchecked-set did not match")
    ctx.ob("C07.D3-no-unchecked-set", "positive-control + package-wide scan", True,
           f"no force_set()/set_() call in {sum(1 for _ in repo.all_funcs())} functions outside _vendor; control snippet matched")

    # the descriptor's __set__ goes through the checking setter under the state lock
    f = repo.func(MOD, "LoggingPropertyMachine.__set__")
    ok = False
    for s in A.walk_stmts(f.node.body):
        if isinstance(s, ast.With) and any("_state_lock" in A.norm(i.context_expr) for i in s.items):
            for c in A.calls_in(s):
                if A.norm(c.func) == "super().__set__":
                    ok = True
    ctx.ob("C07.D3-checked-setter", cname(f, None, "super().__set__ under _state_lock"), ok,
           "" if ok else "LoggingPropertyMachine.__set__ no longer delegates to the checking setter under the lock",
           where=where(f, f.node))
    # the vendored setter refuses transitions that are not in the table
    vf = repo.func("bluesky._vendor.super_state_machine.utils", "set_")
    txt = A.norm(vf.node)
    ok = "can_be_" in txt and "raise" in txt
    ctx.ob("C07.D3-checked-setter", cname(vf, None, "set_ checks can_be_ and raises"), ok,
           "" if ok else "vendored set_ no longer checks the transition table", where=where(vf, vf.node))
    # transitions table sanity: every target is a declared state; terminal tear-down states only go to idle/panicked
    tr, states = rm.sm["transitions"], rm.sm["states"]
    for src, dsts in tr.items():
        ok = src in states and all(d in states for d in dsts)
        ctx.ob("C07.D3-table-closed", f"{MOD}:RunEngineStateMachine.Meta.transitions[{src!r}]", ok,
               "" if ok else "transition table names an undeclared state")
    for s in ("halting", "stopping", "aborting"):
        ok = set(tr.get(s, [])) <= {"idle", "panicked"} and "idle" in tr.get(s, [])
        ctx.ob("C07.D3-teardown-only-to-idle", f"{MOD}:RunEngineStateMachine.Meta.transitions[{s!r}]", ok,
               "" if ok else f"tear-down state {s} must lead to idle (and only to idle / panicked)")
    ok = rm.sm["checkers"].get("can_pause") == "pausing"
    ctx.ob("C07.D3-table-closed", f"{MOD}:RunEngineStateMachine.Meta.named_checkers[can_pause]", ok,
           "" if ok else "can_pause no longer means 'the table allows -> pausing'")


def _guard_dominates(ctx, rule, f, guard_pred, what, effects_pred):
    """In f: a ``if <guard>: raise`` statement precedes (at top level of the body) every effect."""
    body = f.node.body
    guard_idx = None
    for i, s in enumerate(body):
        if isinstance(s, ast.If) and guard_pred(s.test) and any(isinstance(x, ast.Raise) for x in s.body):
            guard_idx = i
            break
    if guard_idx is None:
        ctx.ob(rule, cname(f, None, what), False, f"guard `{what}` with a raise not found at the top level", where=where(f, f.node))
        return
    early = []
    for s in body[:guard_idx]:
        for sub in A.walk_stmts([s]):
            if effects_pred(sub):
                early.append(sub)
    ctx.ob(rule, cname(f, None, what), not early,
           "" if not early else f"effect `{A.head(early[0])}` precedes the guard", nontrivial=True, where=where(f, body[guard_idx]))


def d4_entry_guards(ctx, rm: REModel):
    def writes_or_tasks(s):
        if isinstance(s, (ast.Assign, ast.AugAssign)):
            return any((A.chain(t) or "").startswith("self._") for t in A.targets_of(s))
        if isinstance(s, ast.Expr) and isinstance(s.value, ast.Call):
            cn = A.call_name(s.value) or ""
            return cn.startswith("self._") and not cn.startswith("self._state")
        return False

    _guard_dominates(ctx, "C07.D4-entry-guards", rm.m("__call__"),
                     lambda t: "self._state.is_idle" in A.norm(t) and isinstance(t, ast.UnaryOp), "not self._state.is_idle",
                     writes_or_tasks)
    _guard_dominates(ctx, "C07.D4-entry-guards", rm.m("resume"),
                     lambda t: "self._state.is_paused" in A.norm(t) and isinstance(t, ast.UnaryOp), "not self._state.is_paused",
                     writes_or_tasks)
    for name in ("_abort_coro", "_stop_coro", "_halt_coro"):
        _guard_dominates(ctx, "C07.D4-entry-guards", rm.m(name),
                         lambda t: A.norm(t) == "self._state.is_idle", "self._state.is_idle", writes_or_tasks)
    _guard_dominates(ctx, "C07.D4-entry-guards", rm.m("_request_pause_coro"),
                     lambda t: "can_pause" in A.norm(t) and isinstance(t, ast.UnaryOp), "not self.state.can_pause",
                     writes_or_tasks)
    ctx.expect("C07.D4-entry-guards", 6)


def d5_single_run_task(ctx, rm: REModel):
    """Discharges the model assumption 'one _run task at a time': the launcher creates the task (init_func -> _build_task) only
    after every step of its own that can fail - entering the context managers - has succeeded.  Otherwise a failed launch leaves
    an orphan _run parked on the run permit; the next call starts a second one and both wake on the shared permit
    (running -> running is rejected inside _run; the engine is forced idle while the other task still executes)."""
    rt = rm.m("_resume_task")
    g = q.cfg(rt, q.quiet_policy(rm.repo))
    inits = [s for s in A.walk_stmts(rt.node.body) if isinstance(s, ast.Expr) and isinstance(s.value, ast.Call) and A.call_name(s.value) == "init_func"]
    ctx.require(inits, "anchor vanished: init_func() call in RunEngine._resume_task")
    enters = [s for s in A.walk_stmts(rt.node.body) if isinstance(s, (ast.For, ast.While)) and A.method_calls(s, "enter_context")]
    ok = bool(enters)
    ctx.ob("C07.D5-one-run-task", cname(rt, None, "context managers are entered by the launcher"), ok, "" if ok else "context-manager entry not found", where=where(rt, rt.node))
    for s in inits:
        late = [e for e in enters if any(n in g.reachable(list(g.nodes_of(s))) for n in g.nodes_of(e))]
        ok = bool(enters) and not late
        ctx.ob("C07.D5-one-run-task", cname(rt, s), ok,
               "" if ok else "the _run task is created before the context managers are entered: if one of them raises, the call fails with an orphan _run "
               "parked on the run permit and the next call runs two _run tasks at once", nontrivial=True, where=where(rt, s))
    bt = rm.repo.funcs.get(f"{MOD}:{CLS}.__call__._build_task")
    if bt is not None:
        ok = any(A.find_calls(s, "self._run") for s in A.walk_stmts(bt.node.body)) and any(A.find_calls(s, "self._run_permit.clear") for s in A.walk_stmts(bt.node.body))
        ctx.ob("C07.D5-one-run-task", cname(bt, None, "the task starts parked: permit cleared, then _run scheduled"), ok,
               "" if ok else "_build_task changed", where=where(bt, bt.node))


def run(ctx):
    rm = REModel(ctx.repo)
    tail = RunTail(rm)
    ctx.explanation = (
        "Decided: D1 thread-modular typestate of RunEngine._state over the CFG of _run x request summaries "
        "(every assignment legal for every reachable pre-state); D2 every exit of _run after the state left idle "
        "passes self._state='idle' (CFG with CancelledError/Exception edges); D3 closed-world writers of _state, "
        "checked setter, table closure; D4 guards of the blocking entry points dominate their effects; D5 the launcher creates the _run task only after its own fallible "
        "set-up (context managers) succeeded, which discharges the assumption of a single _run task. "
        "Not decided: real scheduling/timing, KeyboardInterrupt/panicked path, commands added with register_command.")
    ctx.assume("asyncio switches tasks only at await", "one _run task at a time (__call__ requires idle)",
               "OpenTelemetry span calls and logging calls do not raise")
    from .. import typestate
    typestate.check_c07_d1(ctx, rm)
    d2_must_reach_idle(ctx, rm, tail)
    d3_state_writers(ctx, rm)
    d4_entry_guards(ctx, rm)
    d5_single_run_task(ctx, rm)
    ctx.extra.update(tail.g.stats())
    ctx.extra["opaque_calls"] = sorted(tail.pol.opaque)[:40]
    ctx.extra["resolved_callee_summaries"] = {k: sorted(v) for k, v in sorted(tail.pol._summaries.items())}


CLAIM = {'text': "Decides, for every interleaving at await granularity of the five request coroutines with RunEngine._run, that each assignment to _state made by _run (or a handler on its behalf) is in the transition table for every reachable abstract tuple (state, run-permit, resumable, cancel-pending); that every exit of _run passes _state='idle' on every path including CancelledError/Exception edges; that _state is written only by RunEngine with literal states through the checking setter; and that the blocking entry points are guarded. Real timing is not decided; today's tree has the F-1 known findings (engine stuck when a request lands during the epilogue).", 'technique': 'thread-modular typestate fixpoint over a CFG with exceptional edges; post-dominance (must-pass-through); ownership table',
         'note': "Request alphabet: pause, deferred pause, suspend, abort, stop, halt, main-thread permit set; KeyboardInterrupt / 'panicked' path and commands added with register_command are outside the model."}


RE = "run_engine.py"
MUTANTS = [
    ("task created before the context managers are entered (seed C07-b)",
     [(RE, "            for mgr in self.context_managers:\n                stack.enter_context(mgr(self))\n\n            if init_func is not None:\n                init_func()\n", "            if init_func is not None:\n                init_func()\n\n            for mgr in self.context_managers:\n                stack.enter_context(mgr(self))\n")],
     "C07.D5"),
    ("table: idle removed from transitions['pausing']",
     [(RE, '"pausing": ["paused", "idle", "halting", "aborting", "panicked"],', '"pausing": ["paused", "halting", "aborting", "panicked"],')],
     "C07.D1"),
    ("not-resumable branch moves to 'stopping'",
     [(RE, 'stashed_exception = FailedPause()\n\n                        self._state = "aborting"', 'stashed_exception = FailedPause()\n\n                        self._state = "stopping"')],
     "C07.D1"),
    ("guard '== paused' before returning to running dropped",
     [(RE, '                    if self._state == "paused":\n                        # may be called by', '                    if True:\n                        # may be called by')],
     "C07.D1"),
    ("await inserted before the state write of _abort_coro",
     [(RE, '        was_paused = self._state == "paused"\n        self._state = "aborting"\n        if was_paused:\n            with self._state_lock:\n                self._exception = RequestAbort()',
       '        was_paused = self._state == "paused"\n        await asyncio.sleep(0)\n        self._state = "aborting"\n        if was_paused:\n            with self._state_lock:\n                self._exception = RequestAbort()')],
     "C07.D1-request-atomic"),
    ("pause block entered without the assert's state (suspending clears the permit)",
     [(RE, '                    if self._state == "suspending":\n                        # just bounce to the top\n                        continue',
       '                    if self._state == "suspending":\n                        self._run_permit.clear()\n                        continue')],
     "C07.D1"),
    ("_state written from bundlers.py",
     [("bundlers.py", "        self.bundling = False\n\n    async def unmonitor", "        self.bundling = False\n        self._state = \"idle\"\n\n    async def unmonitor")],
     "C07.D3"),
    ("final idle write made conditional",
     [(RE, '            self._state = "idle"\n\n        self.log.info("Cleaned up', '            if not self._interrupted:\n                self._state = "idle"\n\n        self.log.info("Cleaned up')],
     "C07.D2"),
    ("unstage in the cleanup no longer isolated",
     [(RE, '                try:\n                    obj.unstage()\n                except Exception:\n                    self.log.exception("Failed to unstage %r.", obj)\n                self._staged.remove(obj)',
       '                obj.unstage()\n                self._staged.remove(obj)')],
     "C07.D2"),
    ("force_set used to leave a state",
     [(RE, '        self._clear_run_cache()\n        self._clear_call_cache()\n        self.dispatcher.unsubscribe_all()', '        self._state.force_set("idle")\n        self._clear_run_cache()\n        self._clear_call_cache()\n        self.dispatcher.unsubscribe_all()')],
     "C07.D3"),
    ("__call__ no longer refuses when not idle",
     [(RE, '        if not self._state.is_idle:\n            raise RuntimeError(f"The RunEngine is in a {self._state} state")', '        if False:\n            raise RuntimeError(f"The RunEngine is in a {self._state} state")')],
     "C07.D4"),
    ("stop accepted from idle",
     [(RE, '    async def _stop_coro(self):\n        if self._state.is_idle:\n            raise TransitionError("RunEngine is already idle.")', '    async def _stop_coro(self):\n        if self._state.is_idle:\n            pass')],
     "C07.D4"),
    ("setter no longer delegates to the checking machine",
     [(RE, "        with obj._state_lock:\n            super().__set__(obj, value)\n        value = self.__get__(obj, own)", "        with obj._state_lock:\n            self.memory[obj] = value\n        value = self.__get__(obj, own)")],
     "C07.D3"),
    ("suspending may no longer return to running",
     [(RE, '"suspending": ["running", "halting", "aborting", "panicked"],', '"suspending": ["halting", "aborting", "panicked"],')],
     "C07.D1"),
    ("CancelledError handler sends a halting engine back to the loop as 'running'",
     [(RE, '                            stashed_exception = exception_map[self.state]\n                        continue',
       '                            stashed_exception = exception_map[self.state]\n                        self._state = "running"\n                        continue')],
     "C07.D1"),
]
BENIGN = [
    ("extra logging in the cleanup",
     [(RE, "            sys.stdout.flush()\n            # Emit RunStop if necessary.", "            sys.stdout.flush()\n            self.log.debug(\"closing runs\")\n            # Emit RunStop if necessary.")]),
    ("pause request coroutine reordered (independent statements)",
     [(RE, "        self._deferred_pause_requested = False\n        self._interrupted = True\n        self._state = \"pausing\"", "        self._interrupted = True\n        self._deferred_pause_requested = False\n        self._state = \"pausing\"")]),
    ("membership test instead of chained comparison",
     [(RE, '                if self._state in ("pausing", "suspending"):\n                    if not self.resumable:', '                if self._state == "pausing" or self._state == "suspending":\n                    if not self.resumable:')]),
]
