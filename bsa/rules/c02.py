"""C02 - exit status, reason and raised exception reflect how the run ended."""

from __future__ import annotations

import ast

from .. import astutil as A
from .. import q
from ..idioms import cname, where
from ..re_model import BCLS, BMOD, CLS, MOD, REModel
from . import c08

UT = "bluesky.utils"
PP = "bluesky.preprocessors"

# oracle written from the property statement: how the plan ended -> RunStop.exit_status
ORACLE = {
    "StopIteration": "success",   # normal completion
    "RequestStop": "success",     # RE.stop()
    "RequestAbort": "abort",      # RE.abort()
    "PlanHalt": "abort",          # RE.halt()
    "FailedPause": "abort",       # pause / suspension in a non-resumable section
    "CancelledError": "abort",
    "Exception": "fail",          # unhandled plan / device error
}
REQUEST_STATE = {"_stop_coro": "stopping", "_abort_coro": "aborting", "_halt_coro": "halting"}
STATE_EXC = {"stopping": "RequestStop", "aborting": "RequestAbort", "halting": "PlanHalt"}


def ladder(rm: REModel):
    """[(classes, status literal, handler)] of the outer try of _run, in order."""
    out = []
    for h in rm.outer_try.handlers:
        classes = []
        if h.type is None:
            classes = ["BaseException"]
        else:
            for e in (h.type.elts if isinstance(h.type, ast.Tuple) else [h.type]):
                classes.append(rm.hier.kind_of_name(A.chain(e) or "?"))
        status = None
        for s in h.body:
            if isinstance(s, ast.Assign) and A.chain(s.targets[0]) == "self._exit_status":
                status = A.const_str(s.value)
                break
        out.append((classes, status, h))
    return out


LEGAL_EXIT_STATUS = ("success", "abort", "fail")  # event-model's RunStop schema


def control_exception_statuses_legal(ctx, rm: REModel, rule: str):
    """run_wrapper closes the run with `e.exit_status` for EVERY RunEngineControlException: each class of that family (whatever
    it is called, wherever in the package) must carry one of the three statuses a RunStop may have - anything else makes
    ComposeStop fail after it has latched "already composed", and the run never gets its RunStop."""
    repo = rm.repo
    fam = {}
    changed = True
    classes = {k: c for k, c in repo.classes.items()}
    while changed:
        changed = False
        for k, c in classes.items():
            if k in fam:
                continue
            bases = [b.split(".")[-1] for b in c.base_names]
            if "RunEngineControlException" in bases or any(b in {x.split(":")[-1].split(".")[-1] for x in fam} for b in bases):
                fam[k] = c
                changed = True
    n = 0
    for k, c in sorted(fam.items()):
        status, cur = None, c
        seen = set()
        while cur is not None and id(cur) not in seen and status is None:
            seen.add(id(cur))
            for s_ in cur.node.body:
                if isinstance(s_, (ast.Assign, ast.AnnAssign)) and A.chain(s_.targets[0] if isinstance(s_, ast.Assign) else s_.target) == "exit_status":
                    status = A.const_str(s_.value)
            nxt = [x for kk, x in classes.items() if kk.split(":")[-1].split(".")[-1] in [b.split(".")[-1] for b in cur.base_names] and kk in fam]
            cur = nxt[0] if nxt else None
        ok = status in LEGAL_EXIT_STATUS
        n += 1
        ctx.ob(rule, f"{k}.exit_status is a legal RunStop status", ok,
               "" if ok else f"exit_status is {status!r}: run_wrapper passes it to close_run, the stop document fails validation after ComposeStop has latched, and the run is "
               "left without a RunStop", nontrivial=True, where=c.module.path if hasattr(c, "module") else "")
    ctx.require(n >= 2, "anchor vanished: the RunEngineControlException family (RequestAbort, RequestStop, ...) in the package")


def d1_tables(ctx, rm: REModel):
    lad = ladder(rm)
    ctx.require(len(lad) >= 2, "anchor vanished: the except ladder of RunEngine._run")
    run = rm.run
    for kind, want in ORACLE.items():
        got, by = None, None
        for classes, status, h in lad:
            m, _ = rm.hier.match(kind, classes)
            if m == "yes":
                got, by = status, h
                break
        ok = got == want
        ctx.ob("C02.D1-ladder", f"{run.key}:outer except ladder[{kind}]", ok,
               f"first matching handler `{A.head(by)}` sets {got!r}" if ok else
               f"{kind} ends in `{A.head(by) if by is not None else 'no handler'}` which records exit_status {got!r}, expected {want!r}",
               nontrivial=True, where=where(run, by if by is not None else rm.outer_try))
    # the fail handler records the exception text as reason and re-raises the exception itself
    for classes, status, h in lad:
        if "Exception" in classes:
            txt = A.norm(h)
            name = h.name
            ok_reason = any(isinstance(s, ast.Assign) and A.chain(s.targets[0]) == "exit_reason" and A.norm(s.value) == f"str({name})" for s in h.body)
            # (a handler shared with GeneratorExit re-raises under the branch for ordinary exceptions)
            ok_raise = any(isinstance(s, ast.Raise) and (s.exc is None or A.chain(s.exc) == name) for s in A.walk_stmts(h.body))
            ctx.ob("C02.D1-fail-reason", cname(run, h, "except Exception: exit_reason = str(err)"), ok_reason,
                   "" if ok_reason else "the failing exception's text is no longer recorded as the reason", where=where(run, h))
            ctx.ob("C02.D1-fail-reraise", cname(run, h, "except Exception: re-raise"), ok_raise,
                   "" if ok_raise else "an unhandled exception is swallowed instead of ending the call with that exception", where=where(run, h))
    # exception_map in the CancelledError handler of the loop
    # the table state -> exception looked up with the engine's state in the message loop: a dict literal bound to a local (anywhere
    # in _run), a class-level constant, or written in place
    emap, emap_stmt = None, None
    for n in ast.walk(rm.loop):
        if isinstance(n, ast.Subscript) and A.norm(n.slice) in ("self.state", "self._state"):
            tbl, where_ = None, None
            if isinstance(n.value, ast.Dict):
                tbl, where_ = n.value, n
            elif isinstance(n.value, ast.Name):
                defs = [s_ for s_ in A.walk_stmts(run.node.body) if isinstance(s_, ast.Assign) and any(isinstance(t, ast.Name) and t.id == n.value.id for t in s_.targets)]
                if len(defs) == 1 and isinstance(defs[0].value, ast.Dict):
                    tbl, where_ = defs[0].value, defs[0]
            elif isinstance(n.value, ast.Attribute) and isinstance(n.value.value, ast.Name) and n.value.value.id in ("self", "RunEngine", "cls"):
                for cs_ in rm.cls.node.body:
                    if isinstance(cs_, (ast.Assign, ast.AnnAssign)) and A.chain(cs_.targets[0] if isinstance(cs_, ast.Assign) else cs_.target) == n.value.attr \
                            and isinstance(cs_.value, ast.Dict):
                        tbl, where_ = cs_.value, cs_
            if tbl is not None:
                emap = {A.const_str(k): A.chain(v) for k, v in zip(tbl.keys, tbl.values)}
                emap_stmt = where_
    ctx.require(emap is not None, "anchor vanished: exception_map in the CancelledError handler of _run")
    for st, exc in STATE_EXC.items():
        ok = emap.get(st) == exc
        ctx.ob("C02.D1-exception-map", f"{run.key}:exception_map[{st!r}]", ok,
               "" if ok else f"state {st!r} is mapped to {emap.get(st)!r}, expected {exc}", where=where(run, emap_stmt))
    # requests -> states ; paused branch stores the matching exception
    for fn, state in REQUEST_STATE.items():
        f = rm.m(fn)
        lits = [lit for _s, lit in rm.state_writes(f.node)]
        ok = lits == [state]
        ctx.ob("C02.D1-request-state", cname(f, None, f"moves to {state!r}"), ok, "" if ok else f"writes states {lits}", where=where(f, f.node))
        stored = []
        for s in A.walk_stmts(f.node.body):
            if isinstance(s, ast.Assign) and A.chain(s.targets[0]) == "self._exception":
                v = q.expand(f.node, s.value)  # the value may have been given a name first
                stored.append(A.chain(v.func) if isinstance(v, ast.Call) else A.chain(v))
        ok = stored == [STATE_EXC[state]]
        ctx.ob("C02.D1-request-state", cname(f, None, f"paused branch stores {STATE_EXC[state]}"), ok,
               "" if ok else f"stores {stored}", where=where(f, f.node))
    # class attributes used by run_wrapper
    for clsname, want in (("RequestAbort", "abort"), ("RequestStop", "success")):
        c = rm.repo.cls(UT, clsname)
        got = None
        for s in c.node.body:
            if isinstance(s, ast.Assign) and A.chain(s.targets[0]) == "exit_status":
                got = A.const_str(s.value)
        ok = got == want
        ctx.ob("C02.D1-control-exception-status", f"{UT}:{clsname}.exit_status", ok, "" if ok else f"{got!r}, expected {want!r}")
        ok = "RunEngineControlException" in c.base_names
        ctx.ob("C02.D1-control-exception-status", f"{UT}:{clsname} bases", ok, "" if ok else "no longer a RunEngineControlException")
    control_exception_statuses_legal(ctx, rm, "C02.D1-control-exception-status")
    # run_wrapper: except_plan / else_plan
    rw = rm.repo.func(PP, "run_wrapper")
    ep = rm.repo.func(PP, "run_wrapper.except_plan")
    ifs = [s for s in ep.node.body if isinstance(s, ast.If)]
    ok = False
    # decided per case (control exception or not) on the specialised body: exactly one close_run with the documented arguments
    pname = ep.node.args.args[0].arg if ep.node.args.args else "e"
    case_ok = []
    for is_ctrl in (True, False):
        env_ = {f"isinstance({pname}, RunEngineControlException)": is_ctrl, f"not isinstance({pname}, RunEngineControlException)": not is_ctrl}
        flat_ = list(A.walk_stmts(q.specialise(A.body(ep.node), env_)))
        calls_ = [(st_, c) for st_ in flat_ for c in A.calls_in(st_) if A.call_name(c) == "close_run"]
        first_ret = next((i for i, st_ in enumerate(flat_) if isinstance(st_, ast.Return)), len(flat_))
        calls_ = [(st_, c) for st_, c in calls_ if flat_.index(st_) <= first_ret]
        if len(calls_) != 1:
            case_ok.append(False)
            continue
        st_, c = calls_[0]
        es = A.kw(c, "exit_status")
        rs = A.kw(c, "reason")
        es_t = A.norm(q.straight_line_value(flat_[:flat_.index(st_)], es)) if es is not None else None
        rs_t = A.norm(q.straight_line_value(flat_[:flat_.index(st_)], rs)) if rs is not None else "None"
        case_ok.append((es_t == f"{pname}.exit_status" and rs_t == "None") if is_ctrl else (es_t == "'fail'" and rs_t == f"str({pname})"))
    if all(case_ok):
        ok = True
    elif ifs and "isinstance(e, RunEngineControlException)" in A.norm(ifs[0].test):
        t_calls = A.find_calls(ast.Module(body=ifs[0].body, type_ignores=[]), "close_run")
        f_calls = A.find_calls(ast.Module(body=ifs[0].orelse, type_ignores=[]), "close_run")
        ok = (len(t_calls) == 1 and A.norm(A.kw(t_calls[0], "exit_status")) == "e.exit_status"
              and len(f_calls) == 1 and A.const_str(A.kw(f_calls[0], "exit_status")) == "fail" and A.norm(A.kw(f_calls[0], "reason")) == "str(e)")
    ctx.ob("C02.D1-run-wrapper-status", cname(ep, None, "control exception -> e.exit_status ; otherwise 'fail' with reason=str(e)"), ok,
           "" if ok else "run_wrapper.except_plan no longer maps the outcome to the documented exit_status / reason", where=where(ep, ep.node))
    cw = A.find_calls(rw.node, "contingency_wrapper")
    ok = len(cw) == 1 and A.norm(A.kw(cw[0], "except_plan")) == "except_plan" and A.norm(A.kw(cw[0], "else_plan")) == "close_run" \
        and A.kw(cw[0], "auto_raise") is None
    ctx.ob("C02.D1-run-wrapper-status", cname(rw, None, "contingency_wrapper(plan, except_plan=except_plan, else_plan=close_run)"), ok,
           "" if ok else "run_wrapper no longer closes the run through except_plan / else_plan (or suppresses the re-raise)", where=where(rw, rw.node))


def d2_status_reaches_stop(ctx, rm: REModel):
    run = rm.run
    calls = [c for c in A.find_calls(ast.Module(body=rm.outer_try.finalbody, type_ignores=[]), "close_run")]
    ctx.require(calls, "anchor vanished: close_run in the finally of _run")
    msg = calls[0].args[0] if calls[0].args else None
    ok = isinstance(msg, ast.Call) and A.norm(A.kw(msg, "exit_status")) == "self._exit_status" and A.norm(A.kw(msg, "reason")) == "exit_reason"
    ctx.ob("C02.D2-status-reaches-stop", cname(run, None, "cleanup close_run(exit_status=self._exit_status, reason=exit_reason)"), ok,
           "" if ok else "the engine's own close_run no longer passes the recorded status / reason", where=where(run, calls[0]))
    # every ladder handler assigns the status before anything else can fail
    for classes, status, h in ladder(rm):
        ok = status is not None and isinstance(h.body[0], ast.Assign) and A.chain(h.body[0].targets[0]) == "self._exit_status"
        ctx.ob("C02.D2-status-assigned-first", cname(run, h), ok, "" if ok else "the handler does not start by recording the exit status", where=where(run, h))
    # exit_reason falls back to the reason given to abort()
    # decided by evaluating the statement in both cases (reason recorded / not recorded), whatever way it is written:
    # `if not exit_reason: exit_reason = self._reason`, `exit_reason = exit_reason or self._reason`, a conditional expression ...
    def truth(e, given):
        if isinstance(e, ast.Name) and e.id == "exit_reason":
            return given
        if isinstance(e, ast.UnaryOp) and isinstance(e.op, ast.Not):
            t = truth(e.operand, given)
            return None if t is None else not t
        if isinstance(e, ast.Compare) and len(e.ops) == 1 and isinstance(e.left, ast.Name) and e.left.id == "exit_reason" \
                and isinstance(e.comparators[0], ast.Constant) and e.comparators[0].value in ("", None) and isinstance(e.ops[0], (ast.Eq, ast.NotEq, ast.Is, ast.IsNot)):
            if e.comparators[0].value is None:
                return None
            return (not given) if isinstance(e.ops[0], ast.Eq) else given if isinstance(e.ops[0], ast.NotEq) else None
        return None

    def value(e, given):
        if isinstance(e, ast.Name) and e.id == "exit_reason":
            return "recorded"
        if A.norm(e) == "self._reason":
            return "fallback"
        if isinstance(e, ast.BoolOp) and isinstance(e.op, ast.Or) and len(e.values) == 2:
            t = truth(e.values[0], given)
            return None if t is None else value(e.values[0], given) if t else value(e.values[1], given)
        if isinstance(e, ast.IfExp):
            t = truth(e.test, given)
            return None if t is None else value(e.body if t else e.orelse, given)
        return None

    def after(st, given):
        if isinstance(st, ast.Assign) and len(st.targets) == 1 and A.chain(st.targets[0]) == "exit_reason":
            return value(st.value, given)
        if isinstance(st, ast.If):
            t = truth(st.test, given)
            if t is None:
                return None
            cur = "recorded"
            for x in (st.body if t else st.orelse):
                if isinstance(x, ast.Assign) and any(A.chain(tg) == "exit_reason" for tg in x.targets):
                    cur = after(x, given)
            return cur
        return "recorded"
    i_close = next((i for i, st in enumerate(rm.outer_try.finalbody) if any(c in calls for c in A.calls_in(st, local=False))), len(rm.outer_try.finalbody))
    fb = [st for st in rm.outer_try.finalbody[:i_close] if after(st, True) == "recorded" and after(st, False) == "fallback"]
    ctx.ob("C02.D2-status-reaches-stop", cname(run, None, "exit_reason falls back to self._reason"), bool(fb),
           "" if fb else "the reason passed to abort() no longer reaches the RunStop", where=where(run, rm.outer_try))
    ab = rm.m("_abort_coro")
    ok = any(isinstance(s, ast.Assign) and A.chain(s.targets[0]) == "self._reason" and A.norm(s.value) == "reason" for s in ab.node.body)
    ctx.ob("C02.D2-status-reaches-stop", cname(ab, None, "self._reason = reason"), ok, "" if ok else "abort(reason) no longer records the reason", where=where(ab, ab.node))
    # bundler: kwargs -> compose_stop
    cr = rm.b("close_run")
    g = q.cfg(cr, q.quiet_policy(rm.repo))
    cs = A.find_calls(cr.node, "_compose_stop")
    ctx.require(cs, "anchor vanished: _compose_stop call in RunBundler.close_run")
    # what reaches compose_stop, as a function of the close_run message's keyword arguments: the values are traced through the
    # function's straight-line assignments and then EVALUATED for the cases key present / present-but-None / absent
    import copy as _copy

    def outcome(kwname, present):
        """close_run interpreted statement by statement (assignments to locals, ifs) for a message whose kwargs are `present`; -> what
        the keyword argument of compose_stop evaluates to"""
        e = A.kw(cs[0], kwname)
        if e is None:
            return "<missing>"
        env = {}
        aliases = set()  # locals standing for msg.kwargs

        def val(expr):
            class Sub(ast.NodeTransformer):
                def visit_Name(self, n):
                    if isinstance(n.ctx, ast.Load) and n.id in env:
                        return ast.Constant(value=env[n.id])
                    if isinstance(n.ctx, ast.Load) and n.id in aliases:
                        return ast.Attribute(value=ast.Name(id="msg", ctx=ast.Load()), attr="kwargs", ctx=ast.Load())
                    return n
            return q.eval_lookup(ast.fix_missing_locations(Sub().visit(_copy.deepcopy(expr))), "msg.kwargs", present)

        class Stop(Exception):
            pass

        def block(stmts):
            for st_ in stmts:
                if any(c is cs[0] for c in ast.walk(st_)):
                    raise Stop()
                tgt_ = st_.targets[0] if isinstance(st_, ast.Assign) and len(st_.targets) == 1 else (st_.target if isinstance(st_, ast.AnnAssign) and st_.value is not None else None)
                if isinstance(tgt_, ast.Name):
                    if A.norm(st_.value) == "msg.kwargs":
                        aliases.add(tgt_.id)
                        continue
                    aliases.discard(tgt_.id)
                    try:
                        env[tgt_.id] = val(st_.value)
                    except (ValueError, KeyError):
                        env.pop(tgt_.id, None)
                elif isinstance(st_, ast.If):
                    try:
                        t = val(st_.test)
                    except (ValueError, KeyError):
                        touched = {t_.id for x in A.walk_stmts(st_.body + st_.orelse) for t_ in A.targets_of(x) if isinstance(t_, ast.Name)}
                        for nm in touched:
                            env[nm] = "<unknown guard>"
                        continue
                    block(st_.body if t else st_.orelse)
        try:
            block(cr.node.body)
        except Stop:
            pass
        try:
            return val(e)
        except (ValueError, KeyError) as ex:
            return f"<{type(ex).__name__}>"
    S = q._Sym("given")
    exp = {"exit_status": [({"exit_status": S}, S), ({"exit_status": None}, "success"), ({}, "success")],
           "reason": [({"reason": S}, S), ({"reason": None}, ""), ({}, "")]}
    bad = []
    for kwname, cases in exp.items():
        for present, want in cases:
            got = outcome(kwname, present)
            if got is not want and got != want:
                bad.append(f"{kwname} with message kwargs {present!r}: compose_stop gets {got!r}, expected {want!r}")
    ok = defs_ok = not bad
    ctx.ob("C02.D2-status-reaches-stop", cname(cr, None, "compose_stop(exit_status=<msg kwarg or 'success'>, reason=<msg kwarg or ''>), evaluated on 6 cases"), ok,
           "" if ok else "; ".join(bad[:2]), nontrivial=True, where=where(cr, cs[0]))
    ok = not any(b.startswith("exit_status") for b in bad)
    ctx.ob("C02.D2-status-reaches-stop", cname(cr, None, "missing / None exit_status means 'success'"), ok,
           "" if ok else "the default exit_status of close_run is no longer 'success'", where=where(cr, cs[0]))


def d4_failed_status(ctx, rm: REModel):
    f = rm.m("_status_object_completed")
    tries = [s for s in A.walk_stmts(f.node.body) if isinstance(s, ast.Try)]
    ok = False
    for t in tries:
        raises = [s for s in t.body if isinstance(s, ast.Raise)]
        if raises and isinstance(raises[0].exc, ast.Call) and A.call_name(raises[0].exc) == "FailedStatus" and raises[0].cause is not None:
            cause = A.chain(raises[0].cause)
            src = next((s for s in t.body if isinstance(s, ast.Assign) and A.chain(s.targets[0]) == cause), None)
            from_dev = src is not None and ".exception(" in A.norm(src.value)
            hs = [h for h in t.handlers if h.type is not None and A.norm(h.type) == "Exception" and h.name]
            if hs and from_dev:
                body = A.norm(ast.Module(body=hs[0].body, type_ignores=[]))
                ok = f"self._exception = {hs[0].name}" in body and f"fut.set_exception({hs[0].name})" in body
    ctx.ob("C02.D4-failed-status", cname(f, None, "raise FailedStatus(ret) from <status exception>; stored in _exception and the group future"), ok,
           "" if ok else "a failed status no longer surfaces as FailedStatus chained to the device's exception in both channels", nontrivial=True, where=where(f, f.node))
    guard = [s for s in f.node.body if isinstance(s, ast.If) and "not ret.success" in A.norm(s.test) and "pardon_failures.is_set()" in A.norm(s.test)]
    ctx.ob("C02.D4-failed-status", cname(f, None, "only unsuccessful, un-pardoned statuses fail"), bool(guard),
           "" if guard else "the success / pardon test of _status_object_completed changed", where=where(f, f.node))
    rt = rm.m("_resume_task")
    ok = any(isinstance(s, ast.Raise) and A.chain(s.exc) == "exc" for s in A.walk_stmts(rt.node.body))
    ctx.ob("C02.D4-task-exception-reraised", cname(rt, None, "raise exc"), ok,
           "" if ok else "_resume_task no longer re-raises the exception the task ended with", where=where(rt, rt.node))


def run(ctx):
    rm = REModel(ctx.repo)
    # a status that fails while the plan is still running reaches the plan (and so the exit status): failures are pardoned only at teardown
    # (seeds C02-b, C02-c)
    from . import c12

    q.relabelled(ctx, "C12.D5", "C02.D3", c12.d5_pardon_only_when_call_is_over, rm)
    ctx.explanation = (
        "Decided: D1 composition of the tables read from source against the oracle written from the statement (outer except "
        "ladder of _run with shadowing resolved through the class hierarchy; exception_map; request -> state -> stored "
        "exception; RequestAbort/RequestStop.exit_status; run_wrapper except/else plans); D2 the recorded status and reason "
        "reach the stop document (def-use through the cleanup close_run and RunBundler.close_run); D3 RunEngineInterrupted is "
        "raised iff the interruption flag is set (shared with C08.D1); D4 a failed status becomes FailedStatus chained to the "
        "device exception and the task's exception is re-raised. Not decided: which status a given schedule produces.")
    d1_tables(ctx, rm)
    q.per_call_reset(ctx, rm, "C02.D2-status-reset-per-call", ["_exit_status", "_reason", "_exception"])
    d2_status_reaches_stop(ctx, rm)
    n0 = len(ctx.obligations)
    c08.d1_raise_iff_interrupted(ctx, rm)
    for o in ctx.obligations[n0:]:
        o["rule"] = o["rule"].replace("C08.D1", "C02.D3")
    ctx._min = {k.replace("C08.D1", "C02.D3"): v for k, v in ctx._min.items()}
    d4_failed_status(ctx, rm)


CLAIM = {'text': "Decides that the tables which turn 'how the plan ended' into exit_status / reason / raised exception compose to the documented outcome: the except ladder of _run (with handler shadowing resolved through the exception class hierarchy), the state->exception map, the request coroutines' target states and stored exceptions, the exit_status of every class of the RunEngineControlException family (closed world over the class hierarchy; each must be a status RunStop has), run_wrapper's except/else plans, the def-use chain from the recorded status to compose_stop, the FailedStatus chaining, and that status failures are pardoned only at teardown. Which status a given schedule produces is not decided.", 'technique': 'table agreement against an oracle written from the statement; exception-hierarchy shadowing; def-use'}


RE = "run_engine.py"
MUTANTS = [
    ("FailedPause made a control exception with a status RunStop does not have (seed C01-c)",
     [("utils/__init__.py", "class FailedPause(Exception):\n    pass\n", "class FailedPause(RunEngineControlException):\n    exit_status = \"aborted\"\n")], "C02.D1"),
    ("new control exception with an illegal status",
     [("utils/__init__.py", "class RunEngineInterrupted(Exception):\n    pass\n", "class RequestHalt(RequestStop):\n    exit_status = \"halted\"\n\n\nclass RunEngineInterrupted(Exception):\n    pass\n")], "C02.D1"),
    ("reason fallback inverted (the abort reason replaces a recorded failure text)",
     [(RE, "            if not exit_reason:\n                exit_reason = self._reason", "            if exit_reason:\n                exit_reason = self._reason")], "C02.D2"),
    ("reason fallback written with `and` instead of `or`",
     [(RE, "            if not exit_reason:\n                exit_reason = self._reason", "            exit_reason = exit_reason and self._reason")], "C02.D2"),
    ("RequestStop recorded as abort",
     [(RE, "        except RequestStop:\n            self._exit_status = \"success\"", "        except RequestStop:\n            self._exit_status = \"abort\"")], "C02.D1"),
    ("exception_map sends 'stopping' to RequestAbort",
     [(RE, '"stopping": RequestStop, "aborting": RequestAbort}', '"stopping": RequestAbort, "aborting": RequestAbort}')], "C02.D1"),
    ("RequestAbort.exit_status says success",
     [("utils/__init__.py", '    """Request that the current run be aborted."""\n\n    exit_status = "abort"', '    """Request that the current run be aborted."""\n\n    exit_status = "success"')], "C02.D1"),
    ("except Exception moved above except RequestStop",
     [(RE, "        except RequestStop:\n            self._exit_status = \"success\"\n            # TODO Is the sleep here necessary?\n            await asyncio.sleep(0, **self._loop_for_kwargs)\n",
       "        except Exception as err0:\n            self._exit_status = \"fail\"\n            exit_reason = str(err0)\n            raise err0\n        except RequestStop:\n            self._exit_status = \"success\"\n            # TODO Is the sleep here necessary?\n            await asyncio.sleep(0, **self._loop_for_kwargs)\n")], "C02.D1"),
    ("cleanup close_run drops the reason",
     [(RE, 'Msg("close_run", exit_status=self._exit_status, reason=exit_reason, run_id=key)', 'Msg("close_run", exit_status=self._exit_status, run_id=key)')], "C02.D2"),
    ("failure reason not recorded",
     [(RE, "        except Exception as err:\n            self._exit_status = \"fail\"  # Exception raises during 'running'\n            exit_reason = str(err)\n            self.log.exception(\"Run aborted\")\n            raise err",
       "        except Exception as err:\n            self._exit_status = \"fail\"  # Exception raises during 'running'\n            self.log.exception(\"Run aborted\")\n            raise err")], "C02.D1"),
    ("unhandled exception swallowed",
     [(RE, "            exit_reason = str(err)\n            self.log.exception(\"Run aborted\")\n            raise err", "            exit_reason = str(err)\n            self.log.exception(\"Run aborted\")")], "C02.D1"),
    ("FailedStatus not chained",
     [(RE, "                    raise FailedStatus(ret) from exc", "                    raise FailedStatus(ret)")], "C02.D4"),
    ("halt on paused stores RequestAbort",
     [(RE, "                self._exception = PlanHalt\n", "                self._exception = RequestAbort\n")], "C02.D1"),
    ("run_wrapper marks every failure as abort",
     [("preprocessors.py", 'yield from close_run(exit_status="fail", reason=str(e))', 'yield from close_run(exit_status="abort", reason=str(e))')], "C02.D1"),
    ("bundler defaults exit_status to abort",
     [("bundlers.py", 'msg.kwargs.get("exit_status", "success") or "success"', 'msg.kwargs.get("exit_status", "success") or "abort"')], "C02.D2"),
    ("stop() now tears down as aborting",
     [(RE, "        was_paused = self._state == \"paused\"\n        self._state = \"stopping\"", "        was_paused = self._state == \"paused\"\n        self._state = \"aborting\"")], "C02.D1"),
]
BENIGN = [
    ("new control exception with a legal status", [("utils/__init__.py", "class RunEngineInterrupted(Exception):\n    pass\n", "class RequestFail(RunEngineControlException):\n    exit_status = \"fail\"\n\n\nclass RequestFail2(RequestFail):\n    pass\n\n\nclass RunEngineInterrupted(Exception):\n    pass\n")]),
    ("reason fallback written with `or`",
     [(RE, "            if not exit_reason:\n                exit_reason = self._reason", "            exit_reason = exit_reason or self._reason")]),
    ("reason fallback written as a conditional expression",
     [(RE, "            if not exit_reason:\n                exit_reason = self._reason", "            exit_reason = self._reason if not exit_reason else exit_reason")]),
    ("ladder handler gains a log line after the status",
     [(RE, "        except RequestStop:\n            self._exit_status = \"success\"\n", "        except RequestStop:\n            self._exit_status = \"success\"\n            self.log.debug(\"stopped\")\n")]),
]
