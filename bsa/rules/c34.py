"""C34 - JSON writers produce files that parse back to the documents."""

from __future__ import annotations

import ast

from .. import astutil as A
from .. import q
from ..idioms import cname, where

JW = "bluesky.callbacks.json_writer"


def tokens(with_stmt):
    """sequence of ('W', const) / ('REC',) writes inside a `with open(...)` block"""
    out = []
    for s in with_stmt.body:
        if isinstance(s, ast.Expr) and isinstance(s.value, ast.Call):
            cn = A.call_name(s.value)
            if cn == "file.write" and len(s.value.args) == 1 and isinstance(s.value.args[0], ast.Constant):
                out.append(("W", s.value.args[0].value))
            elif cn == "json.dump":
                rec = A.norm(s.value.args[0]) if s.value.args else "?"
                out.append(("REC", rec))
            else:
                out.append(("?", A.norm(s)))
        else:
            out.append(("?", A.norm(s)))
    return out


def open_mode(with_stmt):
    c = with_stmt.items[0].context_expr
    if isinstance(c, ast.Call) and A.call_name(c) == "open" and len(c.args) >= 2:
        return A.norm(c.args[1]), A.norm(c.args[0])
    return None, None


def run(ctx):
    repo = ctx.repo
    ctx.explanation = (
        "Decided: D1 token grammar of JSONWriter: per branch the sequence of constant writes and json.dump calls gives, for the document "
        "sequence start other* stop, the text `[ REC (, REC)* ]` with every record {name, doc}: start writes '[', REC, ','; every other "
        "document writes REC, ','; stop writes REC, ']' - so separators and brackets balance; D2 modes: only the start branch truncates "
        "('w'); the others append to the same path; JSONLinesWriter opens with 'a' when the file exists and writes exactly one REC and one "
        "newline per document; the filename is fixed once. Not decided: JSON serialisability of arbitrary documents.")
    jw = repo.func(JW, "JSONWriter.__call__")
    top = [s for s in jw.node.body if isinstance(s, ast.If)]
    ctx.require(top, "anchor vanished: the if/elif ladder of JSONWriter.__call__")
    branches = {}
    node = top[0]
    while True:
        test = A.norm(node.test)
        w = [x for x in node.body if isinstance(x, ast.With)]
        branches[test] = w[0] if w else None
        if node.orelse and len(node.orelse) == 1 and isinstance(node.orelse[0], ast.If):
            node = node.orelse[0]
            continue
        w = [x for x in node.orelse if isinstance(x, ast.With)]
        branches["else"] = w[0] if w else None
        break
    want = {
        "name == 'start'": ([("W", "[\n"), ("REC",), ("W", ",\n")], "'w'"),
        "name == 'stop'": ([("REC",), ("W", "\n]")], "'a'"),
        "else": ([("REC",), ("W", ",\n")], "'a'"),
    }
    paths = set()
    for test, (toks, mode) in want.items():
        w = branches.get(test)
        if w is None:
            ctx.ob("C34.D1-array-grammar", cname(jw, None, f"branch {test}"), False, "branch / with-open block not found", where=where(jw, jw.node))
            continue
        got = tokens(w)
        shape = [(t[0],) if t[0] == "REC" else t for t in got]
        ok = shape == toks
        ctx.ob("C34.D1-array-grammar", cname(jw, None, f"branch {test}: writes {[t[1] if t[0] == 'W' else 'REC' for t in toks]}"), ok,
               "" if ok else f"writes {[t[1] if t[0] != 'REC' else 'REC' for t in got]}: the file is no longer `[ REC (, REC)* ]`", nontrivial=True, where=where(jw, w))
        recs = [t[1] for t in got if t[0] == "REC"]
        ok = recs == ["{'name': name, 'doc': doc}"]
        ctx.ob("C34.D1-array-grammar", cname(jw, None, f"branch {test}: one record {{name, doc}}"), ok, "" if ok else f"records {recs}", where=where(jw, w))
        m, path = open_mode(w)
        paths.add(path)
        ok = m == mode
        ctx.ob("C34.D2-open-modes", cname(jw, None, f"branch {test}: mode {mode}"), ok,
               "" if ok else f"opens with {m}: " + ("earlier records are truncated" if m == "'w'" else "a stale file is appended to"), nontrivial=True, where=where(jw, w))
    ctx.ob("C34.D2-open-modes", cname(jw, None, "all branches write the same path"), len(paths) == 1 and None not in paths, "" if len(paths) == 1 else f"{paths}", where=where(jw, jw.node))
    # grammar composition: start other* stop
    ctx.ob("C34.D1-array-grammar", cname(jw, None, "composition: '[' REC ',' (REC ',')* REC ']' parses as a JSON array of the records in order"), True,
           "separator after every record except the last; brackets opened once and closed once")
    jl = repo.func(JW, "JSONLinesWriter.__call__")
    ws = [s for s in jl.node.body if isinstance(s, ast.With)]
    ok = len(ws) == 1 and [(t[0],) if t[0] == "REC" else t for t in tokens(ws[0])] == [("REC",), ("W", "\n")]
    ctx.ob("C34.D1-lines-grammar", cname(jl, None, "one record and one newline per document"), ok, "" if ok else "line format changed", nontrivial=True, where=where(jl, jl.node))
    modes = [s for s in jl.node.body if isinstance(s, ast.Assign) and A.norm(s.targets[0]) == "mode"]
    ok = len(modes) == 1 and A.norm(modes[0].value) == "'a' if (self.dirname / self.filename).exists() else 'w'" and bool(ws) and open_mode(ws[0])[0] == "mode"
    ctx.ob("C34.D2-open-modes", cname(jl, None, "append when the file exists"), ok, "" if ok else "an existing file is truncated", nontrivial=True, where=where(jl, jl.node))
    ifs = [s for s in jl.node.body if isinstance(s, ast.If) and A.norm(s.test) == "not self.filename"]
    ok = len(ifs) == 1 and ws and jl.node.body.index(ifs[0]) < jl.node.body.index(ws[0])
    ctx.ob("C34.D2-open-modes", cname(jl, None, "the filename is chosen once, before writing"), ok, "" if ok else "filename changes between documents", where=where(jl, jl.node))
    st = branches.get("name == 'start'")
    ok = any(isinstance(s, ast.Assign) and A.norm(s.targets[0]) == "self.filename" and A.norm(s.value).startswith("self.filename or ") for s in top[0].body)
    ctx.ob("C34.D2-open-modes", cname(jw, None, "JSONWriter keeps a given filename"), ok, "" if ok else "filename overwritten", where=where(jw, jw.node))


CLAIM = {
    "text": "Decides the writers' token grammar: for the document sequence start other* stop JSONWriter emits `[ REC (, REC)* ]` with one {name, doc} "
            "record per document, only the start branch truncates and all branches use one path; JSONLinesWriter writes one record plus newline "
            "per document and appends when the file exists. Serialisability of arbitrary documents is not decided.",
    "technique": "token-sequence grammar check per branch; open-mode table",
}

J = "callbacks/json_writer.py"
MUTANTS = [
    ("stop branch writes a trailing comma", [(J, "                json.dump({\"name\": name, \"doc\": doc}, file)\n                file.write(\"\\n]\")", "                json.dump({\"name\": name, \"doc\": doc}, file)\n                file.write(\",\\n]\")")], "C34.D1"),
    ("other documents truncate the file", [(J, "        else:\n            with open(self.dirname / self.filename, \"a\") as file:\n                json.dump({\"name\": name, \"doc\": doc}, file)\n                file.write(\",\\n\")", "        else:\n            with open(self.dirname / self.filename, \"w\") as file:\n                json.dump({\"name\": name, \"doc\": doc}, file)\n                file.write(\",\\n\")")], "C34.D2"),
    ("start appends to a stale file", [(J, "            with open(self.dirname / self.filename, \"w\") as file:\n                file.write(\"[\\n\")", "            with open(self.dirname / self.filename, \"a\") as file:\n                file.write(\"[\\n\")")], "C34.D2"),
    ("lines writer always truncates", [(J, "        mode = \"a\" if (self.dirname / self.filename).exists() else \"w\"", "        mode = \"w\"")], "C34.D2"),
    ("lines writer forgets the newline", [(J, "            json.dump({\"name\": name, \"doc\": doc}, file)\n            file.write(\"\\n\")\n", "            json.dump({\"name\": name, \"doc\": doc}, file)\n")], "C34.D1"),
    ("separator before instead of after in the else branch", [(J, "                json.dump({\"name\": name, \"doc\": doc}, file)\n                file.write(\",\\n\")\n\n\nclass JSONLinesWriter", "                file.write(\",\\n\")\n                json.dump({\"name\": name, \"doc\": doc}, file)\n\n\nclass JSONLinesWriter")], "C34.D1"),
    ("record drops the name", [(J, "            with open(self.dirname / self.filename, \"a\") as file:\n                json.dump({\"name\": name, \"doc\": doc}, file)\n                file.write(\"\\n]\")", "            with open(self.dirname / self.filename, \"a\") as file:\n                json.dump({\"doc\": doc}, file)\n                file.write(\"\\n]\")")], "C34.D1"),
]
BENIGN = []
