"""C34 - JSON writers produce files that parse back to the documents."""

from __future__ import annotations

import ast

from .. import astutil as A
from .. import q
from ..idioms import cname, where

JW = "bluesky.callbacks.json_writer"


def _file_var(with_stmt):
    v = with_stmt.items[0].optional_vars
    return v.id if isinstance(v, ast.Name) else None


def _write_parts(arg):
    """flatten `a + b + c`; -> list of ('W', text) / ('REC', expr text) / ('?', text)"""
    if isinstance(arg, ast.BinOp) and isinstance(arg.op, ast.Add):
        return _write_parts(arg.left) + _write_parts(arg.right)
    if isinstance(arg, ast.Constant) and isinstance(arg.value, str):
        return [("W", arg.value)]
    if isinstance(arg, ast.Call) and A.call_name(arg) == "json.dumps" and arg.args:
        return [("REC", A.norm(arg.args[0]))]
    return [("?", A.norm(arg))]


_REPO = None  # set by run(): lets tokens() inline module-level helpers of json_writer.py


def _inline_helper(call, fv):
    """`helper(a, b, f)` where helper is a function of the writer module: its body's writes with the parameters replaced by the
    arguments (by text).  -> token list, or None when the call is not such a helper."""
    if _REPO is None or not isinstance(call.func, ast.Name):
        return None
    h = _REPO.funcs.get(f"{JW}:{call.func.id}")
    if h is None:
        return None
    params = [a.arg for a in h.node.args.args]
    bind = {p: A.norm(a) for p, a in zip(params, call.args)}
    bind.update({k.arg: A.norm(k.value) for k in call.keywords if k.arg})
    inner_fv = next((p for p, a in bind.items() if a == fv), None)
    if inner_fv is None:
        return None

    class Sub(ast.NodeTransformer):
        def visit_Name(self, n):
            if n.id in bind:
                return ast.parse(bind[n.id], mode="eval").body
            return n
    import copy

    body = [Sub().visit(copy.deepcopy(st)) for st in A.body(h.node)]
    fake = ast.With(items=[ast.withitem(context_expr=ast.Constant(None), optional_vars=ast.Name(id=fv, ctx=ast.Store()))], body=body)
    return tokens(ast.fix_missing_locations(fake))


def tokens(with_stmt):
    """sequence of ('W', const) / ('REC', record expr) writes inside a `with open(...) as f` block; adjacent constants are merged"""
    fv = _file_var(with_stmt)
    out = []
    for s in with_stmt.body:
        if isinstance(s, ast.Expr) and isinstance(s.value, ast.Call):
            inl = _inline_helper(s.value, fv)
            if inl is not None:
                out.extend(inl)
                continue
        if isinstance(s, ast.Expr) and isinstance(s.value, ast.Call):
            cn = A.call_name(s.value)
            if fv and cn == f"{fv}.write" and len(s.value.args) == 1:
                out.extend(_write_parts(s.value.args[0]))
            elif cn == "json.dump" and len(s.value.args) >= 2 and A.norm(s.value.args[1]) == fv:
                out.append(("REC", A.norm(s.value.args[0])))
            elif fv and cn == f"{fv}.flush":
                continue
            else:
                out.append(("?", A.norm(s)))
        else:
            out.append(("?", A.norm(s)))
    merged = []
    for t in out:
        if t[0] == "W" and merged and merged[-1][0] == "W":
            merged[-1] = ("W", merged[-1][1] + t[1])
        else:
            merged.append(t)
    return merged


def open_call(with_stmt):
    c = with_stmt.items[0].context_expr
    if isinstance(c, ast.Call):
        cn = A.call_name(c) or ""
        if cn == "open" and c.args:
            mode = c.args[1] if len(c.args) >= 2 else A.kw(c, "mode")
            return c.args[0], mode
        if cn.endswith(".open") or (isinstance(c.func, ast.Attribute) and c.func.attr == "open"):
            mode = c.args[0] if c.args else A.kw(c, "mode")
            return c.func.value, mode
    return None, None


def open_mode(with_stmt):
    path, mode = open_call(with_stmt)
    return (A.norm(mode) if mode is not None else "'r'", A.norm(path)) if path is not None else (None, None)


def possible_modes(func, mode_expr, path_txt, depth=0):
    """-> list of (mode string or None when unknown, condition) where condition is 'always', 'exists', 'missing' or 'unknown'."""
    if mode_expr is None:
        return [("r", "always")]
    if isinstance(mode_expr, ast.Constant) and isinstance(mode_expr.value, str):
        return [(mode_expr.value, "always")]
    if isinstance(mode_expr, ast.IfExp):
        t = mode_expr.test
        neg = False
        while isinstance(t, ast.UnaryOp) and isinstance(t.op, ast.Not):
            neg, t = not neg, t.operand
        is_exists = isinstance(t, ast.Call) and ((isinstance(t.func, ast.Attribute) and t.func.attr in ("exists", "is_file") and A.norm(t.func.value).strip("()") == path_txt.strip("()"))
                                                 or (A.call_name(t) in ("os.path.exists", "os.path.isfile") and t.args and A.norm(t.args[0]).strip("()") == path_txt.strip("()")))
        out = []
        for branch, when_true in ((mode_expr.body, True), (mode_expr.orelse, False)):
            cond = ("exists" if (when_true != neg) else "missing") if is_exists else "unknown"
            for m, c in possible_modes(func, branch, path_txt, depth + 1):
                out.append((m, cond if c == "always" else "unknown"))
        return out
    if isinstance(mode_expr, ast.Name) and depth < 3:
        defs = q.local_defs(func.node, mode_expr.id)
        if len(defs) == 1 and isinstance(defs[0], ast.Assign):
            return possible_modes(func, defs[0].value, path_txt, depth + 1)
    return [(None, "unknown")]


def run(ctx):
    global _REPO
    repo = ctx.repo
    _REPO = repo
    ctx.explanation = (
        "Decided: D1 token grammar of JSONWriter: per branch the sequence of constant writes and json.dump calls gives, for the document "
        "sequence start other* stop, the text `[ REC (, REC)* ]` with every record {name, doc}: start writes '[', REC, ','; every other "
        "document writes REC, ','; stop writes REC, ']' - so separators and brackets balance; D2 modes: only the start branch truncates "
        "('w'); the others append to the same path; JSONLinesWriter opens with 'a' when the file exists and writes exactly one REC and one "
        "newline per document; the filename is fixed once. Not decided: JSON serialisability of arbitrary documents.")
    jw = repo.func(JW, "JSONWriter.__call__")
    # the function is specialised for each kind of document (tests on `name` folded by truth-table evaluation), so an if/elif ladder
    # with one with-block per branch and a single with-block with conditional pieces read the same
    import copy as _copy

    from .. import booleval

    CASES = {"name == 'start'": {"name == 'start'": True, "name == 'stop'": False, "name != 'start'": False, "name != 'stop'": True},
             "name == 'stop'": {"name == 'start'": False, "name == 'stop'": True, "name != 'start'": True, "name != 'stop'": False},
             "else": {"name == 'start'": False, "name == 'stop'": False, "name != 'start'": True, "name != 'stop'": True}}

    def specialise(stmts, env):
        class F(ast.NodeTransformer):
            def visit_If(self, n):
                t = booleval.ev(n.test, env)
                if t is None:
                    return self.generic_visit(n)
                out = []
                for x in (n.body if t else n.orelse):
                    r = self.visit(x)
                    out.extend(r if isinstance(r, list) else [r])
                return out

            def visit_IfExp(self, n):
                t = booleval.ev(n.test, env)
                if t is None:
                    return self.generic_visit(n)
                return self.visit(n.body if t else n.orelse)

            def visit_FunctionDef(self, n):
                return n
        out = []
        for x in _copy.deepcopy(stmts):
            r = F().visit(x)
            out.extend(r if isinstance(r, list) else [r])
        return [x for x in out if x is not None]
    def propagate(stmts):
        """constants assigned to locals are substituted in the statements that follow and the tests they decide are folded"""
        consts = {}

        class Sub(ast.NodeTransformer):
            def visit_Name(self, n):
                if isinstance(n.ctx, ast.Load) and n.id in consts:
                    return ast.Constant(value=consts[n.id])
                return n

        def block(bl):
            out = []
            for st_ in bl:
                st_ = Sub().visit(st_)
                if isinstance(st_, ast.Assign) and len(st_.targets) == 1 and isinstance(st_.targets[0], ast.Name):
                    if isinstance(st_.value, ast.Constant):
                        consts[st_.targets[0].id] = st_.value.value
                        continue
                    consts.pop(st_.targets[0].id, None)
                if isinstance(st_, ast.If):
                    from ..normalize import _const_truth
                    t = _const_truth(st_.test)
                    if t is not None:
                        out.extend(block(st_.body if t else st_.orelse))
                        continue
                    consts.clear()
                for fld in ("body", "orelse", "finalbody"):
                    sub = getattr(st_, fld, None)
                    if isinstance(sub, list) and sub and isinstance(sub[0], ast.stmt) and not isinstance(st_, (ast.FunctionDef, ast.For, ast.While)):
                        setattr(st_, fld, block(sub))
                out.append(st_)
            return out
        return block(stmts)
    branches = {}
    for case, env in CASES.items():
        body = propagate(specialise(jw.node.body, env))
        ws = [x for x in A.walk_stmts(body) if isinstance(x, ast.With) and open_call(x)[0] is not None]
        branches[case] = ws[0] if len(ws) == 1 else None
    want = {
        "name == 'start'": ([("W", "[\n"), ("REC",), ("W", ",\n")], "'w'"),
        "name == 'stop'": ([("REC",), ("W", "\n]")], "'a'"),
        "else": ([("REC",), ("W", ",\n")], "'a'"),
    }
    paths = set()
    for test, (toks, mode) in want.items():
        w = branches.get(test)
        if w is None:
            ctx.ob("C34.D1-array-grammar", cname(jw, None, f"branch {test}"), False, "branch / with-open block not found", where=where(jw, jw.node))
            continue
        got = tokens(w)
        shape = [(t[0],) if t[0] == "REC" else t for t in got]
        ok = shape == toks
        ctx.ob("C34.D1-array-grammar", cname(jw, None, f"branch {test}: writes {[t[1] if t[0] == 'W' else 'REC' for t in toks]}"), ok,
               "" if ok else f"writes {[t[1] if t[0] != 'REC' else 'REC' for t in got]}: the file is no longer `[ REC (, REC)* ]`", nontrivial=True, where=where(jw, w))
        recs = [t[1] for t in got if t[0] == "REC"]
        ok = recs == ["{'name': name, 'doc': doc}"]
        ctx.ob("C34.D1-array-grammar", cname(jw, None, f"branch {test}: one record {{name, doc}}"), ok, "" if ok else f"records {recs}", where=where(jw, w))
        m, path = open_mode(w)
        paths.add(path)
        ok = m == mode
        ctx.ob("C34.D2-open-modes", cname(jw, None, f"branch {test}: mode {mode}"), ok,
               "" if ok else f"opens with {m}: " + ("earlier records are truncated" if m == "'w'" else "a stale file is appended to"), nontrivial=True, where=where(jw, w))
    ctx.ob("C34.D2-open-modes", cname(jw, None, "all branches write the same path"), len(paths) == 1 and None not in paths, "" if len(paths) == 1 else f"{paths}", where=where(jw, jw.node))
    # grammar composition: start other* stop
    ctx.ob("C34.D1-array-grammar", cname(jw, None, "composition: '[' REC ',' (REC ',')* REC ']' parses as a JSON array of the records in order"), True,
           "separator after every record except the last; brackets opened once and closed once")
    jl = repo.func(JW, "JSONLinesWriter.__call__")
    withs = [s for s in A.walk_stmts(jl.node.body) if isinstance(s, ast.With) and open_call(s)[0] is not None]
    writes = []
    for w in withs:
        path, mode = open_call(w)
        pm = possible_modes(jl, mode, A.norm(path))
        if all(m is not None and set(m) <= set("rbt") for m, _ in pm):
            continue  # read-only open: not part of the output grammar
        writes.append((w, A.norm(path), pm))
    ok = len(writes) == 1
    ctx.ob("C34.D1-lines-grammar", cname(jl, None, "exactly one open-for-writing per document"), ok, "" if ok else f"{len(writes)} write-opens", where=where(jl, jl.node))
    for w, path_txt, pm in writes:
        toks = tokens(w)
        ok = [t[0] for t in toks] == ["REC", "W"] and toks[1][1] == "\n"
        ctx.ob("C34.D1-lines-grammar", cname(jl, None, "one record and one newline per document"), ok,
               "" if ok else f"writes {[t[1] if t[0] != 'REC' else 'REC' for t in toks]}: a line is no longer exactly one record followed by a newline", nontrivial=True, where=where(jl, w))
        recs = [t[1] for t in toks if t[0] == "REC"]
        ok = recs == ["{'name': name, 'doc': doc}"]
        ctx.ob("C34.D1-lines-grammar", cname(jl, None, "the record is {name, doc}"), ok, "" if ok else f"records {recs}", where=where(jl, w))
        bad = [(m, c) for m, c in pm if m is None or ("w" in m and c != "missing") or ("x" in m and c != "missing") or ("+" in m and "a" not in m and c != "missing")]
        ok = not bad and any("a" in (m or "") or c == "missing" for m, c in pm)
        ctx.ob("C34.D2-open-modes", cname(jl, None, "a truncating mode is chosen only when the file does not exist"), ok,
               "" if ok else f"mode / condition pairs {pm}: an existing file can be truncated (earlier lines lost)", nontrivial=True, where=where(jl, w))
    # file-API preconditions on the way to the append: a pre-existing file may be empty
    for c in A.calls_in(jl.node):
        if isinstance(c.func, ast.Attribute) and c.func.attr == "seek" and len(c.args) == 2:
            off = c.args[0]
            negative = isinstance(off, ast.UnaryOp) and isinstance(off.op, ast.USub) and isinstance(off.operand, ast.Constant)
            from_end = A.norm(c.args[1]) in ("2", "os.SEEK_END", "io.SEEK_END", "SEEK_END")
            if negative and from_end:
                pm_ = A.parents(jl.node)
                n, guarded = c, False
                while n in pm_:
                    n = pm_[n]
                    if isinstance(n, ast.If) and any(k in A.norm(n.test) for k in ("st_size", "getsize", ".tell()", "len(")):
                        guarded = True
                ctx.ob("C34.D2-file-api-preconditions", cname(jl, c), guarded,
                       "" if guarded else "seek to a negative offset from the end raises OSError on an empty pre-existing file: the document is never appended",
                       nontrivial=True, where=where(jl, c))
    stores = [s for s in A.walk_stmts(jl.node.body) if any(A.chain(t) == "self.filename" for t in A.targets_of(s))]
    pmj = A.parents(jl.node)
    def under_unset_guard(st):
        n = st
        while n in pmj:
            n = pmj[n]
            if isinstance(n, ast.If) and A.norm(n.test) in ("not self.filename", "self.filename is None"):
                return True
        return False
    ok = bool(stores) and all(under_unset_guard(st) for st in stores)
    ctx.ob("C34.D2-open-modes", cname(jl, None, "the filename is chosen once (only while unset)"), ok, "" if ok else "filename changes between documents", where=where(jl, jl.node))
    if writes and stores:
        ok = max(st.lineno for st in stores) < writes[0][0].lineno
        ctx.ob("C34.D2-open-modes", cname(jl, None, "the filename is chosen before writing"), ok, "" if ok else "the file is opened before its name is fixed", where=where(jl, jl.node))
    st = branches.get("name == 'start'")
    fn_stores = [s_ for s_ in A.walk_stmts(specialise(jw.node.body, CASES["name == 'start'"])) if isinstance(s_, ast.Assign) and A.norm(s_.targets[0]) == "self.filename"]
    other_stores = [s_ for case in ("name == 'stop'", "else") for s_ in A.walk_stmts(specialise(jw.node.body, CASES[case])) if isinstance(s_, ast.Assign) and A.norm(s_.targets[0]) == "self.filename"]
    spec_start = specialise(jw.node.body, CASES["name == 'start'"])
    pm_ = {}
    for n_ in ast.walk(ast.Module(body=spec_start, type_ignores=[])):
        for c_ in ast.iter_child_nodes(n_):
            pm_[c_] = n_

    def keeps_given(s_):
        """`self.filename = self.filename or <default>`, or the store sits under `if not self.filename:`"""
        if A.norm(s_.value).startswith("self.filename or "):
            return True
        up_ = pm_.get(s_)
        return isinstance(up_, ast.If) and s_ in up_.body and A.norm(up_.test) in ("not self.filename", "self.filename is None")
    fn_stores = [s_ for s_ in A.walk_stmts(spec_start) if isinstance(s_, ast.Assign) and A.norm(s_.targets[0]) == "self.filename"]
    ok = bool(fn_stores) and all(keeps_given(s_) for s_ in fn_stores) and not other_stores
    ctx.ob("C34.D2-open-modes", cname(jw, None, "JSONWriter keeps a given filename"), ok, "" if ok else "filename overwritten", where=where(jw, jw.node))


CLAIM = {
    "text": "Decides the writers' token grammar: for the document sequence start other* stop JSONWriter emits `[ REC (, REC)* ]` with one {name, doc} "
            "record per document, only the start branch truncates and all branches use one path; JSONLinesWriter writes one record plus newline "
            "per document and appends when the file exists. Serialisability of arbitrary documents is not decided.",
    "technique": "token-sequence grammar check per document kind (the writer specialised for start / stop / other by folding its tests); evaluation of the open-mode expression under exists / missing; file-API precondition rule (seek from the end needs a size guard)",
}

J = "callbacks/json_writer.py"
MUTANTS = [
    ("stop branch writes a trailing comma", [(J, "                json.dump({\"name\": name, \"doc\": doc}, file)\n                file.write(\"\\n]\")", "                json.dump({\"name\": name, \"doc\": doc}, file)\n                file.write(\",\\n]\")")], "C34.D1"),
    ("other documents truncate the file", [(J, "        else:\n            with open(self.dirname / self.filename, \"a\") as file:\n                json.dump({\"name\": name, \"doc\": doc}, file)\n                file.write(\",\\n\")", "        else:\n            with open(self.dirname / self.filename, \"w\") as file:\n                json.dump({\"name\": name, \"doc\": doc}, file)\n                file.write(\",\\n\")")], "C34.D2"),
    ("start appends to a stale file", [(J, "            with open(self.dirname / self.filename, \"w\") as file:\n                file.write(\"[\\n\")", "            with open(self.dirname / self.filename, \"a\") as file:\n                file.write(\"[\\n\")")], "C34.D2"),
    ("lines writer always truncates", [(J, "        mode = \"a\" if (self.dirname / self.filename).exists() else \"w\"", "        mode = \"w\"")], "C34.D2"),
    ("lines writer forgets the newline", [(J, "            json.dump({\"name\": name, \"doc\": doc}, file)\n            file.write(\"\\n\")\n", "            json.dump({\"name\": name, \"doc\": doc}, file)\n")], "C34.D1"),
    ("separator before instead of after in the else branch", [(J, "                json.dump({\"name\": name, \"doc\": doc}, file)\n                file.write(\",\\n\")\n\n\nclass JSONLinesWriter", "                file.write(\",\\n\")\n                json.dump({\"name\": name, \"doc\": doc}, file)\n\n\nclass JSONLinesWriter")], "C34.D1"),
    ("record drops the name", [(J, "            with open(self.dirname / self.filename, \"a\") as file:\n                json.dump({\"name\": name, \"doc\": doc}, file)\n                file.write(\"\\n]\")", "            with open(self.dirname / self.filename, \"a\") as file:\n                json.dump({\"doc\": doc}, file)\n                file.write(\"\\n]\")")], "C34.D1"),
]
MUTANTS += [
    ("records pass through truncate_json_overflow (seed C34-b)", [(J, "            json.dump({\"name\": name, \"doc\": doc}, file)\n            file.write(\"\\n\")\n", "            json.dump({\"name\": name, \"doc\": truncate_json_overflow(doc)}, file)\n            file.write(\"\\n\")\n")], "C34.D1"),
    ("lines writer probes the last byte without a size guard (seed C34-a)", [(J, "        with open(self.dirname / self.filename, mode) as file:\n            json.dump", "        if mode == \"a\":\n            with open(self.dirname / self.filename, \"rb\") as probe:\n                probe.seek(-1, 2)\n                probe.read(1)\n        with open(self.dirname / self.filename, mode) as file:\n            json.dump")], "C34.D2-file-api"),
    ("lines writer truncates when the file exists", [(J, "        mode = \"a\" if (self.dirname / self.filename).exists() else \"w\"", "        mode = \"w\" if (self.dirname / self.filename).exists() else \"a\"")], "C34.D2"),
]
BENIGN = [
    ("lines writer dumps through a module-level helper (same record)", [(J, "class JSONLinesWriter:", "def _dump_record(name, doc, file):\n    json.dump({\"name\": name, \"doc\": doc}, file)\n\n\nclass JSONLinesWriter:"), (J, "            json.dump({\"name\": name, \"doc\": doc}, file)\n            file.write(\"\\n\")\n", "            _dump_record(name, doc, file)\n            file.write(\"\\n\")\n")]),
    ("lines writer always appends ('a' creates the file)", [(J, "        mode = \"a\" if (self.dirname / self.filename).exists() else \"w\"", "        mode = \"a\"")]),
    ("lines writer writes dumps + newline in one call", [(J, "            json.dump({\"name\": name, \"doc\": doc}, file)\n            file.write(\"\\n\")\n", "            file.write(json.dumps({\"name\": name, \"doc\": doc}) + \"\\n\")\n")]),
    ("lines writer uses a different handle name and a guarded probe", [(J, "        with open(self.dirname / self.filename, mode) as file:\n            json.dump({\"name\": name, \"doc\": doc}, file)\n            file.write(\"\\n\")", "        target = self.dirname / self.filename\n        if mode == \"a\" and target.stat().st_size > 0:\n            with open(target, \"rb\") as probe:\n                probe.seek(-1, 2)\n        with open(self.dirname / self.filename, mode) as out:\n            json.dump({\"name\": name, \"doc\": doc}, out)\n            out.write(\"\\n\")")]),
]
