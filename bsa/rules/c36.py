"""C36 - stream datums concatenate into consistent ranges (selector agreement); consolidator arithmetic is not decided."""

from __future__ import annotations

import ast

from .. import astutil as A
from .. import q
from ..idioms import cname, where

TW = "bluesky.callbacks.tiled_writer"
CO = "bluesky.consolidators"


def d4_per_datum_chunking_only_under_concat(ctx, repo):
    """The advertised chunks must add up to the shape.  `shape` has the leading dimension _num_rows * datum_shape[0] exactly when
    join_method == 'concat' (otherwise it is _num_rows); the per-datum chunking `list_summands(datum_shape[0], ..., repeat=_num_rows)`
    adds up to _num_rows * datum_shape[0].  So the branch that uses it must imply join_method == 'concat' - decided by enumerating
    the truth table of the conditions guarding it (join_method in {stack, concat}; every other condition free)."""
    import itertools

    from .. import booleval

    rule = "C36.D4-per-datum-chunks-only-under-concat"
    f = repo.func(CO, "ConsolidatorBase.chunks")
    sh = repo.func(CO, "ConsolidatorBase.shape")
    t = A.norm(sh.node)
    ok = "self.join_method == 'concat'" in t and "self._num_rows * self.datum_shape[0]" in t
    ctx.ob(rule, cname(sh, None, "shape: leading dimension is _num_rows * datum_shape[0] under concat, _num_rows otherwise"), ok,
           "" if ok else "shape changed: the rule's premise no longer holds", where=where(sh, sh.node))
    sites = [c for c in A.calls_in(f.node) if A.call_name(c) == "list_summands" and A.kw(c, "repeat") is not None and "self._num_rows" in A.norm(A.kw(c, "repeat"))]
    ctx.ob(rule, cname(f, None, "per-datum chunking site"), len(sites) >= 1, "" if sites else "no per-datum chunking left", where=where(f, f.node))
    pm = A.parents(f.node)
    for c in sites:
        guards = []  # (test, polarity)
        n = c
        while n in pm:
            parent = pm[n]
            if isinstance(parent, ast.If):
                in_body = any(n is x for x in parent.body)
                in_else = any(n is x for x in parent.orelse)
                if in_body or in_else:
                    guards.append((parent.test, in_body))
            if isinstance(parent, ast.IfExp):
                if n is parent.body:
                    guards.append((parent.test, True))
                elif n is parent.orelse:
                    guards.append((parent.test, False))
            n = parent
        # leaves
        leaves = {}
        def collect(e):
            if isinstance(e, ast.BoolOp):
                for v in e.values:
                    collect(v)
            elif isinstance(e, ast.UnaryOp) and isinstance(e.op, ast.Not):
                collect(e.operand)
            else:
                leaves[A.norm(e)] = e
        for tst, _ in guards:
            collect(tst)
        method_atoms = {"self.join_method == 'stack'": "stack", "self.join_method == 'concat'": "concat",
                        "self.join_method != 'stack'": "!stack", "self.join_method != 'concat'": "!concat"}
        free = [k for k in leaves if k not in method_atoms]
        bad = None
        for method in ("stack", "concat"):
            for vals in itertools.product([True, False], repeat=len(free)):
                env = dict(zip(free, vals))
                for k, m in method_atoms.items():
                    env[k] = (method != m[1:]) if m.startswith("!") else (method == m)
                reach = all((booleval.ev(tst, env) is True) == pol for tst, pol in guards) if guards else True
                if reach and method != "concat":
                    bad = (method, {k: v for k, v in env.items() if k in free})
                    break
            if bad:
                break
        ok = bad is None
        ctx.ob(rule, cname(f, c), ok,
               "" if ok else f"reached with join_method == {bad[0]!r} (other conditions {bad[1]}): the chunks along dimension 0 add up to _num_rows * datum_shape[0] "
               "but the shape's leading dimension is _num_rows", nontrivial=True, where=where(f, c))


def run(ctx):
    repo = ctx.repo
    ctx.explanation = (
        "Consolidator shape / chunks arithmetic is NOT decided beyond D4 (the per-datum chunking branch of `chunks` is reachable only under join_method == 'concat', the case in which `shape` has the matching leading dimension). Decided: D1 in concatenate_stream_datums the result's indices and seq_nums "
        "are built with the same selectors (start from the first, stop from the last document after one sort by start index), and "
        "descriptor / stream_resource / uid come from the input; D2 the uniqueness tests on descriptor and stream_resource and the "
        "contiguity loop over consecutive pairs all dominate the construction of the result and raise ValueError; a single document is "
        "returned unchanged; D3 ConsolidatorBase.consume_stream_datum advances the row count by stop - start and maps the seq_num range "
        "onto the index range of the same document.")
    f = repo.func(TW, "concatenate_stream_datums")
    g = q.cfg(f, q.quiet_policy(repo))
    rets = [s for s in A.walk_stmts(f.node.body) if isinstance(s, ast.Return) and isinstance(s.value, ast.Call) and A.call_name(s.value) == "StreamDatum"]
    ctx.require(rets, "anchor vanished: the StreamDatum(...) result of concatenate_stream_datums")
    call = rets[0].value
    sel = {}
    for field in ("indices", "seq_nums"):
        v = A.kw(call, field)
        if isinstance(v, ast.Call) and A.call_name(v) == "StreamRange":
            sel[field] = (A.norm(A.kw(v, "start")).replace(f"'{field}'", "'F'"), A.norm(A.kw(v, "stop")).replace(f"'{field}'", "'F'"))
    ok = len(sel) == 2 and sel["indices"] == sel["seq_nums"] == ("docs[0]['F']['start']", "docs[-1]['F']['stop']")
    ctx.ob("C36.D1-range-selectors-agree", cname(f, None, "indices and seq_nums both = [first.start, last.stop)"), ok,
           "" if ok else f"selectors are {sel}: the combined index range and seq_num range no longer describe the same documents", nontrivial=True, where=where(f, rets[0]))
    ok = all(A.norm(A.kw(call, k)) in (f"docs[-1]['{k}']", f"docs[0]['{k}']") for k in ("stream_resource", "descriptor", "uid"))
    ctx.ob("C36.D1-range-selectors-agree", cname(f, None, "identity fields taken from the input documents"), ok, "" if ok else "identity fields changed", where=where(f, rets[0]))
    sorts = [s for s in f.node.body if isinstance(s, ast.Assign) and A.norm(s.targets[0]) == "docs" and "sorted(docs, key=lambda doc: doc['indices']['start'])" in A.norm(s.value)]
    ok = len(sorts) == 1 and q.dominated(g, rets[0], lambda n: n.stmt is sorts[0]) is None
    ctx.ob("C36.D1-range-selectors-agree", cname(f, None, "documents sorted by start index before first / last are taken"), ok, "" if ok else "result built from unsorted input", nontrivial=True, where=where(f, f.node))
    # D2 guards dominate the result
    for field in ("descriptor", "stream_resource"):
        gs = [s for s in f.node.body if isinstance(s, ast.If) and f"doc['{field}'] for doc in docs" in A.norm(s.test) and "> 1" in A.norm(s.test)
              and any(isinstance(x, ast.Raise) and "ValueError" in A.norm(x) for x in s.body)]
        ok = bool(gs) and q.dominated(g, rets[0], lambda n: n.kind == "test" and n.stmt is gs[0]) is None
        ctx.ob("C36.D2-guards-dominate-result", cname(f, None, f"documents of different {field}s are rejected"), ok, "" if ok else f"mixed {field}s are concatenated", nontrivial=True, where=where(f, f.node))
    loops = [s for s in f.node.body if isinstance(s, ast.For) and A.norm(s.iter) == "zip(docs[:-1], docs[1:])"]
    ok = False
    if loops:
        t = [x for x in loops[0].body if isinstance(x, ast.If)]
        ok = bool(t) and A.norm(t[0].test) == "d1['indices']['stop'] != d2['indices']['start']" and any(isinstance(x, ast.Raise) and "ValueError" in A.norm(x) for x in t[0].body)
        ok = ok and q.dominated(g, rets[0], lambda n: n.kind == "for" and n.stmt is loops[0]) is None
        ok = ok and sorts and f.node.body.index(sorts[0]) < f.node.body.index(loops[0])
    ctx.ob("C36.D2-guards-dominate-result", cname(f, None, "every consecutive pair (after sorting) must be contiguous"), ok, "" if ok else "gaps / overlaps are accepted", nontrivial=True, where=where(f, f.node))
    single = [s for s in f.node.body if isinstance(s, ast.If) and A.norm(s.test) == "len(docs) == 1" and isinstance(s.body[0], ast.Return) and A.norm(s.body[0].value) == "docs[0]"]
    ctx.ob("C36.D2-guards-dominate-result", cname(f, None, "a single document is returned unchanged"), bool(single), "" if single else "single-document case changed", where=where(f, f.node))
    # D3
    c = repo.func(CO, "ConsolidatorBase.consume_stream_datum")
    body = [A.norm(s) for s in A.body(c.node)]
    want = ["self._num_rows += doc['indices']['stop'] - doc['indices']['start']", "new_seqnums = range(doc['seq_nums']['start'], doc['seq_nums']['stop'])",
            "new_indices = range(doc['indices']['start'], doc['indices']['stop'])", "self._seqnums_to_indices_map.update(dict(zip(new_seqnums, new_indices)))"]
    ok = body == want
    ctx.ob("C36.D3-seqnum-to-row", cname(c, None, "rows += stop - start; seq_num range zipped onto the index range"), ok, "" if ok else f"{body}", nontrivial=True, where=where(c, c.node))
    for k, fn in repo.funcs.items():
        if k.startswith(CO + ":") and k.endswith(".consume_stream_datum") and fn.key != c.key:
            ok = "super().consume_stream_datum(doc)" in A.norm(fn.node)
            ctx.ob("C36.D3-seqnum-to-row", cname(fn, None, "subclass keeps the base bookkeeping"), ok, "" if ok else "subclass drops the row / seq_num bookkeeping", where=where(fn, fn.node))

    d4_per_datum_chunking_only_under_concat(ctx, repo)


CLAIM = {
    "text": "Does not decide consolidator shape / chunk arithmetic. Decides that concatenate_stream_datums builds its index and seq_num ranges with the "
            "same (first.start, last.stop) selectors after one sort, that the descriptor / resource uniqueness tests and the pairwise contiguity "
            "test dominate the result, and that the consolidator maps each consumed seq_num range onto the index range of the same document.",
    "technique": "sibling agreement of the two range constructions; guard dominance",
}

T = "callbacks/tiled_writer.py"
MUTANTS = [
    ("per-datum chunking also for stacked datums (seed C36-b)", [("consolidators.py", "                self.join_method == \"stack\"\n                or (self.join_method == \"concat\" and self.join_chunks)", "                (self.join_method == \"concat\" and self.join_chunks)")], "C36.D4"),
    ("seq_nums taken from the wrong end", [(T, "        seq_nums=StreamRange(start=docs[0][\"seq_nums\"][\"start\"], stop=docs[-1][\"seq_nums\"][\"stop\"]),", "        seq_nums=StreamRange(start=docs[-1][\"seq_nums\"][\"start\"], stop=docs[-1][\"seq_nums\"][\"stop\"]),")], "C36.D1"),
    ("documents not sorted", [(T, "    docs = tuple(sorted(docs, key=lambda doc: doc[\"indices\"][\"start\"]))\n", "")], "C36.D1"),
    ("contiguity only checked for the first pair", [(T, "    for d1, d2 in zip(docs[:-1], docs[1:]):  # TODO: use itertools.pairwise(docs) in python 3.10+", "    for d1, d2 in zip(docs[:1], docs[1:2]):  # TODO: use itertools.pairwise(docs) in python 3.10+")], "C36.D2"),
    ("mixed resources accepted", [(T, "    if len({doc[\"stream_resource\"] for doc in docs}) > 1:\n        raise ValueError(\"All StreamDatum documents must reference the same stream_resource.\")\n", "")], "C36.D2"),
    ("row count advanced by the stop index", [("consolidators.py", "        self._num_rows += doc[\"indices\"][\"stop\"] - doc[\"indices\"][\"start\"]\n        new_seqnums", "        self._num_rows += doc[\"indices\"][\"stop\"]\n        new_seqnums")], "C36.D3"),
    ("contiguity checked before sorting", [(T, "    docs = tuple(sorted(docs, key=lambda doc: doc[\"indices\"][\"start\"]))\n    for d1, d2 in zip(docs[:-1], docs[1:]):  # TODO: use itertools.pairwise(docs) in python 3.10+\n        if d1[\"indices\"][\"stop\"] != d2[\"indices\"][\"start\"]:\n            raise ValueError(\"StreamDatum documents must be consecutive.\")\n",
                                            "    for d1, d2 in zip(docs[:-1], docs[1:]):  # TODO: use itertools.pairwise(docs) in python 3.10+\n        if d1[\"indices\"][\"stop\"] != d2[\"indices\"][\"start\"]:\n            raise ValueError(\"StreamDatum documents must be consecutive.\")\n    docs = tuple(sorted(docs, key=lambda doc: doc[\"indices\"][\"start\"]))\n")], "C36.D2"),
]
BENIGN = []
