"""C36 - stream datums concatenate into consistent ranges (selector agreement); consolidator arithmetic is not decided."""

from __future__ import annotations

import ast

from .. import astutil as A
from .. import q
from ..idioms import cname, where

TW = "bluesky.callbacks.tiled_writer"
CO = "bluesky.consolidators"


def d4_per_datum_chunking_only_under_concat(ctx, repo):
    """The advertised chunks must add up to the shape.  `shape` has the leading dimension _num_rows * datum_shape[0] exactly when
    join_method == 'concat' (otherwise it is _num_rows); the per-datum chunking `list_summands(datum_shape[0], ..., repeat=_num_rows)`
    adds up to _num_rows * datum_shape[0].  So the branch that uses it must imply join_method == 'concat' - decided by enumerating
    the truth table of the conditions guarding it (join_method in {stack, concat}; every other condition free)."""
    import itertools

    from .. import booleval

    rule = "C36.D4-per-datum-chunks-only-under-concat"
    f = repo.func(CO, "ConsolidatorBase.chunks")
    sh = repo.func(CO, "ConsolidatorBase.shape")
    # premise, decided on the returned expression (temporaries substituted, guard clauses folded) for every case of the two conditions
    ok = True
    for concat in (True, False):
        for nonscalar in (True, False):
            env = {"self.join_method == 'concat'": concat, "self.join_method != 'concat'": not concat, "self.join_method == 'stack'": not concat,
                   "len(self.datum_shape) > 0": nonscalar, "len(self.datum_shape) == 0": not nonscalar, "self.datum_shape": nonscalar, "len(self.datum_shape)": nonscalar}
            flat_ = list(A.walk_stmts(q.specialise(A.body(sh.node), env)))
            ret_ = next((x for x in flat_ if isinstance(x, ast.Return) and x.value is not None), None)
            txt = A.norm(q.straight_line_value(flat_[:flat_.index(ret_)], ret_.value)) if ret_ is not None else ""
            want = "(self._num_rows * self.datum_shape[0], *self.datum_shape[1:])" if (concat and nonscalar) else "(self._num_rows, *self.datum_shape)"
            ok = ok and txt == want
    ctx.ob(rule, cname(sh, None, "shape: leading dimension is _num_rows * datum_shape[0] under concat, _num_rows otherwise"), ok,
           "" if ok else "shape changed: the rule's premise no longer holds", where=where(sh, sh.node))
    # the per-datum chunking site: a summand helper called with repeat=<_num_rows> (whatever the helper is called)
    sites = [c for c in A.calls_in(f.node) if A.kw(c, "repeat") is not None and "self._num_rows" in A.norm(A.kw(c, "repeat"))]
    ctx.ob(rule, cname(f, None, "per-datum chunking site"), len(sites) >= 1, "" if sites else "no per-datum chunking left", where=where(f, f.node))
    pm = A.parents(f.node)
    for c in sites:
        guards = []  # (test, polarity)
        n = c
        while n in pm:
            parent = pm[n]
            if isinstance(parent, ast.If):
                in_body = any(n is x for x in parent.body)
                in_else = any(n is x for x in parent.orelse)
                if in_body or in_else:
                    guards.append((parent.test, in_body))
            if isinstance(parent, ast.IfExp):
                if n is parent.body:
                    guards.append((parent.test, True))
                elif n is parent.orelse:
                    guards.append((parent.test, False))
            n = parent
        # leaves
        leaves = {}
        def collect(e):
            if isinstance(e, ast.BoolOp):
                for v in e.values:
                    collect(v)
            elif isinstance(e, ast.UnaryOp) and isinstance(e.op, ast.Not):
                collect(e.operand)
            else:
                leaves[A.norm(e)] = e
        for tst, _ in guards:
            collect(tst)
        method_atoms = {"self.join_method == 'stack'": "stack", "self.join_method == 'concat'": "concat",
                        "self.join_method != 'stack'": "!stack", "self.join_method != 'concat'": "!concat"}
        free = [k for k in leaves if k not in method_atoms]
        bad = None
        for method in ("stack", "concat"):
            for vals in itertools.product([True, False], repeat=len(free)):
                env = dict(zip(free, vals))
                for k, m in method_atoms.items():
                    env[k] = (method != m[1:]) if m.startswith("!") else (method == m)
                reach = all((booleval.ev(tst, env) is True) == pol for tst, pol in guards) if guards else True
                if reach and method != "concat":
                    bad = (method, {k: v for k, v in env.items() if k in free})
                    break
            if bad:
                break
        ok = bad is None
        ctx.ob(rule, cname(f, c), ok,
               "" if ok else f"reached with join_method == {bad[0]!r} (other conditions {bad[1]}): the chunks along dimension 0 add up to _num_rows * datum_shape[0] "
               "but the shape's leading dimension is _num_rows", nontrivial=True, where=where(f, c))


def run(ctx):
    repo = ctx.repo
    ctx.explanation = (
        "Consolidator shape / chunks arithmetic is NOT decided beyond D4 (the per-datum chunking branch of `chunks` is reachable only under join_method == 'concat', the case in which `shape` has the matching leading dimension). Decided: D1 in concatenate_stream_datums the result's indices and seq_nums "
        "are built with the same selectors (start from the first, stop from the last document after one sort by start index), and "
        "descriptor / stream_resource / uid come from the input; D2 the uniqueness tests on descriptor and stream_resource and the "
        "contiguity loop over consecutive pairs all dominate the construction of the result and raise ValueError; a single document is "
        "returned unchanged; D3 ConsolidatorBase.consume_stream_datum advances the row count by stop - start and maps the seq_num range "
        "onto the index range of the same document.")
    f = repo.func(TW, "concatenate_stream_datums")
    g = q.cfg(f, q.quiet_policy(repo))
    rets = [s for s in A.walk_stmts(f.node.body) if isinstance(s, ast.Return) and isinstance(s.value, ast.Call) and A.call_name(s.value) == "StreamDatum"]
    ctx.require(rets, "anchor vanished: the StreamDatum(...) result of concatenate_stream_datums")
    call = rets[0].value
    import copy as _copy
    ret_ids = g.nodes_of(rets[0])
    params = [a.arg for a in f.node.args.args] + ([f.node.args.vararg.arg] if f.node.args.vararg else [])

    def is_sort(v):
        """tuple(sorted(<x>, key=lambda d: d['indices']['start'])) / sorted(...) / list(sorted(...))"""
        while isinstance(v, ast.Call) and A.call_name(v) in ("tuple", "list") and len(v.args) == 1 and not v.keywords:
            v = v.args[0]
        if not (isinstance(v, ast.Call) and A.call_name(v) == "sorted" and len(v.args) == 1):
            return None
        k = A.kw(v, "key")
        if A.kw(v, "reverse") is not None or not isinstance(k, ast.Lambda) or len(k.args.args) != 1:
            return None
        a = k.args.args[0].arg
        if A.norm(k.body) != f"{a}['indices']['start']":
            return None
        return v.args[0]
    sort_stmts = [s for s in A.walk_stmts(f.node.body) if isinstance(s, ast.Assign) and len(s.targets) == 1 and isinstance(s.targets[0], ast.Name) and is_sort(s.value) is not None]

    def resolve(nid, e, depth=6):
        """reaching definitions followed back; a name whose only definition is the sort becomes SORTED, the untouched parameter INPUT"""
        def at(node_id, e, d):
            class X(ast.NodeTransformer):
                def visit_Name(self, n):
                    if not isinstance(n.ctx, ast.Load) or d <= 0:
                        return n
                    defs = q.reaching_defs(g, node_id, n.id)
                    if len(defs) == 1 and defs[0][0] == "param" and n.id in params:
                        return ast.Name(id="INPUT", ctx=ast.Load())
                    if len(defs) != 1 or defs[0][0] != "assign" or defs[0][1] is None or isinstance(defs[0][2].stmt, ast.AugAssign):
                        return n
                    st = defs[0][2].stmt
                    if st in sort_stmts:
                        src = at(defs[0][2].id, _copy.deepcopy(is_sort(st.value)), d - 1)
                        return ast.Name(id="SORTED" if A.norm(src) == "INPUT" else "SORTED_OF_SOMETHING_ELSE", ctx=ast.Load())
                    return at(defs[0][2].id, _copy.deepcopy(defs[0][1]), d - 1)
            return X().visit(_copy.deepcopy(e))
        return at(nid, e, depth)
    rid = ret_ids[0] if ret_ids else None
    sel = {}
    for field in ("indices", "seq_nums"):
        v = A.kw(call, field)
        if isinstance(v, ast.Call) and A.call_name(v) == "StreamRange" and rid is not None and A.kw(v, "start") is not None and A.kw(v, "stop") is not None:
            sel[field] = (A.norm(resolve(rid, A.kw(v, "start"))).replace(f"'{field}'", "'F'"), A.norm(resolve(rid, A.kw(v, "stop"))).replace(f"'{field}'", "'F'"))
    ok = len(sel) == 2 and sel["indices"] == sel["seq_nums"] and sel["indices"][0].endswith("[0]['F']['start']") and sel["indices"][1].endswith("[-1]['F']['stop']")
    ctx.ob("C36.D1-range-selectors-agree", cname(f, None, "indices and seq_nums both = [first.start, last.stop)"), ok,
           "" if ok else f"selectors are {sel}: the combined index range and seq_num range no longer describe the same documents", nontrivial=True, where=where(f, rets[0]))
    idf = {k: A.norm(resolve(rid, A.kw(call, k))) if rid is not None and A.kw(call, k) is not None else None for k in ("stream_resource", "descriptor", "uid")}
    ok = all(v in (f"SORTED[-1]['{k}']", f"SORTED[0]['{k}']", f"INPUT[-1]['{k}']", f"INPUT[0]['{k}']") for k, v in idf.items())
    ctx.ob("C36.D1-range-selectors-agree", cname(f, None, "identity fields taken from the input documents"), ok, "" if ok else f"identity fields changed: {idf}", where=where(f, rets[0]))
    ok = len(sel) == 2 and all(x.startswith("SORTED[") for v in sel.values() for x in v)
    ctx.ob("C36.D1-range-selectors-agree", cname(f, None, "documents sorted by start index before first / last are taken"), ok,
           "" if ok else "result built from unsorted input", nontrivial=True, where=where(f, f.node))
    # D2 guards dominate the result
    def uniq_test(t, field):
        """len({d[field] for d in <input or sorted>}) > 1   (also != 1)"""
        if not (isinstance(t, ast.Compare) and len(t.ops) == 1 and isinstance(t.ops[0], (ast.Gt, ast.NotEq)) and A.norm(t.comparators[0]) == "1"):
            return False
        c = t.left
        if not (isinstance(c, ast.Call) and A.call_name(c) == "len" and len(c.args) == 1):
            return False
        sc = c.args[0]
        if isinstance(sc, ast.Call) and A.call_name(sc) == "set" and len(sc.args) == 1:
            sc = sc.args[0]
        if not (isinstance(sc, (ast.SetComp, ast.GeneratorExp, ast.ListComp)) and len(sc.generators) == 1 and not sc.generators[0].ifs and isinstance(sc.generators[0].target, ast.Name)):
            return False
        v = sc.generators[0].target.id
        return A.norm(sc.elt) == f"{v}['{field}']"
    for field in ("descriptor", "stream_resource"):
        gs = []
        for s_ in A.walk_stmts(f.node.body):
            if isinstance(s_, ast.If) and any(isinstance(x, ast.Raise) and "ValueError" in A.norm(x) for x in s_.body) and g.nodes_of(s_):
                t = q.expand_at(g, g.nodes_of(s_)[0], s_.test, keep=tuple(params))
                if uniq_test(t, field):
                    src = None
                    for n_ in ast.walk(t):
                        if isinstance(n_, ast.comprehension):
                            src = A.norm(resolve(g.nodes_of(s_)[0], n_.iter))
                    if src in ("INPUT", "SORTED"):
                        gs.append(s_)
        ok = bool(gs) and q.dominated(g, rets[0], lambda n: n.kind == "test" and n.stmt is gs[0]) is None
        ctx.ob("C36.D2-guards-dominate-result", cname(f, None, f"documents of different {field}s are rejected"), ok, "" if ok else f"mixed {field}s are concatenated", nontrivial=True, where=where(f, f.node))
    ok = False
    for lp in [s_ for s_ in A.walk_stmts(f.node.body) if isinstance(s_, ast.For) and isinstance(s_.iter, ast.Call) and g.nodes_of(s_)]:
        it = lp.iter
        nid = g.nodes_of(lp)[0]
        pair_src = None
        if A.call_name(it) == "zip" and len(it.args) == 2:
            a0, a1 = A.norm(resolve(nid, it.args[0])), A.norm(resolve(nid, it.args[1]))
            if (a0, a1) in (("SORTED[:-1]", "SORTED[1:]"), ("SORTED", "SORTED[1:]")):
                pair_src = "SORTED"
        elif A.call_name(it) in ("pairwise", "itertools.pairwise") and len(it.args) == 1 and A.norm(resolve(nid, it.args[0])) == "SORTED":
            pair_src = "SORTED"
        if pair_src is None and A.call_name(it) == "range" and len(it.args) == 2 and A.norm(it.args[0]) == "1" and isinstance(lp.target, ast.Name) \
                and isinstance(it.args[1], ast.Call) and A.call_name(it.args[1]) == "len" and A.norm(resolve(nid, it.args[1].args[0])) == "SORTED":
            # index form: for i in range(1, len(S)): S[i - 1] ... S[i]
            i_ = lp.target.id
            seq_ = A.norm(it.args[1].args[0])
            t = [x for x in lp.body if isinstance(x, ast.If)]
            good = bool(t) and A.norm(t[0].test) in (f"{seq_}[{i_} - 1]['indices']['stop'] != {seq_}[{i_}]['indices']['start']",
                                                     f"{seq_}[{i_}]['indices']['start'] != {seq_}[{i_} - 1]['indices']['stop']") \
                and any(isinstance(x, ast.Raise) and "ValueError" in A.norm(x) for x in t[0].body)
            if good and q.dominated(g, rets[0], lambda n, lp=lp: n.kind == "for" and n.stmt is lp) is None:
                ok = True
            continue
        if pair_src is None or not (isinstance(lp.target, ast.Tuple) and len(lp.target.elts) == 2 and all(isinstance(e_, ast.Name) for e_ in lp.target.elts)):
            continue
        d1, d2 = (e_.id for e_ in lp.target.elts)
        t = [x for x in lp.body if isinstance(x, ast.If)]
        good = bool(t) and A.norm(t[0].test) in (f"{d1}['indices']['stop'] != {d2}['indices']['start']", f"{d2}['indices']['start'] != {d1}['indices']['stop']") \
            and any(isinstance(x, ast.Raise) and "ValueError" in A.norm(x) for x in t[0].body)
        if good and q.dominated(g, rets[0], lambda n, lp=lp: n.kind == "for" and n.stmt is lp) is None:
            ok = True
    ctx.ob("C36.D2-guards-dominate-result", cname(f, None, "every consecutive pair (after sorting) must be contiguous"), ok, "" if ok else "gaps / overlaps are accepted", nontrivial=True, where=where(f, f.node))
    single = [s for s in f.node.body if isinstance(s, ast.If) and A.norm(s.test) == "len(docs) == 1" and isinstance(s.body[0], ast.Return) and A.norm(s.body[0].value) == "docs[0]"]
    ctx.ob("C36.D2-guards-dominate-result", cname(f, None, "a single document is returned unchanged"), bool(single), "" if single else "single-document case changed", where=where(f, f.node))
    # D3
    c = repo.func(CO, "ConsolidatorBase.consume_stream_datum")
    body = [A.norm(s) for s in A.body(c.node)]
    want = ["self._num_rows += doc['indices']['stop'] - doc['indices']['start']", "new_seqnums = range(doc['seq_nums']['start'], doc['seq_nums']['stop'])",
            "new_indices = range(doc['indices']['start'], doc['indices']['stop'])", "self._seqnums_to_indices_map.update(dict(zip(new_seqnums, new_indices)))"]
    ok = body == want
    ctx.ob("C36.D3-seqnum-to-row", cname(c, None, "rows += stop - start; seq_num range zipped onto the index range"), ok, "" if ok else f"{body}", nontrivial=True, where=where(c, c.node))
    for k, fn in repo.funcs.items():
        if k.startswith(CO + ":") and k.endswith(".consume_stream_datum") and fn.key != c.key:
            ok = "super().consume_stream_datum(doc)" in A.norm(fn.node)
            ctx.ob("C36.D3-seqnum-to-row", cname(fn, None, "subclass keeps the base bookkeeping"), ok, "" if ok else "subclass drops the row / seq_num bookkeeping", where=where(fn, fn.node))

    d4_per_datum_chunking_only_under_concat(ctx, repo)


CLAIM = {
    "text": "Does not decide consolidator shape / chunk arithmetic. Decides that concatenate_stream_datums builds its index and seq_num ranges with the "
            "same (first.start, last.stop) selectors after one sort, that the descriptor / resource uniqueness tests and the pairwise contiguity "
            "test dominate the result, and that the consolidator maps each consumed seq_num range onto the index range of the same document.",
    "technique": "sibling agreement of the two range constructions resolved through reaching definitions to the sorted input; guard dominance; truth-table evaluation of the chunking guard",
}

T = "callbacks/tiled_writer.py"
MUTANTS = [
    ("per-datum chunking also for stacked datums (seed C36-b)", [("consolidators.py", "                self.join_method == \"stack\"\n                or (self.join_method == \"concat\" and self.join_chunks)", "                (self.join_method == \"concat\" and self.join_chunks)")], "C36.D4"),
    ("seq_nums taken from the wrong end", [(T, "        seq_nums=StreamRange(start=docs[0][\"seq_nums\"][\"start\"], stop=docs[-1][\"seq_nums\"][\"stop\"]),", "        seq_nums=StreamRange(start=docs[-1][\"seq_nums\"][\"start\"], stop=docs[-1][\"seq_nums\"][\"stop\"]),")], "C36.D1"),
    ("documents not sorted", [(T, "    docs = tuple(sorted(docs, key=lambda doc: doc[\"indices\"][\"start\"]))\n", "")], "C36.D1"),
    ("contiguity only checked for the first pair", [(T, "    for d1, d2 in zip(docs[:-1], docs[1:]):  # TODO: use itertools.pairwise(docs) in python 3.10+", "    for d1, d2 in zip(docs[:1], docs[1:2]):  # TODO: use itertools.pairwise(docs) in python 3.10+")], "C36.D2"),
    ("mixed resources accepted", [(T, "    if len({doc[\"stream_resource\"] for doc in docs}) > 1:\n        raise ValueError(\"All StreamDatum documents must reference the same stream_resource.\")\n", "")], "C36.D2"),
    ("row count advanced by the stop index", [("consolidators.py", "        self._num_rows += doc[\"indices\"][\"stop\"] - doc[\"indices\"][\"start\"]\n        new_seqnums", "        self._num_rows += doc[\"indices\"][\"stop\"]\n        new_seqnums")], "C36.D3"),
    ("contiguity checked before sorting", [(T, "    docs = tuple(sorted(docs, key=lambda doc: doc[\"indices\"][\"start\"]))\n    for d1, d2 in zip(docs[:-1], docs[1:]):  # TODO: use itertools.pairwise(docs) in python 3.10+\n        if d1[\"indices\"][\"stop\"] != d2[\"indices\"][\"start\"]:\n            raise ValueError(\"StreamDatum documents must be consecutive.\")\n",
                                            "    for d1, d2 in zip(docs[:-1], docs[1:]):  # TODO: use itertools.pairwise(docs) in python 3.10+\n        if d1[\"indices\"][\"stop\"] != d2[\"indices\"][\"start\"]:\n            raise ValueError(\"StreamDatum documents must be consecutive.\")\n    docs = tuple(sorted(docs, key=lambda doc: doc[\"indices\"][\"start\"]))\n")], "C36.D2"),
]
BENIGN = []
