"""C05 - seq_num and num_events account for every event exactly."""

from __future__ import annotations

import ast

from .. import astutil as A
from .. import q
from ..idioms import cname, where
from ..re_model import BCLS, BMOD, CLS, MOD, REModel


def discriminating_container(rw_node):
    """The self.<attr> that RunBundler.rewind consults to decide which streams keep their live counters."""
    for n in A.walk_local(rw_node):
        if isinstance(n, ast.Compare) and len(n.ops) == 1 and isinstance(n.ops[0], (ast.In, ast.NotIn)):
            ch = A.chain(n.comparators[0]) or ""
            if ch.startswith("self.") and ch not in ("self._sequence_counters", "self._sequence_counters_copy", "self._descriptor_objs"):
                return ch[5:]
    return None


def d1_unreplayed_streams_keep_numbers(ctx, rm: REModel, streams=("interruptions", "monitor", "collect"), rule="C05.D1-unreplayed-streams-keep-counters"):
    rw = rm.b("rewind")
    seq = list(A.walk_stmts(rw.node.body))
    i_clear = next((i for i, s in enumerate(seq) if A.norm(s) == "self._sequence_counters.clear()"), None)
    restores_all = i_clear is not None or any("self._sequence_counters_copy" in A.norm(s) and "self._sequence_counters" in A.norm(s) for s in seq)
    X = discriminating_container(rw.node)
    if not restores_all:
        ctx.ob(rule, cname(rw, None, "restore shape"), True, "rewind does not bulk-restore the counters; per-stream rule not needed")
        return
    if X is None:
        ctx.ob(rule, cname(rw, None, "restore is key-discriminating"), False,
               "rewind restores every stream's counter from the checkpoint snapshot: events that are never replayed (interruption records, "
               "monitor updates, collected data) get their seq_nums issued twice and RunStop.num_events under-counts them", nontrivial=True,
               where=where(rw, rw.node))
        return
    # the live values are captured before the bulk restore and re-applied after it
    i_save = next((i for i, s in enumerate(seq) if isinstance(s, ast.Assign) and f"self.{X}" in A.norm(s.value) and "self._sequence_counters" in A.norm(s.value)), None)
    saved = A.norm(seq[i_save].targets[0]) if i_save is not None else None
    i_reapply = next((i for i, s in enumerate(seq) if saved and A.norm(s) == f"self._sequence_counters.update({saved})"), None)
    i_upd = next((i for i, s in enumerate(seq) if A.norm(s) == "self._sequence_counters.update(self._sequence_counters_copy)"), None)
    ok = None not in (i_save, i_reapply, i_upd) and (i_clear is None or i_save < i_clear) and i_upd < i_reapply
    ctx.ob(rule, cname(rw, None, f"live counters of streams in self.{X} saved before and re-applied after the restore"), ok,
           "" if ok else "the live counters of never-replayed streams are not preserved across the restore", nontrivial=True, where=where(rw, rw.node))
    # every never-replayed emitter registers its stream in X
    if "interruptions" in streams:
        opn = rm.b("open_run")
        ok = False
        for s in A.walk_stmts(opn.node.body):
            if isinstance(s, ast.If) and A.norm(s.test) == "self.record_interruptions":
                comp = [c for c in A.calls_in(s) if (A.call_name(c) or "").endswith("_compose_descriptor")]
                name = A.const_str(A.kw(comp[0], "name")) if comp else None
                adds = [c for c in A.calls_in(s) if A.call_name(c) == f"self.{X}.add" and c.args and A.const_str(c.args[0]) == name]
                ok = bool(adds) and name is not None
        ctx.ob(rule, cname(opn, None, f"interruptions stream registered in self.{X}"), ok,
               "" if ok else "interruption records are rolled back by a rewind (their seq_nums repeat)", nontrivial=True, where=where(opn, opn.node))
    if "monitor" in streams:
        mon = rm.b("monitor")
        prep = [c for c in A.calls_in(mon.node) if (A.call_name(c) or "").endswith("_prepare_stream")]
        name = A.norm(prep[0].args[0]) if prep and prep[0].args else None
        adds = [c for c in A.calls_in(mon.node) if A.call_name(c) == f"self.{X}.add" and c.args and A.norm(c.args[0]) == name]
        ctx.ob(rule, cname(mon, None, f"monitor stream registered in self.{X}"), bool(adds) and name is not None,
               "" if adds else "monitor events are rolled back by a rewind (their seq_nums repeat)", nontrivial=True, where=where(mon, mon.node))
    if "collect" in streams:
        col = rm.b("collect")
        adds = [c for c in A.calls_in(col.node) if A.call_name(c) == f"self.{X}.add" and c.args and A.norm(c.args[0]) == "stream_name"]
        ctx.ob(rule, cname(col, None, f"declared collect stream registered in self.{X}"), bool(adds),
               "" if adds else "collected data of a declared stream are rolled back by a rewind", nontrivial=True, where=where(col, col.node))
        # ... on every path: whichever way collect arrived at the name of a declared stream (given in the message, inferred from the single
        # declaration), the stream is registered before collect returns
        gc = q.cfg(col, q.quiet_policy(rm.repo))
        named = [n for n in gc.nodes if n.kind == "stmt" and isinstance(n.stmt, (ast.Assign, ast.AnnAssign)) and n.stmt.value is not None
                 and any(isinstance(t, ast.Name) and t.id == "stream_name" for t in A.targets_of(n.stmt))
                 and not (isinstance(n.stmt.value, ast.Constant) and n.stmt.value.value is None)]
        for n in named:
            starts = [v for v, lab in gc.succ[n.id] if not (isinstance(lab, tuple) and lab[0] == "exc")]
            w = gc.must_pass(starts, lambda m: m.kind == "stmt" and m.stmt is not None and any(
                A.call_name(c) == f"self.{X}.add" and c.args and A.norm(c.args[0]) == "stream_name" for c in A.calls_in(m.stmt))
                and not isinstance(m.stmt, (ast.If, ast.For, ast.While, ast.Try, ast.With)), exits=[gc.exit],
                # collect itself treats a falsy name as "no declared stream" (old-style describe_collect path): nothing to register there
                edge_ok=lambda u, v, lab: not (gc.nodes[u].kind == "test" and gc.nodes[u].ast is not None and (
                    (A.norm(gc.nodes[u].ast) == "stream_name" and lab == "F") or (A.norm(gc.nodes[u].ast) == "not stream_name" and lab == "T")
                    or (A.norm(gc.nodes[u].ast).startswith("not stream_name and ") and lab == "T"))))
            ctx.ob(rule, cname(col, n.stmt, "registered on every path to the return"), w is None,
                   "" if w is None else f"after `{A.head(n.stmt)}` collect can return without registering the stream in self.{X}: a rewind rolls its counter back to the "
                   "checkpoint although the collected datums are never replayed - later datums repeat seq_nums", nontrivial=True, witness=w[-6:] if w else None, where=where(col, n.stmt))
        ctx.require(named, "anchor vanished: the definitions of `stream_name` in RunBundler.collect")
        dc = rm.b("_describe_collect")
        loops = [s for s in A.walk_stmts(dc.node.body) if isinstance(s, ast.For) and "describe_collect_items" in A.norm(s.iter)]
        ok = bool(loops) and any(A.call_name(c) == f"self.{X}.add" and c.args and isinstance(c.args[0], ast.Name) and c.args[0].id in A.names_in(loops[-1].target)
                                 for c in A.calls_in(loops[-1]))
        ctx.ob(rule, cname(dc, None, f"described collect streams registered in self.{X}"), ok,
               "" if ok else "collected data of nested (describe_collect) streams are rolled back by a rewind", nontrivial=True, where=where(dc, dc.node))
    # who else writes X
    q.check_writers(ctx, rule.replace("keep-counters", "container-writers"), rm.repo, X,
                    {f"{BCLS}.__init__": "created empty", f"{BCLS}.open_run": "interruptions", f"{BCLS}.monitor": "monitor stream",
                     f"{BCLS}.collect": "declared collect stream", f"{BCLS}._describe_collect": "nested collect streams"}, modules=[BMOD], min_instances=2)


def d2_numbering_is_the_counters(ctx, rm: REModel):
    repo = rm.repo
    n = 0
    for f in repo.funcs_in(BMOD):
        for c in A.calls_in(f.node):
            cn = A.chain(c.func) or ""
            if "compose_event" in cn.split(".")[-1] or cn.split(".")[-1] in ("_interruptions_compose_event",):
                n += 1
                bad = A.kw(c, "seq_num") is not None
                ctx.ob("C05.D2-no-explicit-seq-num", cname(f, c), not bad,
                       "" if not bad else "an explicit seq_num bypasses the run's shared counter", where=where(f, c))
    ctx.expect("C05.D2-no-explicit-seq-num", 5)
    opn = rm.b("open_run")
    cr = A.find_calls(opn.node, "compose_run")
    ok = bool(cr) and A.norm(A.kw(cr[0], "event_counters")) == "self._sequence_counters"
    ctx.ob("C05.D2-shared-counters", cname(opn, None, "compose_run(event_counters=self._sequence_counters)"), ok,
           "" if ok else "event_model no longer counts in the bundler's counter dict (num_events and seq_num diverge)", where=where(opn, opn.node))
    # nobody rebinds the shared dict
    for f, s, kind in q.attr_writers(repo, "_sequence_counters", modules=[BMOD]):
        if kind == "assign":
            ok = f.qualname == f"{BCLS}.__init__"
            ctx.ob("C05.D2-shared-counters", cname(f, s), ok, "" if ok else "the shared counter dict is rebound after compose_run captured it", where=where(f, s))
    ps = rm.b("_prepare_stream")
    ifs = [s for s in A.walk_stmts(ps.node.body) if isinstance(s, ast.If) and A.norm(s.test) == "desc_key not in self._sequence_counters"]
    ok = bool(ifs) and any(A.norm(x) == "self._sequence_counters[desc_key] = 1" for x in ifs[0].body) and any(
        A.norm(x) == "self._sequence_counters_copy[desc_key] = 1" for x in ifs[0].body)
    ctx.ob("C05.D2-streams-start-at-1", cname(ps, None, "a new stream's counter and snapshot start at 1"), ok,
           "" if ok else "a new stream does not start numbering at 1 (or resets an existing stream)", where=where(ps, ps.node))


def d3_collect_accounting(ctx, rm: REModel, rule="C05.D3-collect-advances-by-indices"):
    col = rm.b("collect")
    # every statement of collect that writes the stream's counter
    bumps = [s for s in A.walk_stmts(col.node.body) if isinstance(s, (ast.Assign, ast.AugAssign, ast.AnnAssign)) and
             any(isinstance(t, ast.Subscript) and A.norm(t.value) == "self._sequence_counters" for t in A.targets_of(s))]
    for s in bumps:
        ok = isinstance(s, ast.AugAssign) and isinstance(s.op, ast.Add) and A.norm(s.value) == "indices_difference" and A.norm(s.target) == "self._sequence_counters[stream_name]"
        ctx.ob(rule, cname(col, s), ok, "" if ok else "the counter does not advance by exactly the number of indices declared by the stream datums "
               "(it is set from something else: seq_nums of later stream datums are no longer contiguous and num_events is wrong)",
               nontrivial=True, where=where(col, s))
    ctx.ob(rule, cname(col, None, "collect advances the counter itself where no events do"), len(bumps) >= 1,
           "" if bumps else "no counter bump left in collect", where=where(col, col.node))
    g = q.cfg(col, q.quiet_policy(rm.repo))
    for s in bumps:
        nid = g.nodes_of(s)
        defs = q.reaching_defs(g, nid[0], "indices_difference") if nid else []
        ok = bool(defs) and all(kind == "assign" and "_pack_external_assets" in A.norm(val) for kind, val, _n in defs)
        ctx.ob(rule, cname(col, s) + " <- _pack_external_assets", ok, "" if ok else "indices_difference is not the value returned for the packed stream datums",
               nontrivial=True, where=where(col, s))
    # coverage: from the packing of the stream datums every normal return passes a bump or an event emitter (which counts through event_model)
    defs = [s for s in A.walk_stmts(col.node.body) if isinstance(s, ast.Assign) and any(isinstance(t, ast.Name) and t.id == "indices_difference" for t in s.targets)]
    if defs:
        cut = {id(b) for b in bumps} | {id(s) for s in A.walk_stmts(col.node.body) if not isinstance(s, (ast.If, ast.For, ast.While, ast.Try, ast.With))
                                        and (A.find_calls(s, "_collect_events") or A.find_calls(s, "_collect_event_pages"))}
        starts = [n for d in defs for n in g.nodes_of(d)]
        seen = g.reachable(starts, avoid=lambda n: n.stmt is not None and id(n.stmt) in cut)
        esc = [p for p, label in g.pred[g.exit] if p in seen]
        ok = not esc
        ctx.ob(rule, cname(col, None, "every return after the packing passed a counter bump or an event emitter"), ok,
               "" if ok else "a path through collect packs stream datums but neither emits events nor advances the counter: the next datums reuse seq_nums",
               nontrivial=True, witness=None if ok else g.path_to(seen, esc[0])[-8:], where=where(col, col.node))
    pk = rm.b("_pack_seq_nums_into_stream_datum")
    # what is stored in doc['seq_nums'], with the function's temporaries substituted
    st_seq = [x for x in A.walk_stmts(pk.node.body) if isinstance(x, ast.Assign) and A.norm(x.targets[0]) == "doc['seq_nums']"]
    ok1 = ok2 = ok3 = False
    if len(st_seq) == 1:
        v = q.expand(pk.node, st_seq[0].value)
        counter, width = "self._sequence_counters[message_stream_name]", "doc['indices']['stop'] - doc['indices']['start']"
        ok3 = isinstance(v, ast.Call) and A.call_name(v) == "StreamRange" and A.kw(v, "start") is not None and A.kw(v, "stop") is not None
        if ok3:
            ok2 = A.norm(A.kw(v, "start")) == counter
            ok1 = A.norm(A.kw(v, "stop")).replace("(", "").replace(")", "") in (f"{counter} + {width}", f"{width} + {counter}")
    ctx.ob(rule, cname(pk, None, "seq_nums = [counter, counter + (stop - start))"), ok1 and ok2 and ok3,
           "" if (ok1 and ok2 and ok3) else "stream-datum seq_nums are no longer contiguous with the stream's event counter", where=where(pk, pk.node))
    ok = any(isinstance(s, ast.Return) and A.norm(s.value) == "indices_difference" for s in A.walk_stmts(pk.node.body))
    ctx.ob(rule, cname(pk, None, "returns the width"), ok, "" if ok else "the width of the datum is not returned", where=where(pk, pk.node))
    pe = rm.b("_pack_external_assets")
    ok = any(isinstance(s, ast.Return) and A.norm(s.value) == "stream_datum_previous_indices_difference" for s in A.walk_stmts(pe.node.body))
    ctx.ob(rule, cname(pe, None, "returns the common width"), ok, "" if ok else "_pack_external_assets no longer returns the datum width", where=where(pe, pe.node))
    sv = rm.b("save")
    ifs = [s for s in A.walk_stmts(sv.node.body) if isinstance(s, ast.If) and A.norm(s.test) == "indices_generated > 1" and any(isinstance(x, ast.Raise) for x in s.body)]
    ctx.ob(rule, cname(sv, None, "a saved event accepts at most one index per stream datum"), bool(ifs),
           "" if ifs else "save no longer rejects stream datums wider than the single event it emits", where=where(sv, sv.node))


def run(ctx):
    rm = REModel(ctx.repo)
    # the counter snapshot is refreshed by every checkpoint reset that is not skipped for "no checkpoint in effect" (seed C05-c: skipped on an
    # EMPTY cache, i.e. whenever the engine had been running non-rewindable)
    from . import c04

    c04.reset_skipped_only_without_checkpoint(ctx, rm, "C05.D4-reset-shape")
    ctx.explanation = (
        "Decided: D1 RunBundler.rewind bulk-restores counters from the checkpoint snapshot but keeps the live counters of the "
        "streams registered as never replayed, and every never-replayed emitter (interruptions descriptor, monitor, declared and "
        "nested collect streams) registers its stream name there; D2 no bluesky call passes an explicit seq_num, event_model "
        "counts in the bundler's own dict which is never rebound, new streams start at 1; D3 collect advances the counter by exactly "
        "the width returned for the packed stream datums and stream-datum seq_nums are built from the same counter. "
        "D4 re-enabling rewinding snapshots the counters (truth table of the rewindable setter), so events emitted while "
        "not rewindable are never rolled back. Not decided: gaplessness under arbitrary device behaviour (event_model's compose functions are trusted).")
    d1_unreplayed_streams_keep_numbers(ctx, rm)
    d2_numbering_is_the_counters(ctx, rm)
    d3_collect_accounting(ctx, rm)
    from . import c04
    c04.rewindable_toggle_resets(ctx, rm, "C05.D4-snapshot-when-rewinding-is-re-enabled", directions=((False, True),))
    snap = rm.b("reset_checkpoint_state")
    ok = any(q.copies_all_items(st, "self._sequence_counters", "self._sequence_counters_copy", snap.node) for st in A.walk_stmts(snap.node.body))
    ctx.ob("C05.D4-snapshot-when-rewinding-is-re-enabled", cname(snap, None, "the reset snapshots every stream's counter"), ok,
           "" if ok else "the checkpoint no longer snapshots the sequence counters", where=where(snap, snap.node))


CLAIM = {
    "text": "Decides the bookkeeping that makes seq_num / num_events exact: rewind keeps the live counters of streams whose events are never "
            "replayed and each such emitter registers its stream (def-use between the registering sites and the restore); numbering always "
            "comes from the run's single shared counter dict (no explicit seq_num, dict never rebound, streams start at 1); collect advances "
            "by exactly the declared index width and stream-datum seq_nums are derived from the same counter; the checkpoint reset that snapshots the counters is skipped only when no checkpoint is in effect. Gaplessness under arbitrary "
            "device behaviour is not decided.",
    "technique": "def-use / provenance between emitter sites and the rewind restore; ownership; reaching definitions; sibling agreement of the two collect branches",
}

BU = "bundlers.py"
MUTANTS = [
    ("an inferred stream name is not registered as never replayed (seed C45-c)",
     [(BU, "            stream_name = message_stream_name\n", "            stream_name = message_stream_name\n            self._unreplayed_streams.add(stream_name)\n"),
      (BU, "        if stream_name:\n            self._unreplayed_streams.add(stream_name)\n        else:\n", "        if not stream_name:\n")], "C05.D1"),
    ("rewind rolls back every stream (revert of the F-3 fix)",
     [(BU, "        self._sequence_counters.update(self._sequence_counters_copy)\n        self._sequence_counters.update(live_counters)\n", "        self._sequence_counters.update(self._sequence_counters_copy)\n")], "C05.D1"),
    ("monitor stream no longer registered",
     [(BU, "        self._unreplayed_streams.add(name)\n", "")], "C05.D1"),
    ("interruptions stream registered under another name",
     [(BU, '            self._unreplayed_streams.add("interruptions")', '            self._unreplayed_streams.add("interruption")')], "C05.D1"),
    ("live counters captured after the clear",
     [(BU, "        live_counters = {k: v for k, v in self._sequence_counters.items() if k in self._unreplayed_streams}\n        self._sequence_counters.clear()\n",
       "        self._sequence_counters.clear()\n        live_counters = {k: v for k, v in self._sequence_counters.items() if k in self._unreplayed_streams}\n")], "C05.D1"),
    ("collect bumps the counter by one",
     [(BU, "        else:\n            # Since there are no events or event_pages incrementing the sequence counter, we do it ourselves.\n            self._sequence_counters[stream_name] += indices_difference",
       "        else:\n            # Since there are no events or event_pages incrementing the sequence counter, we do it ourselves.\n            self._sequence_counters[stream_name] += 1")], "C05.D3"),
    ("explicit seq_num passed for interruption records",
     [(BU, '                timestamps={"interruption": ttime.time()},\n            )', '                timestamps={"interruption": ttime.time()},\n                seq_num=self._interruptions_counter + 1,\n            )')], "C05.D2"),
    ("stream datum seq_nums start one too early",
     [(BU, "doc[\"seq_nums\"] = StreamRange(start=current_seq_counter, stop=current_seq_counter + indices_difference)", "doc[\"seq_nums\"] = StreamRange(start=current_seq_counter - 1, stop=current_seq_counter - 1 + indices_difference)")], "C05.D3"),
    ("new stream counter reset on re-prepare",
     [(BU, "        if desc_key not in self._sequence_counters:\n            self._sequence_counters[desc_key] = 1\n            self._sequence_counters_copy[desc_key] = 1\n\n        return (", "        self._sequence_counters[desc_key] = 1\n        self._sequence_counters_copy[desc_key] = 1\n\n        return (")], "C05.D2"),
    ("compose_run gets its own counter dict",
     [(BU, "event_counters=self._sequence_counters, metadata=self._md)", "event_counters=dict(self._sequence_counters), metadata=self._md)")], "C05.D2"),
    ("nested collect streams not registered",
     [(BU, "        for stream_name, stream_data_keys in describe_collect_items:\n            self._unreplayed_streams.add(stream_name)\n", "        for stream_name, stream_data_keys in describe_collect_items:\n")], "C05.D1"),
    ("a rewind also forgets the registered streams",
     [(BU, "        # before the paired 'save'.\n        self.bundling = False", "        # before the paired 'save'.\n        self.bundling = False\n        self._unreplayed_streams.clear()")], "C05.D1"),
]
BENIGN = [
    ("saved counters renamed",
     [(BU, "        live_counters = {k: v for k, v in self._sequence_counters.items() if k in self._unreplayed_streams}", "        kept = {k: v for k, v in self._sequence_counters.items() if k in self._unreplayed_streams}"),
      (BU, "        self._sequence_counters.update(live_counters)", "        self._sequence_counters.update(kept)")]),
    ("comment reflowed in rewind", [(BU, "        # events of these streams were emitted for good: keep their live counters\n", "        # events of these streams were emitted for good:\n        # keep their live counters\n")]),
]
