"""C09 - a deferred pause takes effect exactly at the next checkpoint."""

from __future__ import annotations

import ast

from .. import astutil as A
from .. import q
from ..idioms import cname, where
from ..re_model import CLS, MOD, REModel


def is_flag_write(s, value=None):
    if isinstance(s, ast.Assign) and A.chain(s.targets[0]) == "self._deferred_pause_requested":
        return value is None or (isinstance(s.value, ast.Constant) and s.value.value is value)
    return False


def d3_suspend_before_send(ctx, rm: REModel, rule="C09.D3-suspend-before-next-message"):
    """In the message loop a suspension point dominates pulling the next message from the plan."""
    repo = rm.repo
    run = rm.run
    gq = q.cfg(run, q.quiet_policy(repo))
    sends = [s for s in A.walk_stmts(rm.inner_try.body) if any(isinstance(c.func, ast.Attribute) and c.func.attr == "send" and "self._plan_stack[-1]" in A.norm(c.func.value)
                                                              for c in A.calls_in(s)) and not isinstance(s, (ast.Try, ast.If))]
    ctx.require(sends, "anchor vanished: self._plan_stack[-1].send(resp) in _run")
    inner_ids = {id(x) for x in A.walk_stmts(rm.inner_try.body)}
    for s in sends:
        # cut: the normal completion of an `await asyncio.sleep(...)` statement inside the inner try; also allow the
        # path on which an exception is being propagated (stashed_exception is not None -> throw, not send)
        def edge_ok(u, v, label, _g=gq):
            n = _g.nodes[u]
            if n.kind == "stmt" and n.stmt is not None and id(n.stmt) in inner_ids and A.has_await(n.stmt) and "asyncio.sleep" in A.norm(n.stmt):
                return False
            if n.kind == "test" and A.norm(n.ast) == "stashed_exception is None" and label == "F":
                return False
            return True
        # start from the loop head (each iteration must suspend)
        heads = gq.nodes_of(rm.loop)
        heads = [h for h in heads if gq.nodes[h].kind == "test"]
        seen = gq.reachable(heads, edge_ok=edge_ok)
        bad = [t for t in gq.nodes_of(s) if t in seen]
        w = gq.path_to(seen, bad[0]) if bad else None
        ctx.ob(rule, cname(run, s), not bad,
               "" if not bad else "the next message can be pulled from the plan in the same loop iteration without yielding to the event loop: "
               "a pause requested by the previous message would run one message late", nontrivial=True, witness=w[-8:] if w else None, where=where(run, s))
    # the `stashed_exception is None` branch taking the F edge must not reach send (it throws instead)
    tests = [n for n in gq.nodes if n.kind == "test" and "stashed_exception is not None" in A.norm(n.ast)]
    ctx.ob(rule, cname(run, None, "send only on the no-exception branch"), bool(tests),
           "" if tests else "anchor: the test selecting throw vs send vanished", where=where(run, rm.inner_try))


CLAIM = {'text': "Decides that the deferred-pause flag is set only on the accepted deferred branch and cleared only by a hard pause or the start of the next call (closed-world writers: _run's termination does not clear it), that in the checkpoint handler the bundling guard and the checkpoint reset dominate a pause requested with defer=False on the flag's true branch, that the checkpoint handler is referenced only as the registry's entry for 'checkpoint' and no other reader of the flag pauses, and that in the message loop a suspension point dominates pulling the next message. Interaction with clear_checkpoint is not decided.", 'technique': 'ownership table; dominance on the handler CFG; cut-edge reachability in the message loop'}


def run(ctx):
    rm = REModel(ctx.repo)
    repo = rm.repo
    ctx.explanation = (
        "Decided: D1 closed-world writers of the deferred-pause flag (set only by a deferred request, cleared only by a hard "
        "pause or at the start of the next call - in particular not by _run's termination); D2 in the checkpoint handler the "
        "bundling guard and the checkpoint reset dominate the deferred pause, which is requested with defer=False on the flag's "
        "true branch; D3 in the message loop a suspension point dominates pulling the next message, so nothing runs between the "
        "pause request and the pause. Not decided: interaction with clear_checkpoint (observation O-1).")
    q.per_call_reset(ctx, rm, "C09.D1-flag-cleared-per-call", ["_deferred_pause_requested"])
    # 'resuming from that pause replays nothing': the checkpoint at which the deferred pause is taken really empties the replay cache
    from . import c04

    c04.reset_skipped_only_without_checkpoint(ctx, rm, "C09.D2-checkpoint-empties-the-cache")
    # D1
    q.check_writers(ctx, "C09.D1-flag-writers", repo, "_deferred_pause_requested",
                    {f"{CLS}.__init__": "initially False", f"{CLS}._clear_call_cache": "cleared when the next plan starts",
                     f"{CLS}._request_pause_coro": "set by a deferred request / cleared by a hard pause"}, min_instances=3)
    rp = rm.m("_request_pause_coro")
    g = q.cfg(rp, q.quiet_policy(repo))
    for s in q.stmts(rp, lambda s: is_flag_write(s, True)):
        w = q.guard_true_dominates(g, s, lambda t: A.norm(t) == "defer", "T")
        w2 = q.guard_true_dominates(g, s, lambda t: "can_pause" in A.norm(t), "F")
        ctx.ob("C09.D1-flag-values", cname(rp, s), w is None and w2 is None,
               "" if (w is None and w2 is None) else "the flag is set outside the accepted deferred branch", nontrivial=True, witness=w or w2, where=where(rp, s))
    ctx.expect("C09.D1-flag-values", 1)
    # the deferred branch returns without pausing
    ifs = [s for s in rp.node.body if isinstance(s, ast.If) and A.norm(s.test) == "defer"]
    ok = bool(ifs) and isinstance(ifs[0].body[-1], ast.Return) and not any(rm.is_state_write(x) for x in A.walk_stmts(ifs[0].body)) \
        and not A.find_calls(ast.Module(body=ifs[0].body, type_ignores=[]), "cancel")
    ctx.ob("C09.D1-flag-values", cname(rp, None, "deferred branch only records the request"), ok,
           "" if ok else "a deferred request changes the state / cancels the task immediately", where=where(rp, rp.node))
    # the property exposes the flag unchanged
    prop = repo.func(MOD, f"{CLS}.deferred_pause_requested")
    ok = any(isinstance(s, ast.Return) and A.chain(s.value) == "self._deferred_pause_requested" for s in prop.node.body)
    ctx.ob("C09.D1-flag-values", cname(prop, None, "returns the flag"), ok, "" if ok else "deferred_pause_requested no longer reports the flag", where=where(prop, prop.node))

    # D2: order inside _checkpoint
    cp = rm.handler("checkpoint")
    g = q.cfg(cp, q.quiet_policy(repo))
    pause_calls = q.stmts(cp, q.stmt_calls("_request_pause_coro"))
    ctx.require(pause_calls, "anchor vanished: the deferred pause request in RunEngine._checkpoint")
    for s in pause_calls:
        c = A.find_calls(s, "_request_pause_coro")[0]
        d = A.kw(c, "defer")
        ok = (isinstance(d, ast.Constant) and d.value is False) or (not c.args and d is None)
        ctx.ob("C09.D2-checkpoint-order", cname(cp, None, "pause requested with defer=False"), ok,
               "" if ok else "the checkpoint re-defers the pause instead of pausing", where=where(cp, s))
        w = q.dominated(g, s, q.node_pred_stmt(lambda x: bool(A.find_calls(x, "_reset_checkpoint_state_coro") or A.find_calls(x, "_reset_checkpoint_state")
                                                              or A.find_calls(x, "_reset_checkpoint_state_meth")) and not isinstance(x, (ast.If, ast.For))))
        ctx.ob("C09.D2-checkpoint-order", cname(cp, None, "checkpoint reset dominates the deferred pause"), w is None,
               "" if w is None else "the pause can be taken before the checkpoint is recorded (the resume would replay earlier messages)",
               nontrivial=True, witness=w, where=where(cp, s))
        w = q.guard_true_dominates(g, s, lambda t: A.norm(t) == "self._deferred_pause_requested", "T")
        ctx.ob("C09.D2-checkpoint-order", cname(cp, None, "pause only when a deferred request is pending"), w is None,
               "" if w is None else "the checkpoint pauses without a pending deferred request", nontrivial=True, witness=w, where=where(cp, s))
    # the deferred request is consumed at a 'checkpoint' message and nowhere else: the handler is referenced only as the registry's
    # entry for "checkpoint", and no other function turns the pending flag into a pause
    cpname = cp.qualname.split(".")[-1]
    allowed_ids, seen, n_ref = set(), set(), 0
    for f in repo.all_funcs():
        for d in ast.walk(f.node):
            if isinstance(d, ast.Dict):
                allowed_ids |= {id(v) for k, v in zip(d.keys, d.values) if k is not None and A.const_str(k) == "checkpoint"}
            if isinstance(d, ast.Assign) and isinstance(d.targets[0], ast.Subscript) and A.const_str(d.targets[0].slice) == "checkpoint":
                allowed_ids.add(id(d.value))
    for f in repo.all_funcs():
        for s_ in reversed(list(A.walk_stmts(f.node.body))):  # innermost statement first
            if isinstance(s_, (ast.FunctionDef, ast.AsyncFunctionDef, ast.ClassDef)):
                continue
            for n in ast.walk(s_):
                if isinstance(n, ast.Attribute) and n.attr == cpname and id(n) not in seen:
                    seen.add(id(n))
                    n_ref += 1
                    ok = id(n) in allowed_ids
                    ctx.ob("C09.D2-pause-only-at-checkpoint", cname(f, s_, f"reference to {cpname}"), ok,
                           "" if ok else f"`{A.head(s_)}` runs the checkpoint handler for a message that is not a checkpoint: a pending deferred pause is taken there, "
                           "i.e. not at the next checkpoint, and the message gets checkpoint semantics", nontrivial=True, where=where(f, s_))
                if isinstance(n, ast.Attribute) and n.attr in ("_deferred_pause_requested", "deferred_pause_requested") and isinstance(n.ctx, ast.Load) and id(n) not in seen:
                    seen.add(id(n))
                    if f.qualname in (cp.qualname, prop.qualname):
                        continue
                    acts = [c for c in A.calls_in(f.node) if "request_pause" in (A.call_name(c) or "")] + [x for x in A.walk_stmts(f.node.body) if rm.is_state_write(x)]
                    ctx.ob("C09.D2-pause-only-at-checkpoint", cname(f, s_, "reads the pending flag"), not acts,
                           "" if not acts else "a function other than the checkpoint handler reads the pending deferred request and pauses / changes the state",
                           where=where(f, s_))
    ctx.ob("C09.D2-pause-only-at-checkpoint", f"{MOD}:references to the checkpoint handler", n_ref >= 1, f"{n_ref} reference(s)", where="")
    # the bundling guard raises before the reset
    guard = [s for s in A.walk_stmts(cp.node.body) if isinstance(s, ast.If) and "bundling" in A.norm(s.test)
             and any(isinstance(x, ast.Raise) and "IllegalMessageSequence" in A.norm(x) for x in s.body)]
    resets = [s for s in A.walk_stmts(cp.node.body) if not isinstance(s, (ast.If, ast.For, ast.Try)) and any(
        (A.call_name(c) or "").startswith("self._reset_checkpoint_state") for c in A.calls_in(s))]
    ok = bool(guard) and bool(resets)
    if ok:
        seq = list(A.walk_stmts(cp.node.body))
        ok = seq.index(guard[0]) < seq.index(resets[0])
    ctx.ob("C09.D2-checkpoint-order", cname(cp, None, "bundling guard before the reset"), ok,
           "" if ok else "a checkpoint inside an open bundle is no longer rejected before the checkpoint is recorded", where=where(cp, cp.node))
    # the hard pause clears the flag
    clears = q.stmts(rp, lambda s: is_flag_write(s, False))
    ctx.ob("C09.D2-checkpoint-order", cname(rp, None, "hard pause clears the pending flag"), bool(clears),
           "" if clears else "after pausing at the checkpoint the request stays pending (the next checkpoint would pause again)", where=where(rp, rp.node))

    d3_suspend_before_send(ctx, rm)


RE = "run_engine.py"
MUTANTS = [
    ("rewindable toggle runs the checkpoint handler (seed C09-c)",
     [(RE, "        if rw_flag is not None:\n            self.rewindable = rw_flag\n", "        if rw_flag is not None:\n            changed = bool(rw_flag) != self.rewindable\n            self.rewindable = rw_flag\n            if changed and self.resumable:\n                await self._checkpoint(msg)\n")], "C09.D2"),
    ("the save handler takes a pending deferred pause",
     [(RE, "        (rw_flag,) = msg.args\n", "        (rw_flag,) = msg.args\n        if self._deferred_pause_requested:\n            await self._request_pause_coro(defer=False)\n")], "C09.D2"),
    ("termination of _run clears the pending request",
     [(RE, "            self._pardon_failures.set()\n            # call stop() on every movable", "            self._pardon_failures.set()\n            self._deferred_pause_requested = False\n            # call stop() on every movable")], "C09.D1"),
    ("checkpoint pauses before recording the checkpoint",
     [(RE, "        await self._reset_checkpoint_state_coro()\n\n        if self._deferred_pause_requested:\n            # We are at a checkpoint; we are done deferring the pause.\n            # Give the _check_for_signals coroutine time to look for\n            # additional SIGINTs that would trigger an abort.\n            await asyncio.sleep(0.5, **self._loop_for_kwargs)\n            await self._request_pause_coro(defer=False)",
       "        if self._deferred_pause_requested:\n            await asyncio.sleep(0.5, **self._loop_for_kwargs)\n            await self._request_pause_coro(defer=False)\n        await self._reset_checkpoint_state_coro()")], "C09.D2"),
    ("checkpoint re-defers",
     [(RE, "            await self._request_pause_coro(defer=False)", "            await self._request_pause_coro(defer=True)")], "C09.D2"),
    ("hard pause keeps the deferred flag",
     [(RE, "        print(\"Pausing...\")\n\n        self._deferred_pause_requested = False\n", "        print(\"Pausing...\")\n\n")], "C09.D2"),
    ("deferred request pauses at once",
     [(RE, "            print(\"Deferred pause acknowledged. Continuing to checkpoint.\")\n            return\n", "            print(\"Deferred pause acknowledged. Continuing to checkpoint.\")\n")], "C09.D1"),
    ("suspension point moved below the send",
     [(RE, "                    if stashed_exception is None:\n                        await asyncio.sleep(0, **self._loop_for_kwargs)\n", "                    if stashed_exception is None and len(self._plan_stack) > 1:\n                        await asyncio.sleep(0, **self._loop_for_kwargs)\n")], "C09.D3"),
    ("checkpoint pauses unconditionally",
     [(RE, "        if self._deferred_pause_requested:\n            # We are at a checkpoint; we are done deferring the pause.", "        if True:\n            # We are at a checkpoint; we are done deferring the pause.")], "C09.D2"),
]
BENIGN = [
    ("the pending flag is logged by another handler", [(RE, "        (rw_flag,) = msg.args\n", "        (rw_flag,) = msg.args\n        self.log.debug(\"deferred pause pending: %s\", self._deferred_pause_requested)\n")]),
    ("reset done through the sync helper", [(RE, "            raise IllegalMessageSequence(\"Cannot 'checkpoint' after 'create' and before 'save'. Aborting!\")\n\n        await self._reset_checkpoint_state_coro()", "            raise IllegalMessageSequence(\"Cannot 'checkpoint' after 'create' and before 'save'. Aborting!\")\n\n        self._reset_checkpoint_state()")]),
]
