"""C16 - descriptors carry the device configuration current when they were made."""

from __future__ import annotations

import ast

from .. import astutil as A
from .. import q
from ..idioms import cname, where
from ..re_model import BCLS, BMOD, REModel


def d3_emitters_use_current_bundle(ctx, rm: REModel):
    """'subsequent events of every stream containing it reference a new descriptor': configure replaces self._descriptors[name];
    an emitter that outlives the call that created it (the monitor callback) must take compose_event from the bundle that is
    current WHEN the event is composed - a compose function captured from the enclosing scope is the first descriptor's for ever."""
    rule = "C16.D3-emitters-use-the-current-descriptor"
    mon = rm.b("monitor")
    inner = [n for n in ast.walk(mon.node) if isinstance(n, (ast.FunctionDef, ast.AsyncFunctionDef)) and n is not mon.node]
    emitters = [f for f in inner if any(A.find_calls(s, "emit_sync") or A.find_calls(s, "emit") for s in A.walk_stmts(f.body))]
    ctx.ob(rule, cname(mon, None, "the monitor callback is a closure that emits events"), len(emitters) == 1,
           "" if len(emitters) == 1 else f"{len(emitters)} emitting closures found", where=where(mon, mon.node))
    for f in emitters:
        # the call that composes the event: doc = <X>(data=..., timestamps=...)
        comp = [c for s in A.walk_stmts(f.body) for c in A.calls_in(s) if any(k.arg == "timestamps" for k in c.keywords) and any(k.arg == "data" for k in c.keywords)]
        ctx.ob(rule, cname(mon, None, "one compose call in the monitor callback"), len(comp) == 1, "" if len(comp) == 1 else f"{len(comp)} compose calls", where=where(mon, f))
        for c in comp:
            fn = c.func
            if isinstance(fn, ast.Name):
                local_defs = [s for s in A.walk_stmts(f.body) if isinstance(s, ast.Assign) and any(isinstance(t, ast.Name) and t.id == fn.id for t in s.targets)]
                lookups = {t.id for s2 in A.walk_stmts(f.body) if isinstance(s2, ast.Assign) and "self._descriptors" in A.norm(s2.value)
                           for t in s2.targets if isinstance(t, ast.Name)}

                def current(d):
                    return "self._descriptors" in A.norm(d.value) or any(isinstance(n, ast.Name) and n.id in lookups for n in ast.walk(d.value))

                def fallback_only(d):
                    """a definition not taken from the current bundle is acceptable only where the lookup found nothing"""
                    ff = next((x for x in ctx.repo.funcs.values() if x.node is f), None)
                    if ff is None:
                        return False
                    gf = q.cfg(ff, q.quiet_policy(ctx.repo))
                    for v in lookups:
                        if q.guard_true_dominates(gf, d, lambda t, v=v: A.norm(t) in (f"{v} is not None", v), "F") is None or \
                                q.guard_true_dominates(gf, d, lambda t, v=v: A.norm(t) in (f"{v} is None", f"not {v}"), "T") is None:
                            return True
                    return False
                from_current = bool(local_defs) and any(current(d) for d in local_defs) and all(current(d) or fallback_only(d) for d in local_defs)
                captured = not local_defs
            else:
                from_current = "self._descriptors" in A.norm(fn)
                captured = False
            ok = from_current and not captured
            ctx.ob(rule, cname(mon, None, "compose_event is looked up in self._descriptors when the event is made"), ok,
                   "" if ok else ("the compose function is captured from the enclosing monitor() call" if captured else "the compose function does not come from self._descriptors")
                   + ": after `configure` re-makes the stream's descriptor the monitor's events still reference the old one", nontrivial=True, where=where(mon, c))
    # the other emitters are methods: they look the bundle up per call
    for nm in ("save", "_collect_events", "_collect_event_pages"):
        f = rm.repo.funcs.get(f"bluesky.bundlers:RunBundler.{nm}")
        if f is None:
            continue
        t = A.norm(f.node)
        ok = "self._descriptors[" in t or "self._prepare_stream(" in t or "local_descriptors[" in t
        ctx.ob(rule, cname(f, None, "per-call lookup of the descriptor bundle"), ok, "" if ok else "no lookup of the current bundle", where=where(f, f.node))


def run(ctx):
    rm = REModel(ctx.repo)
    repo = rm.repo
    ctx.explanation = (
        "Decided: D1 RunBundler.configure re-reads the object's configuration before re-preparing, visits every stream whose "
        "descriptor contains the object, drops the old compose bundle and prepares a new descriptor with the same object set / data "
        "keys; D2 _prepare_stream builds configuration[obj.name] from the three per-object configuration caches (def-use), the caches "
        "are written only by the cache helpers, and RunEngine._configure configures the device before telling the bundler; D3 the "
        "monitor callback composes its events against the bundle that is current when the event is made (F-17). "
        "Not decided: configuration values; data-key equality is enforced at run time by event_model.")
    cf = rm.b("configure")
    g = q.cfg(cf, q.quiet_policy(repo))
    rereads = q.stmts(cf, q.stmt_calls("_cache_read_config"))
    ctx.ob("C16.D1-reprepare-after-configure", cname(cf, None, "the object's configuration is re-read"), bool(rereads),
           "" if rereads else "new descriptors would carry the configuration cached before configure", where=where(cf, cf.node))
    if rereads:
        # (a) on every path: also when no stream contains the object yet, later descriptors are built from this cache
        w = g.must_pass([g.entry], lambda n: n.stmt is rereads[0] and n.kind == "stmt", exits=[g.exit])
        ctx.ob("C16.D1-reprepare-after-configure", cname(cf, None, "the re-read happens on every path through configure"), w is None,
               "" if w is None else "configure can return without re-reading the object's configuration: descriptors made later for this object "
               "record the configuration cached before the change", nontrivial=True, witness=w[-6:] if w else None, where=where(cf, rereads[0]))
    preps = [s for s in A.walk_stmts(cf.node.body) if not isinstance(s, (ast.If, ast.For, ast.While, ast.Try)) and A.find_calls(s, "_prepare_stream")]
    ctx.ob("C16.D1-reprepare-after-configure", cname(cf, None, "streams are re-prepared"), bool(preps), "" if preps else "no descriptor is re-made", where=where(cf, cf.node))
    for ps_stmt in preps:
        if rereads:
            w = q.dominated(g, ps_stmt, lambda n: n.stmt is rereads[0] and n.kind == "stmt")
            ctx.ob("C16.D1-reprepare-after-configure", cname(cf, None, "re-read dominates re-making the descriptors"), w is None,
                   "" if w is None else "descriptors are re-made before the new configuration is read", nontrivial=True, witness=w, where=where(cf, ps_stmt))
    loops = [s for s in A.walk_stmts(cf.node.body) if isinstance(s, ast.For) and any(A.find_calls(x, "_prepare_stream") for x in A.walk_stmts(s.body))]
    ok = False
    lp = loops[0] if loops else None
    if lp is not None:
        it = lp.iter
        src = A.norm(it)
        if isinstance(it, ast.Name):
            nids = g.nodes_of(lp)
            defs = q.reaching_defs(g, [n for n in nids if g.nodes[n].kind == "iter"][0], it.id) if nids else []
            src = " ".join(A.norm(v) for k, v, n in defs)
        ok = "self._descriptors" in src and not any(isinstance(x, (ast.Break, ast.Return)) for x in A.walk_stmts(lp.body))
        ok = ok and ("list(" in src or "[" in src or "tuple(" in src)
    ctx.ob("C16.D1-reprepare-after-configure", cname(cf, None, "every stream with a descriptor is considered (over a copy), none skipped"), ok,
           "" if ok else "not every existing stream is refreshed (or the dict is mutated while iterated)", nontrivial=True, where=where(cf, lp or cf.node))
    txt = A.norm(cf.node)
    ok = ("obj in obj_set" in txt or "obj in self._descriptor_objs[name]" in txt)
    ctx.ob("C16.D1-reprepare-after-configure", cname(cf, None, "only streams containing the object are re-made"), ok, "" if ok else "membership test changed", where=where(cf, cf.node))
    if lp is not None:
        body = list(A.walk_stmts(lp.body))
        has_del = any(isinstance(s2, ast.Delete) and "self._descriptors[name]" in A.norm(s2) for s2 in body)
        prep = [c for s2 in body for c in A.calls_in(s2) if (A.call_name(c) or "").endswith("_prepare_stream")] if not isinstance(lp, type(None)) else []
        ok = has_del and bool(prep) and A.norm(prep[0].args[0]) == "name" and A.norm(prep[0].args[1]) in ("obj_set", "self._descriptor_objs[name]")
        ctx.ob("C16.D1-reprepare-after-configure", cname(cf, None, "old bundle dropped; new descriptor prepared for the same stream and object set"), ok,
               "" if ok else "the stream keeps referencing the stale descriptor / is re-made with other objects", nontrivial=True, where=where(cf, lp))
    # D2
    ps = rm.b("_prepare_stream")
    d = None
    for n in A.walk_local(ps.node):
        if isinstance(n, ast.Assign) and A.norm(n.targets[0]) == "config[obj.name]" and isinstance(n.value, ast.Dict):
            d = {A.const_str(k): A.norm(v) for k, v in zip(n.value.keys, n.value.values)}
    want = {"data": "self._config_values_cache[obj]", "timestamps": "self._config_ts_cache[obj]", "data_keys": "self._config_desc_cache[obj]"}
    ctx.ob("C16.D2-configuration-from-caches", cname(ps, None, "configuration[obj.name] = {data, timestamps, data_keys} of that object"), d == want,
           "" if d == want else f"configuration entry is {d}", nontrivial=True, where=where(ps, ps.node))
    cd = [c for c in A.calls_in(ps.node) if (A.call_name(c) or "").endswith("_compose_descriptor")]
    ok = bool(cd) and A.norm(A.kw(cd[0], "configuration")) == "config"
    ctx.ob("C16.D2-configuration-from-caches", cname(ps, None, "compose_descriptor(configuration=config)"), ok, "" if ok else "configuration not passed to the descriptor", where=where(ps, ps.node))
    loops = [s for s in A.walk_stmts(ps.node.body) if isinstance(s, ast.For) and A.norm(s.iter) == "objs_dks.items()"]
    ok = bool(loops) and any("config[obj.name]" in A.norm(x) for x in A.walk_stmts(loops[0].body))
    ctx.ob("C16.D2-configuration-from-caches", cname(ps, None, "one configuration entry per object of the stream"), ok, "" if ok else "not every object's configuration is recorded", where=where(ps, ps.node))
    for attr, owners in (("_config_values_cache", {f"{BCLS}.__init__", f"{BCLS}._cache_read_config"}), ("_config_ts_cache", {f"{BCLS}.__init__", f"{BCLS}._cache_read_config"}),
                         ("_config_desc_cache", {f"{BCLS}.__init__", f"{BCLS}._cache_describe_config"})):
        q.check_writers(ctx, "C16.D2-config-cache-writers", repo, attr, {o: "cache helper" for o in owners}, modules=[BMOD], min_instances=2)
    rc = rm.b("_cache_read_config")
    txt = A.norm(rc.node)
    ok = "obj.read_configuration()" in txt and "config_values[key] = val['value']" in txt and "config_ts[key] = val['timestamp']" in txt \
        and "self._config_values_cache[obj] = config_values" in txt and "self._config_ts_cache[obj] = config_ts" in txt
    ctx.ob("C16.D2-configuration-from-caches", cname(rc, None, "caches the object's own read_configuration()"), ok, "" if ok else "cache content changed", where=where(rc, rc.node))
    h = rm.handler("configure")
    seq = list(A.walk_stmts(h.node.body))
    i_dev = next((i for i, s in enumerate(seq) if "obj.configure(" in A.norm(s) and not isinstance(s, (ast.If, ast.Try))), None)
    i_b = next((i for i, s in enumerate(seq) if A.find_calls(s, "current_run.configure") and not isinstance(s, (ast.If, ast.Try))), None)
    ok = i_dev is not None and i_b is not None and i_dev < i_b
    ctx.ob("C16.D2-configuration-from-caches", cname(h, None, "device configured before the bundler re-reads it"), ok,
           "" if ok else "the bundler re-reads the configuration before the device was configured", where=where(h, h.node))
    ec = rm.b("_ensure_cached")
    ok = "obj not in self._config_desc_cache" in A.norm(ec.node) and "self._cache_read_config(obj)" in A.norm(ec.node) and "self._cache_describe_config(obj)" in A.norm(ec.node)
    ctx.ob("C16.D2-configuration-from-caches", cname(ec, None, "first use of an object caches its configuration"), ok, "" if ok else "configuration never cached", where=where(ec, ec.node))

    d3_emitters_use_current_bundle(ctx, rm)


CLAIM = {
    "text": "Decides that configuring an object mid-run re-reads its configuration before every stream containing it gets a new descriptor for the "
            "same object set, that a descriptor's configuration entry is built from that object's three configuration caches, that those "
            "caches have closed-world writers, that the device is configured before the bundler re-reads it, and that the long-lived monitor "
            "callback looks the descriptor bundle up when it composes an event (the stale capture fixed in /repo as F-17 would be reported again). Values are not decided.",
    "technique": "dominance on the method CFG; def-use of the configuration entry; ownership tables",
}

BU = "bundlers.py"
MUTANTS = [
    ("monitor callback captures the first descriptor's compose_event (revert of F-17)", [(BU, "            bundle = self._descriptors.get(name)\n            compose_event = bundle.compose_event if bundle is not None else stream_bundle[1]\n", ""), (BU, "        self._unreplayed_streams.add(name)\n\n        def emit_event(", "        self._unreplayed_streams.add(name)\n        compose_event = stream_bundle[1]\n\n        def emit_event(")], "C16.D3"),
    ("configuration not re-read", [(BU, "        obj = msg.obj\n        await self._cache_read_config(obj)\n", "        obj = msg.obj\n")], "C16.D1"),
    ("only the first stream refreshed", [(BU, "                await self._prepare_stream(name, obj_set)\n                continue", "                await self._prepare_stream(name, obj_set)\n                break")], "C16.D1"),
    ("old descriptor bundle kept", [(BU, "                del self._descriptors[name]\n                await self._prepare_stream(name, obj_set)", "                pass")], "C16.D1"),
    ("timestamps taken from the values cache", [(BU, '                "timestamps": self._config_ts_cache[obj],', '                "timestamps": self._config_values_cache[obj],')], "C16.D2"),
    ("re-read after the descriptors were re-made",
     [(BU, "        obj = msg.obj\n        await self._cache_read_config(obj)\n", "        obj = msg.obj\n"),
      (BU, "                await self._prepare_stream(name, obj_set)\n                continue", "                await self._prepare_stream(name, obj_set)\n                continue\n        await self._cache_read_config(obj)")], "C16.D1"),
    ("bundler told before the device is configured",
     [("run_engine.py", "        old, new = obj.configure(*args, **kwargs)\n        if current_run:\n            await current_run.configure(msg)\n        return old, new", "        if current_run:\n            await current_run.configure(msg)\n        old, new = obj.configure(*args, **kwargs)\n        return old, new")], "C16.D2"),
    ("configuration dropped from the descriptor", [(BU, "            configuration=config,\n", "")], "C16.D2"),
    ("config cache poisoned elsewhere", [(BU, "        self._describe_cache[obj] = await maybe_await(obj.describe())", "        self._describe_cache[obj] = await maybe_await(obj.describe())\n        self._config_values_cache[obj] = {}")], "C16.D2"),
]
BENIGN = []
