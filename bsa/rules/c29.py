"""C29 - adaptive and tuning scans stay within their range (guard clauses); termination is not decided."""

from __future__ import annotations

import ast

from .. import astutil as A
from .. import q
from ..idioms import cname, where

PL = "bluesky.plans"


def moves_in(loop):
    return [s for s in A.walk_stmts(loop.body) if isinstance(s, ast.Expr) and any(isinstance(n, ast.YieldFrom) and A.call_name(n.value) in ("bps.mv", "mv") for n in A.walk_local(s))]


def run(ctx):
    repo = ctx.repo
    ctx.explanation = (
        "Termination (a ranking argument over floats) is NOT decided; the final park move of tune_centroid is decided only as far as its target is a defined number (D2 centroid-defined). Decided: D1 in "
        "adaptive_scan and tune_centroid the only move inside the loop targets next_pos, the loop guard bounds next_pos (never beyond stop "
        "/ within [low_limit, high_limit]) and next_pos is not redefined between the guard and the move; the limits are min/max of start and "
        "stop; every update of next_pos happens after the move of that iteration.")
    for pname, inner, guard_pred, what in (
        ("adaptive_scan", "adaptive_core", lambda t: A.norm(t) == "next_pos * direction_sign < stop * direction_sign", "next_pos*sign < stop*sign"),
        ("tune_centroid", "_tune_core", lambda t: "low_limit <= next_pos <= high_limit" in A.norm(t), "low_limit <= next_pos <= high_limit"),
    ):
        f = repo.func(PL, f"{pname}.{inner}")
        loops = [s for s in A.walk_stmts(f.node.body) if isinstance(s, ast.While)]
        if not loops:
            ctx.ob("C29.D1-move-under-loop-guard", cname(f, None, "scan loop"), False, "scan loop not found", where=where(f, f.node))
            continue
        lp = loops[0]
        ok = guard_pred(lp.test)
        ctx.ob("C29.D1-move-under-loop-guard", cname(f, None, f"loop guard bounds the next position ({what})"), ok,
               "" if ok else f"loop guard is `{A.norm(lp.test)}`: positions beyond the range can be visited", nontrivial=True, where=where(f, lp))
        mv = moves_in(lp)
        ok = len(mv) == 1 and A.norm([n for n in A.walk_local(mv[0]) if isinstance(n, ast.YieldFrom)][0].value.args[1]) == "next_pos"
        ctx.ob("C29.D1-move-under-loop-guard", cname(f, None, "the only move in the loop goes to next_pos"), ok, "" if ok else f"{len(mv)} moves / other target", where=where(f, lp))
        if mv:
            seq = list(A.walk_stmts(lp.body))
            i_mv = seq.index(mv[0])
            redefs = [s for s in seq[:i_mv] if any(isinstance(t, ast.Name) and t.id == "next_pos" for t in A.targets_of(s))]
            ctx.ob("C29.D1-move-under-loop-guard", cname(f, None, "next_pos not redefined between the guard and the move"), not redefs,
                   "" if not redefs else f"`{A.head(redefs[0])}` changes next_pos after it was checked", nontrivial=True, where=where(f, lp))
            top = lp.body
            ok = mv[0] in top
            ctx.ob("C29.D1-move-under-loop-guard", cname(f, None, "the move is at the top level of the loop body (every iteration re-checks the guard first)"), ok,
                   "" if ok else "move nested in a branch / inner loop", where=where(f, lp))
        inner_loops = [s for s in A.walk_stmts(lp.body) if isinstance(s, ast.While)]
        ctx.ob("C29.D1-move-under-loop-guard", cname(f, None, "no inner while loop"), not inner_loops, "" if not inner_loops else "inner loop moves without re-checking", where=where(f, lp))
    p = repo.func(PL, "tune_centroid")
    txt = A.norm(p.node)
    ok = "low_limit = min(start, stop)" in txt and "high_limit = max(start, stop)" in txt
    ctx.ob("C29.D1-limits", cname(p, None, "limits are min / max of start and stop"), ok, "" if ok else "limit definitions changed", where=where(p, p.node))
    f = repo.func(PL, "tune_centroid._tune_core")
    t = A.norm(f.node)
    # the assignments that refine start / stop, with temporaries followed back through reaching definitions
    gt = q.cfg(f, q.quiet_policy(repo))
    refined = {}
    for st_ in A.walk_stmts(f.node.body):
        if not isinstance(st_, ast.Assign) or len(st_.targets) != 1 or not gt.nodes_of(st_):
            continue
        tg, val = st_.targets[0], st_.value
        pairs = list(zip(tg.elts, val.elts)) if isinstance(tg, ast.Tuple) and isinstance(val, ast.Tuple) and len(tg.elts) == len(val.elts) else [(tg, val)]
        for t_, v_ in pairs:
            if isinstance(t_, ast.Name) and t_.id in ("start", "stop") and A.norm(v_) not in ("start", "stop"):
                refined.setdefault(t_.id, []).append(q.expand_at(gt, gt.nodes_of(st_)[0], v_, keep=("peak_position", "low_limit", "high_limit", "start", "stop", "step_factor")))
    # the centre the range is refined around (and the motor is finally parked at) is a number inside the scanned range: the centroid division
    # is reached only with a total signal that an explicit test found non-zero.  Relying on ZeroDivisionError instead is not equivalent:
    # readings are numpy scalars, and 0.0 / 0.0 on those is nan with a warning - nan then passes every range comparison and np.clip
    divs = [st_ for st_ in A.walk_stmts(f.node.body) if isinstance(st_, (ast.Assign, ast.AnnAssign)) and st_.value is not None
            and any(isinstance(b, ast.BinOp) and isinstance(b.op, (ast.Div, ast.FloorDiv)) and isinstance(b.right, ast.Name) for b in ast.walk(st_.value))
            and any(isinstance(t_, ast.Name) and t_.id == "peak_position" for t_ in A.targets_of(st_))]
    for st_ in divs:
        den = next(b.right.id for b in ast.walk(st_.value) if isinstance(b, ast.BinOp) and isinstance(b.op, (ast.Div, ast.FloorDiv)) and isinstance(b.right, ast.Name))
        w1 = q.guard_true_dominates(gt, st_, lambda t_: A.norm(t_) in (f"{den} == 0", f"0 == {den}", f"not {den}"), "F")
        w2 = q.guard_true_dominates(gt, st_, lambda t_: A.norm(t_) in (f"{den} != 0", f"0 != {den}", den, f"{den} > 0", f"0 < {den}"), "T")
        ok = w1 is None or w2 is None
        ctx.ob("C29.D2-centroid-defined", cname(f, st_), ok,
               "" if ok else f"`{A.head(st_)}` can run with {den} == 0 (no explicit test excludes it): with numpy readings the quotient is nan, not an exception - the refined range "
               "and the final position of the motor are then nan, which no range comparison rejects", nontrivial=True, witness=w1, where=where(f, st_))
    ctx.require(divs, "anchor vanished: the centroid division in tune_centroid._tune_core")
    # each is np.clip(<centre -/+ half the new range>, low_limit, high_limit); the first argument is compared with the documented
    # formula peak -/+ (stop - start) / step_factor / 2 by exact identity testing (no matter how the half range was named / grouped)
    from .. import exprs

    def is_clip_of(e, sign):
        if not (isinstance(e, ast.Call) and A.call_name(e) in ("np.clip", "numpy.clip") and len(e.args) == 3 and not e.keywords
                and A.norm(e.args[1]) == "low_limit" and A.norm(e.args[2]) == "high_limit"):
            return False
        want = ast.parse(f"peak_position {sign} (stop - start) / step_factor / 2", mode="eval").body
        try:
            return all(exprs.feval(e.args[0], env) == exprs.feval(want, env)
                       for env in exprs.random_points(["peak_position", "start", "stop", "step_factor"], 6, signed=("peak_position", "start", "stop")))
        except Exception:
            return False
    # with `snake` the two are swapped after being computed; both orders are the documented behaviour
    cands = {k: v for k, v in refined.items()}
    ok = bool(cands.get("start")) and bool(cands.get("stop")) and \
        all(is_clip_of(e, "-") or is_clip_of(e, "+") for e in cands["start"] + cands["stop"]) and \
        any(is_clip_of(e, "-") for e in cands["start"]) and any(is_clip_of(e, "+") for e in cands["stop"])
    ctx.ob("C29.D1-limits", cname(f, None, "the refined range is clipped to the limits"), ok, "" if ok else "refined range can leave [start, stop]", where=where(f, f.node))
    a = repo.func(PL, "adaptive_scan.adaptive_core")
    t = A.norm(a.node)
    # direction_sign is +1 exactly when stop >= start: an if/else with two assignments or one conditional expression
    def sign_ok():
        for s_ in a.node.body:
            if isinstance(s_, ast.If) and A.norm(s_.test) == "stop >= start" and [A.norm(x) for x in A.body(s_.body)] == ["direction_sign = 1"] \
                    and [A.norm(x) for x in A.body(s_.orelse)] == ["direction_sign = -1"]:
                return True
            if isinstance(s_, ast.Assign) and A.norm(s_.targets[0]) == "direction_sign" and A.norm(s_.value) in ("1 if stop >= start else -1", "-1 if not stop >= start else 1"):
                return True
        return False
    ok = "next_pos = start" in t and sign_ok()
    ctx.ob("C29.D1-limits", cname(a, None, "starts at start; direction from the order of start and stop"), ok, "" if ok else "initialisation changed", where=where(a, a.node))


CLAIM = {
    "text": "Does not decide termination. Decides that in adaptive_scan and tune_centroid the only move inside the scan loop goes to next_pos, which "
            "the loop guard bounds (never beyond stop / within [min, max] of start and stop) with no redefinition between guard and move, and that "
            "tune_centroid's refined range is clipped to those limits. The centroid division is reached only after an explicit test found the total signal non-zero (numpy readings give nan, not ZeroDivisionError).",
    "technique": "guard dominance without intervening redefinition (def-use between the loop test and the move)",
}

L = "plans.py"
MUTANTS = [
    ("zero total signal left to ZeroDivisionError (seed C29-c)",
     [("plans.py", "                if sum_I == 0:\n                    return\n                peak_position = sum_xI / sum_I  # centroid\n", "                try:\n                    peak_position = sum_xI / sum_I  # centroid\n                except ZeroDivisionError:\n                    return\n")], "C29.D2"),
    ("adaptive guard compares unsigned", [(L, "        while next_pos * direction_sign < stop * direction_sign:", "        while next_pos < stop * direction_sign:")], "C29.D1"),
    ("tune guard drops the upper limit", [(L, "        while abs(step) >= min_step and low_limit <= next_pos <= high_limit:", "        while abs(step) >= min_step and low_limit <= next_pos:")], "C29.D1"),
    ("adaptive steps before moving", [(L, "            yield Msg(\"checkpoint\")\n            yield from bps.mv(motor, next_pos)\n            yield Msg(\"create\", None, name=\"primary\")", "            yield Msg(\"checkpoint\")\n            next_pos += step * direction_sign\n            yield from bps.mv(motor, next_pos)\n            yield Msg(\"create\", None, name=\"primary\")")], "C29.D1"),
    ("refined range not clipped", [(L, "                start = np.clip(peak_position - new_scan_range / 2, low_limit, high_limit)", "                start = peak_position - new_scan_range / 2")], "C29.D1"),
    ("limits swapped", [(L, "    low_limit = min(start, stop)\n    high_limit = max(start, stop)", "    low_limit = max(start, stop)\n    high_limit = min(start, stop)")], "C29.D1"),
]
BENIGN = [
    ("zero total signal tested with truthiness", [("plans.py", "                if sum_I == 0:\n                    return\n", "                if not sum_I:\n                    return\n")]),
]
