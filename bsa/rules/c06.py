"""C06 - devices are always left cleaned up when the RunEngine goes idle."""

from __future__ import annotations

import ast

from .. import astutil as A
from .. import q
from ..idioms import cname, where
from ..re_model import BCLS, BMOD, CLS, MOD, REModel
from ..run_tail import RunTail


def d1_cleanup_steps_on_every_exit(ctx, rm: REModel, tail: RunTail):
    g = tail.g
    fin = tail.fin
    # step 1: await self._stop_movable_objects(...) directly in the finally
    stop_stmts = [s for s in A.walk_stmts(fin) if isinstance(s, ast.Expr) and A.find_calls(s, "_stop_movable_objects")]
    ctx.require(stop_stmts, "anchor vanished: await self._stop_movable_objects(...) in the finally of _run")
    stop_id = id(stop_stmts[0])
    steps = [("stop every device that was set", lambda u, label, v: u.stmt is not None and id(u.stmt) == stop_id and u.kind == "stmt"
              and not (isinstance(label, tuple) and label[0] == "exc"))]
    for method, what in (("clear_monitors", "remove every monitor subscription"), ("backstop_collect", "attempt to collect every kicked-off flyer")):
        loops = tail.loops_calling(method)
        ctx.require(loops, f"anchor vanished: the loop calling {method} in the finally of _run")
        lid = id(loops[0])
        ok_iter = "self._run_bundlers" in A.norm(loops[0].iter)
        ctx.ob("C06.D1-cleanup-loop-shape", cname(rm.run, None, f"loop calling {method} covers every bundler"), ok_iter,
               "" if ok_iter else f"the loop calling {method} no longer iterates over self._run_bundlers", where=where(rm.run, loops[0]))
        steps.append((what, (lambda lid: lambda u, label, v: u.kind == "for" and id(u.stmt) == lid and label == "done")(lid)))
    unstage_loops = [s for s in A.walk_stmts(fin) if isinstance(s, ast.For) and A.method_calls(s, "unstage")]
    ctx.require(unstage_loops, "anchor vanished: the unstage loop in the finally of _run")
    ul = unstage_loops[0]
    ok_iter = "self._staged" in A.norm(ul.iter)
    ctx.ob("C06.D1-cleanup-loop-shape", cname(rm.run, None, "unstage loop covers self._staged"), ok_iter,
           "" if ok_iter else "the unstage loop no longer iterates over self._staged", where=where(rm.run, ul))
    uid = id(ul)
    steps.append(("unstage every device still staged", lambda u, label, v: u.kind == "for" and id(u.stmt) == uid and label == "done"))
    for what, is_cut in steps:
        tail.check_must_complete(ctx, "C06.D1-cleanup-on-every-exit", what, is_cut, tag=what)
    early = [s for lp in [ul] + tail.loops_calling("clear_monitors") for s in A.walk_stmts(lp.body) if isinstance(s, (ast.Break, ast.Return))]
    ctx.ob("C06.D1-cleanup-loop-shape", cname(rm.run, None, "no break/return inside the cleanup loops"), not early,
           "" if not early else "a cleanup loop can be left before every device was visited", where=where(rm.run, ul))


def d2_isolation(ctx, rm: REModel, tail: RunTail):
    pol = tail.pol
    for f, allowed, why in (
        (rm.m("_stop_movable_objects"), {"CancelledError"}, "a device whose stop() fails must not prevent stopping the others"),
        (rm.b("clear_monitors"), set(), "a failing clear_sub must not prevent removing the other monitors"),
        (rm.b("backstop_collect"), {"CancelledError"}, "a failing collect must not prevent collecting the others"),
    ):
        esc = set(pol.for_class(f.module.name, f.qualname.split(".")[0]).summary(f)) if f.key not in pol._summaries else set(pol._summaries[f.key])
        bad = esc - allowed
        ctx.ob("C06.D2-step-isolated", cname(f, None, "no Exception escapes"), not bad,
               why if not bad else f"{sorted(bad)} can escape {f.qualname}: one failing device skips the remaining cleanup",
               nontrivial=True, where=where(f, f.node))
        # every device call inside is attempted for every device: loop + try inside the loop
        loops = [s for s in A.walk_stmts(f.node.body) if isinstance(s, (ast.For, ast.AsyncFor))]
        ok = bool(loops) and all(any(isinstance(x, ast.Try) for x in A.walk_stmts(lp.body)) for lp in loops)
        ctx.ob("C06.D2-step-isolated", cname(f, None, "try/except inside the per-device loop"), ok,
               "" if ok else "the isolation is not per device (a failure stops the loop)", where=where(f, f.node))
    # the unstage loop of _run: obj.unstage() inside try/except Exception
    ul = [s for s in A.walk_stmts(tail.fin) if isinstance(s, ast.For) and A.method_calls(s, "unstage")][0]
    ok = False
    for t in A.walk_stmts(ul.body):
        if isinstance(t, ast.Try) and any(A.method_calls(x, "unstage") for x in t.body):
            ok = any(h.type is None or A.norm(h.type) in ("Exception", "BaseException") for h in t.handlers)
    ctx.ob("C06.D2-step-isolated", cname(rm.run, None, "obj.unstage() in try/except Exception"), ok,
           "" if ok else "a failing unstage in the cleanup propagates and skips the remaining devices", where=where(rm.run, ul))


def d3_record_before_act(ctx, rm: REModel):
    repo = rm.repo
    # _set: touched.add(obj) dominates obj.set(...)
    h = rm.handler("set")
    g = q.cfg(h, q.quiet_policy(repo))
    acts = [s for s in A.walk_stmts(h.node.body) if any(isinstance(c.func, ast.Attribute) and c.func.attr == "set" and A.chain(c.func.value) == "obj"
                                                        for c in A.calls_in(s)) and not isinstance(s, (ast.If, ast.Try))]
    ctx.require(acts, "anchor vanished: obj.set(...) in RunEngine._set")
    for s in acts:
        w = q.dominated(g, s, q.node_pred_stmt(lambda x: bool(A.find_calls(x, "self._movable_objs_touched.add"))))
        ctx.ob("C06.D3-record-before-act", cname(h, s), w is None,
               "" if w is None else "obj.set() can run before the device is recorded in _movable_objs_touched (it would not be stopped)",
               nontrivial=True, witness=w, where=where(h, s))
    # _stage: _staged.add(obj) directly follows obj.stage() (nothing fallible in between)
    h = rm.handler("stage")
    seq = list(A.walk_stmts(h.node.body))
    i_stage = next((i for i, s in enumerate(seq) if any(isinstance(c.func, ast.Attribute) and c.func.attr == "stage" and A.chain(c.func.value) == "obj" for c in A.calls_in(s))), None)
    i_add = next((i for i, s in enumerate(seq) if A.find_calls(s, "self._staged.add")), None)
    ok = i_stage is not None and i_add is not None and 0 <= i_add - i_stage <= 1
    between = seq[i_stage + 1:i_add] if ok else []
    ctx.ob("C06.D3-record-before-act", cname(h, None, "self._staged.add(obj) right after obj.stage()"), ok and not between,
           "" if ok else "a staged device may not be recorded in _staged (it would not be unstaged by the cleanup)", where=where(h, h.node))
    # _unstage: discard after obj.unstage()
    h = rm.handler("unstage")
    seq = list(A.walk_stmts(h.node.body))
    i_un = next((i for i, s in enumerate(seq) if any(isinstance(c.func, ast.Attribute) and c.func.attr == "unstage" and A.chain(c.func.value) == "obj" for c in A.calls_in(s))), None)
    i_dis = next((i for i, s in enumerate(seq) if A.find_calls(s, "self._staged.discard") or A.find_calls(s, "self._staged.remove")), None)
    ok = i_un is not None and i_dis is not None and i_un < i_dis
    ctx.ob("C06.D3-record-before-act", cname(h, None, "self._staged.discard(obj) after obj.unstage()"), ok,
           "" if ok else "an unstaged device is forgotten before / without calling obj.unstage()", where=where(h, h.node))
    # flyers
    k = rm.b("kickoff")
    ok = bool(A.find_calls(k.node, "self._uncollected.add"))
    ctx.ob("C06.D3-record-before-act", cname(k, None, "self._uncollected.add(msg.obj)"), ok,
           "" if ok else "a kicked-off flyer is not recorded for the backstop collection", where=where(k, k.node))
    hk = rm.handler("kickoff")
    ok = bool(A.find_calls(hk.node, "current_run.kickoff"))
    ctx.ob("C06.D3-record-before-act", cname(hk, None, "await current_run.kickoff(msg)"), ok,
           "" if ok else "RunEngine._kickoff no longer tells the bundler about the flyer", where=where(hk, hk.node))
    c = rm.b("collect")
    ok = bool(A.find_calls(c.node, "self._uncollected.discard"))
    ctx.ob("C06.D3-record-before-act", cname(c, None, "self._uncollected.discard(obj)"), ok,
           "" if ok else "collected flyers are never removed from _uncollected", where=where(c, c.node))
    # who may write the bookkeeping sets
    q.check_writers(ctx, "C06.D3-bookkeeping-writers", repo, "_staged",
                    {f"{CLS}.__init__": "created", f"{CLS}._clear_call_cache": "reset per call", f"{CLS}._stage": "record",
                     f"{CLS}._unstage": "forget after unstage", f"{CLS}._run": "cleanup removes what it unstaged"}, modules=[MOD], min_instances=4)
    q.check_writers(ctx, "C06.D3-bookkeeping-writers", repo, "_movable_objs_touched",
                    {f"{CLS}.__init__": "created", f"{CLS}._clear_call_cache": "reset per call", f"{CLS}._set": "record"}, modules=[MOD], min_instances=3)
    q.check_writers(ctx, "C06.D3-bookkeeping-writers", repo, "_uncollected",
                    {f"{BCLS}.__init__": "created", f"{BCLS}.kickoff": "record", f"{BCLS}.collect": "forget"}, modules=[BMOD], min_instances=3)
    # monitors: every subscribe on a device is recorded first
    mon = rm.b("monitor")
    seq = list(A.walk_stmts(mon.node.body))
    i_rec = next((i for i, s in enumerate(seq) if isinstance(s, ast.Assign) and "self._monitor_params[obj]" in A.norm(s.targets[0])), None)
    i_sub = next((i for i, s in enumerate(seq) if A.find_calls(s, "obj.subscribe")), None)
    ok = i_rec is not None and i_sub is not None and i_rec < i_sub
    ctx.ob("C06.D3-record-before-act", cname(mon, None, "_monitor_params[obj] recorded before obj.subscribe"), ok,
           "" if ok else "a monitor subscription can exist without being recorded (it would never be removed)", where=where(mon, mon.node))


def bundler_forgotten_only_after_successful_close(ctx, rm: REModel, rule: str):
    """A run leaves the map of open runs only after its close_run completed normally: otherwise the engine's
    cleanup (which iterates that map) can neither close it nor clean up its monitors / flyers."""
    from .. import cfg as C
    from ..run_tail import OTEL_TOTAL
    h = rm.handler("close_run")
    g = C.build(h, rm.policy(extra_total=OTEL_TOTAL))
    closes = [s for s in A.walk_stmts(h.node.body) if not isinstance(s, (ast.If, ast.Try, ast.With, ast.For)) and __import__("bsa.bidioms", fromlist=["x"]).bundler_method_calls(s, "close_run")]
    removes = [s for s in A.walk_stmts(h.node.body) if (isinstance(s, ast.Delete) and "self._run_bundlers" in A.norm(s)) or
               (not isinstance(s, (ast.If, ast.Try, ast.With, ast.For)) and any(A.call_name(c) in ("self._run_bundlers.pop", "self._run_bundlers.clear", "self._run_bundlers.popitem") for c in A.calls_in(s)))]
    if not closes or not removes:
        ctx.ob(rule, cname(h, None, "close_run then forget the bundler"), False, "close / removal statements not recognised", where=where(h, h.node))
        return
    close_ids = {id(s) for s in closes}

    def edge_ok(u, v, label):
        n = g.nodes[u]
        # cut: normal completion of the close_run statement
        return not (n.stmt is not None and id(n.stmt) in close_ids and n.kind == "stmt" and not (isinstance(label, tuple) and label[0] == "exc"))

    seen = g.reachable([g.entry], edge_ok=edge_ok)
    bad = [r for r in removes for nid in g.nodes_of(r) if nid in seen]
    w = g.path_to(seen, g.nodes_of(bad[0])[0]) if bad else None
    ctx.ob(rule, cname(h, None, "the bundler is forgotten only after close_run completed normally"), not bad,
           "" if not bad else f"`{A.head(bad[0])}` is reachable although close_run did not complete (before it, or on its exception path): the run vanishes from "
           "the map the cleanup iterates, so it gets no RunStop and its monitors / flyers are never cleaned up", nontrivial=True,
           witness=w[-6:] if w else None, where=where(h, bad[0] if bad else h.node))


def d4_per_call_subscriptions(ctx, rm: REModel):
    repo = rm.repo
    q.check_writers(ctx, "C06.D4-temp-token-writers", repo, "_temp_callback_ids",
                    {f"{CLS}.__init__": "created", f"{CLS}.__call__": "tokens of the per-call subs", f"{CLS}._subscribe": "in-plan subscription",
                     f"{CLS}._unsubscribe": "in-plan unsubscription", f"{CLS}._clear_call_cache": "dropped at the start of the next call"},
                    modules=[MOD], min_instances=4)
    ccc = rm.m("_clear_call_cache")
    loops = [s for s in A.walk_stmts(ccc.node.body) if isinstance(s, ast.For) and "self._temp_callback_ids" in A.norm(s.iter)
             and (A.find_calls(s, "self.unsubscribe") or A.find_calls(s, "self.dispatcher.unsubscribe"))]
    ctx.ob("C06.D4-temp-subs-dropped", cname(ccc, None, "unsubscribe every temporary token"), bool(loops),
           "" if loops else "_clear_call_cache no longer unsubscribes the per-call subscriptions", where=where(ccc, ccc.node))
    call = rm.m("__call__")
    seq = list(A.walk_stmts(call.node.body))
    i_clear = next((i for i, s in enumerate(seq) if A.find_calls(s, "self._clear_call_cache")), None)
    i_sub = next((i for i, s in enumerate(seq) if A.find_calls(s, "self._temp_callback_ids.add")), None)
    ok = i_clear is not None and i_sub is not None and i_clear < i_sub
    ctx.ob("C06.D4-temp-subs-dropped", cname(call, None, "_clear_call_cache() before subscribing this call's subs"), ok,
           "" if ok else "__call__ subscribes the new per-call callbacks before dropping the previous call's", where=where(call, call.node))
    # in-plan subscribe records its token
    sub = rm.handler("subscribe")
    ok = bool(A.find_calls(sub.node, "self._temp_callback_ids.add"))
    ctx.ob("C06.D4-temp-subs-dropped", cname(sub, None, "token recorded"), ok,
           "" if ok else "in-plan subscriptions are not recorded as temporary", where=where(sub, sub.node))


def run(ctx):
    rm = REModel(ctx.repo)
    tail = RunTail(rm)
    ctx.explanation = (
        "Decided: D1 every exit path of _run (with CancelledError / Exception edges) completes the four cleanup steps "
        "(stop moved devices, clear monitors + backstop collect for every bundler, unstage loop); D2 each step is "
        "exception-isolated per device (callee summaries computed from source); D3 record-before-act ordering for set / "
        "stage / unstage / kickoff / collect / monitor and closed-world writers of the bookkeeping sets; D4 per-call "
        "subscription tokens are recorded and dropped before the next call subscribes; D5 a run is removed from the map the cleanup "
        "iterates only after its close_run completed normally. "
        "Not decided: what devices do; stage/unstage counts per device at run time.")
    d1_cleanup_steps_on_every_exit(ctx, rm, tail)
    d2_isolation(ctx, rm, tail)
    d3_record_before_act(ctx, rm)
    d4_per_call_subscriptions(ctx, rm)
    bundler_forgotten_only_after_successful_close(ctx, rm, "C06.D5-cleanup-sees-unclosed-runs")
    from . import c41

    c41.monitor_forgotten_only_after_unsubscribed(ctx, rm, "C06.D5-monitor-forgotten-only-after-unsubscribed")
    ctx.extra.update(tail.g.stats())


CLAIM = {'text': "Decides that every exit path of _run completes the four cleanup steps (stop moved devices, clear monitors and backstop-collect for every bundler, unstage loop), that each step is exception-isolated per device (summaries computed from the callee's own CFG), that devices are recorded before/with the action that must later be undone, that the bookkeeping sets have a closed set of writers, and that per-call subscription tokens are dropped before the next call subscribes. Today's tree has the F-1 known findings (cancellation inside the cleanup). Device behaviour is not decided.", 'technique': 'must-pass-through with exceptional edges; interprocedural exception summaries; dominance; ownership tables'}


RE = "run_engine.py"
BU = "bundlers.py"
MUTANTS = [
    ("cleanup no longer stops moved devices when the run failed",
     [(RE, "            # call stop() on every movable object we ever set()\n            await self._stop_movable_objects(success=True)",
       "            # call stop() on every movable object we ever set()\n            if self._exit_status != \"fail\":\n                await self._stop_movable_objects(success=True)")],
     "C06.D1"),
    ("a failing device stop aborts stopping the others",
     [(RE, "                try:\n                    await maybe_await(obj.stop(success=success))\n                except Exception:\n                    self.log.exception(\"Failed to stop %r.\", obj)",
       "                await maybe_await(obj.stop(success=success))")],
     "C06.D2"),
    ("clear_monitors stops at the first failure",
     [(BU, "            try:\n                obj.clear_sub(cb)\n            except Exception:\n                self.log.exception(\"Failed to stop monitoring %r.\", obj)\n            else:\n                del self._monitor_params[obj]",
       "            obj.clear_sub(cb)\n            del self._monitor_params[obj]")],
     ["C06.D2", "C06.D1"]),
    ("device recorded as touched only after set() returned",
     [(RE, "        self._movable_objs_touched.add(obj)\n        ret = obj.set(*msg.args, **kwargs)", "        ret = obj.set(*msg.args, **kwargs)\n        self._movable_objs_touched.add(obj)")],
     "C06.D3"),
    ("staged device recorded only when it returned a status",
     [(RE, "        ret = obj.stage()\n        self._staged.add(obj)  # add first in case of failure below\n        await self._reset_checkpoint_state_coro()\n\n        if not isinstance(ret, Status):\n            return ret\n",
       "        ret = obj.stage()\n        await self._reset_checkpoint_state_coro()\n\n        if not isinstance(ret, Status):\n            return ret\n        self._staged.add(obj)\n")],
     "C06.D3"),
    ("kickoff forgets to record the flyer",
     [(BU, "        self._uncollected.add(msg.obj)", "        pass")],
     "C06.D3"),
    ("per-call subscriptions survive the next call",
     [(RE, "        for cid in self._temp_callback_ids:\n            self.unsubscribe(cid)\n        self._temp_callback_ids.clear()", "        self._temp_callback_ids.clear()")],
     "C06.D4"),
    ("new call subscribes before clearing the previous call's tokens",
     [(RE, "        self._clear_call_cache()\n        self._clear_run_cache()  # paranoia, in case of previous bad exit\n\n        for name, funcs in normalize_subs_input(subs).items():\n            for func in funcs:\n                self._temp_callback_ids.add(self.subscribe(func, name))\n",
       "        for name, funcs in normalize_subs_input(subs).items():\n            for func in funcs:\n                self._temp_callback_ids.add(self.subscribe(func, name))\n        self._clear_call_cache()\n        self._clear_run_cache()  # paranoia, in case of previous bad exit\n")],
     "C06.D4"),
    ("backstop collect skipped for aborted runs",
     [(RE, "                await current_run.backstop_collect()", "                if self._exit_status == \"success\":\n                    await current_run.backstop_collect()")],
     "C06.D1") if False else
    ("unstage loop leaves on first failure",
     [(RE, "                except Exception:\n                    self.log.exception(\"Failed to unstage %r.\", obj)\n                self._staged.remove(obj)",
       "                except Exception:\n                    self.log.exception(\"Failed to unstage %r.\", obj)\n                    break\n                self._staged.remove(obj)")],
     "C06.D1"),
    ("monitor subscribes before recording",
     [(BU, "        self._monitor_params[obj] = emit_event, kwargs\n        # TODO: deprecate **kwargs when Ophyd.v2 is available\n        obj.subscribe(emit_event, **kwargs)",
       "        # TODO: deprecate **kwargs when Ophyd.v2 is available\n        obj.subscribe(emit_event, **kwargs)\n        self._monitor_params[obj] = emit_event, kwargs")],
     "C06.D3"),
    ("staged set cleared by an unrelated handler",
     [(RE, "        self._staged.discard(obj)\n        await self._reset_checkpoint_state_coro()", "        self._staged.discard(obj)\n        await self._reset_checkpoint_state_coro()"),
      (RE, "    async def _null(self, msg):\n        \"\"\"\n        A no-op message, mainly for debugging and testing.\n        \"\"\"\n        pass",
       "    async def _null(self, msg):\n        \"\"\"\n        A no-op message, mainly for debugging and testing.\n        \"\"\"\n        self._staged.clear()")],
     "C06.D3"),
]
BENIGN = [
    ("logging in the unstage loop",
     [(RE, "            for obj in list(self._staged):\n                try:\n                    obj.unstage()", "            for obj in list(self._staged):\n                self.log.debug(\"unstaging %r\", obj)\n                try:\n                    obj.unstage()")]),
    ("touched set recorded a line earlier",
     [(RE, "        kwargs = dict(msg.kwargs)\n        group = kwargs.pop(\"group\", None)\n        self._movable_objs_touched.add(obj)\n        ret = obj.set(",
       "        self._movable_objs_touched.add(obj)\n        kwargs = dict(msg.kwargs)\n        group = kwargs.pop(\"group\", None)\n        ret = obj.set(")]),
]
