"""C28 - count and repeat run the plan exactly num times with the right delays."""

from __future__ import annotations

import ast

from .. import astutil as A
from .. import q
from ..idioms import cname, where
from ..plans_model import checkpoint_dominates_actions

PS = "bluesky.plan_stubs"
PL = "bluesky.plans"


def run(ctx):
    repo = ctx.repo
    ctx.explanation = (
        "Decided: D1 each repetition of repeat starts with a checkpoint that dominates the inner plan; D2 the sleep message is "
        "dominated by `d > 0` on the remaining delay (requested delay minus elapsed time); D3 a sized delay iterable shorter than num-1 "
        "raises ValueError up front, and when the delays run out the loop ends only if this was the last requested repetition or num is "
        "None, otherwise ValueError; D4 one call of plan() per iteration of range(num) / count(); count forwards num and delay to repeat "
        "under stage and run decorators and records num_points = num. Not decided: wall-clock timing.")
    rp = repo.func(PS, "repeat")
    f = repo.func(PS, "repeat.repeated_plan")
    loops = [s for s in A.walk_stmts(f.node.body) if isinstance(s, ast.For)]
    ctx.require(loops, "anchor vanished: the repetition loop of repeat")
    lp = loops[0]
    checkpoint_dominates_actions(ctx, "C28.D1-checkpoint-per-repetition", f, loop=lp)
    g = q.cfg(f, q.quiet_policy(repo))
    # D4 one plan() per iteration
    yf = [n for n in A.walk_local(lp) if isinstance(n, ast.YieldFrom)]
    calls = [A.norm(n.value) for n in yf]
    ok = calls.count("ensure_generator(plan())") == 1
    ctx.ob("C28.D4-one-plan-per-iteration", cname(f, None, "exactly one `yield from plan()` per iteration of the counter"), ok,
           "" if ok else f"loop yields from {calls}", nontrivial=True, where=where(f, lp))
    # the counter: what the loop iterates is range(num), or itertools.count() exactly when num is None
    it = q.expand(rp.node, lp.iter)
    def counter_ok(e):
        if isinstance(e, ast.IfExp):
            t = A.norm(e.test)
            a_, b_ = A.norm(e.body), A.norm(e.orelse)
            return (t == "num is None" and a_ == "itertools.count()" and b_ == "range(num)") or (t == "num is not None" and a_ == "range(num)" and b_ == "itertools.count()")
        return False
    txt = A.norm(rp.node)
    ok = counter_ok(it) or (A.norm(lp.iter) == "iterator" and "iterator = itertools.count()" in txt and "iterator = range(num)" in txt and any(
        isinstance(s_, ast.If) and A.norm(s_.test) in ("num is None", "num is not None") for s_ in rp.node.body))
    ctx.ob("C28.D4-one-plan-per-iteration", cname(rp, None, "counter = range(num), or unbounded when num is None"), ok, "" if ok else "the repetition counter changed", where=where(rp, rp.node))
    nested = [s_ for s_ in A.walk_stmts(lp.body) if isinstance(s_, (ast.For, ast.While))]
    ctx.ob("C28.D4-one-plan-per-iteration", cname(f, None, "no inner loop around the plan"), not nested, "" if not nested else "nested loop", where=where(f, lp))
    # D2 sleep only for a positive remainder - decided on what the expressions compute (reaching definitions), not on their spelling
    sleeps = [s_ for s_ in A.walk_stmts(lp.body) if isinstance(s_, ast.Expr) and any(A.is_msg_yield(n, "sleep") for n in A.walk_local(s_))]
    ok = len(sleeps) == 1
    ctx.ob("C28.D2-sleep-positive-remainder", cname(f, None, "one sleep site"), ok, "" if ok else f"{len(sleeps)} sleep sites", where=where(f, lp))
    plan_stmt = next((s_ for s_ in A.walk_stmts(lp.body) if not isinstance(s_, (ast.If, ast.Try, ast.For, ast.While, ast.With)) and any(
        isinstance(n, ast.YieldFrom) and A.norm(n.value) == "ensure_generator(plan())" for n in A.walk_local(s_))), None)
    if sleeps and plan_stmt is not None:
        y = [n for n in A.walk_local(sleeps[0]) if A.is_msg_yield(n, "sleep")][0]
        nid = g.nodes_of(sleeps[0])[0]
        amount = q.expand_at(g, nid, y.value.args[2]) if len(y.value.args) >= 3 else None
        # amount must be  <drawn delay> - (time.time() - <start>)  with <drawn delay> = next(<delays>) and <start> = time.time() taken before the plan ran
        def parts(e):
            if isinstance(e, ast.BinOp) and isinstance(e.op, ast.Sub) and isinstance(e.right, ast.BinOp) and isinstance(e.right.op, ast.Sub):
                return e.left, e.right.left, e.right.right
            return None
        pr = parts(amount) if amount is not None else None
        drawn_ok = pr is not None and isinstance(pr[0], ast.Call) and A.call_name(pr[0]) == "next" and len(pr[0].args) == 1
        now_ok = pr is not None and A.norm(pr[1]) == "time.time()" and A.norm(pr[2]) == "time.time()"
        # <start>: the raw third operand must be a name whose single reaching definition is `time.time()` located before the plan in the loop
        start_ok = False
        raw = y.value.args[2] if len(y.value.args) >= 3 else None
        start_names = set()
        if raw is not None:
            stack = [q.expand_at(g, nid, raw, depth=3, keep=())]
        for st_ in A.walk_stmts(lp.body):
            if isinstance(st_, ast.Assign) and A.norm(st_.value) == "time.time()" and isinstance(st_.targets[0], ast.Name):
                start_names.add((st_.targets[0].id, st_.lineno))
        start_ok = any(ln < plan_stmt.lineno for _n, ln in start_names) and len(start_names) == 1
        ok = drawn_ok and now_ok and start_ok
        ctx.ob("C28.D2-sleep-positive-remainder", cname(f, None, "remainder = requested delay - time elapsed since the repetition started"), ok,
               "" if ok else f"the amount slept evaluates to `{A.short(amount, 80) if amount is not None else '?'}`: elapsed time is not measured from the start of the repetition / not subtracted",
               nontrivial=True, where=where(f, sleeps[0]))
        # guards: the same amount is tested > 0, and the drawn delay is tested against None
        pm_ = A.parents(f.node)
        n_, pos_ok, none_ok = sleeps[0], False, False
        while n_ in pm_:
            par = pm_[n_]
            if isinstance(par, ast.If) and n_ in par.body:
                tnid = [x for x in g.nodes_of(par) if g.nodes[x].kind == "test"]
                t = par.test
                if isinstance(t, ast.Compare) and len(t.ops) == 1 and isinstance(t.ops[0], ast.Gt) and A.norm(t.comparators[0]) == "0" and tnid \
                        and amount is not None and A.norm(q.expand_at(g, tnid[0], t.left)) == A.norm(amount):
                    pos_ok = True
                if isinstance(t, ast.Compare) and len(t.ops) == 1 and isinstance(t.ops[0], ast.IsNot) and A.norm(t.comparators[0]) == "None" and tnid \
                        and pr is not None and A.norm(q.expand_at(g, tnid[0], t.left)) == A.norm(pr[0]):
                    none_ok = True
            n_ = par
        ctx.ob("C28.D2-sleep-positive-remainder", cname(f, None, "sleep only when the remainder is > 0"), pos_ok,
               "" if pos_ok else "a zero / negative remaining delay is slept (sleep of a negative time raises)", nontrivial=True, where=where(f, sleeps[0]))
        ctx.ob("C28.D2-sleep-positive-remainder", cname(f, None, "a None delay is skipped"), none_ok, "" if none_ok else "None delay reaches the arithmetic", where=where(f, sleeps[0]))
        # the delay is drawn after the repetition ran
        draws = [s_ for s_ in A.walk_stmts(lp.body) if isinstance(s_, ast.Assign) and isinstance(s_.value, ast.Call) and A.call_name(s_.value) == "next"]
        ok = len(draws) == 1 and draws[0].lineno > plan_stmt.lineno
        ctx.ob("C28.D2-sleep-positive-remainder", cname(f, None, "the delay is drawn after the repetition ran"), ok, "" if ok else "delay drawn before the plan", where=where(f, lp))
    # D3 not enough delays
    # up-front check: some test that contains `num - 1 > <number of delays>` (conjoined with guards) raises ValueError before the loop is built
    def has_len_test(t):
        return any(isinstance(n, ast.Compare) and len(n.ops) == 1 and isinstance(n.ops[0], ast.Gt) and A.norm(n.left) == "num - 1" for n in ast.walk(t))
    pre = [s_ for s_ in A.walk_stmts(rp.node.body) if isinstance(s_, ast.If) and has_len_test(s_.test) and any(isinstance(x, ast.Raise) and "ValueError" in A.norm(x) for x in s_.body)]
    ctx.ob("C28.D3-delays-run-out", cname(rp, None, "sized delays shorter than num-1 -> ValueError before running"), bool(pre), "" if pre else "up-front length check changed", where=where(rp, rp.node))
    # delays exhausted: the StopIteration handler ends the loop iff this was the last requested repetition or num is None, else raises
    # ValueError - its if-tree is evaluated for the four truth assignments of (i + 1 == num, num is None)
    from .. import booleval
    hs = [h for s_ in A.walk_stmts(lp.body) if isinstance(s_, ast.Try) for h in s_.handlers if h.type is not None and A.norm(h.type) == "StopIteration"]
    def outcome(block, env):
        for x in block:
            if isinstance(x, ast.Break):
                return "break"
            if isinstance(x, ast.Raise):
                return "raise ValueError" if "ValueError" in A.norm(x) else "raise other"
            if isinstance(x, (ast.Continue, ast.Return)):
                return type(x).__name__.lower()
            if isinstance(x, ast.If):
                v = booleval.ev(x.test, env)
                if v is None:
                    return "?"
                r = outcome(x.body if v else x.orelse, env)
                if r is not None:
                    return r
        return None
    ok = bool(hs)
    detail = ""
    if hs:
        for last in (True, False):
            for unbounded in (True, False):
                got = outcome(hs[0].body, {"i + 1 == num": last, "num == i + 1": last, "num is None": unbounded, "num is not None": not unbounded})
                want = "break" if (last or unbounded) else "raise ValueError"
                if got != want:
                    ok = False
                    detail = f"last-requested-repetition={last}, num-is-None={unbounded}: the handler does `{got}`, expected `{want}`"
    ctx.ob("C28.D3-delays-run-out", cname(f, None, "delays exhausted: stop only after the last requested repetition (or num None), else ValueError"), ok,
           detail or ("" if ok else "running out of delays silently ends the repetitions early / runs extra ones"), nontrivial=True, where=where(f, lp))
    # delay normalisation: under `not isinstance(delay, Iterable)` the delays are itertools.repeat(delay), otherwise iter(delay); the loop draws from that variable
    norm_ifs = [s_ for s_ in rp.node.body if isinstance(s_, ast.If) and A.norm(s_.test) in ("not isinstance(delay, Iterable)", "isinstance(delay, Iterable)")]
    ok = False
    if norm_ifs:
        pos = norm_ifs[0].body if A.norm(norm_ifs[0].test).startswith("not") else norm_ifs[0].orelse
        neg = norm_ifs[0].orelse if A.norm(norm_ifs[0].test).startswith("not") else norm_ifs[0].body
        a1 = [x for x in A.walk_stmts(pos) if isinstance(x, ast.Assign) and A.norm(x.value) == "itertools.repeat(delay)"]
        a2 = [x for x in A.walk_stmts(neg) if isinstance(x, ast.Assign) and A.norm(x.value) == "iter(delay)"]
        draws_ = [x for x in A.walk_stmts(lp.body) if isinstance(x, ast.Assign) and isinstance(x.value, ast.Call) and A.call_name(x.value) == "next"]
        ok = len(a1) == 1 and len(a2) == 1 and A.norm(a1[0].targets[0]) == A.norm(a2[0].targets[0]) and len(draws_) == 1 and A.norm(draws_[0].value.args[0]) == A.norm(a1[0].targets[0])
    ctx.ob("C28.D3-delays-run-out", cname(rp, None, "scalar delay repeated forever; iterable delay iterated"), ok, "" if ok else "delay normalisation changed", where=where(rp, rp.node))
    ok = any(isinstance(s, ast.Return) and isinstance(s.value, ast.YieldFrom) and A.norm(s.value.value) == "repeated_plan()" for s in rp.node.body)
    ctx.ob("C28.D4-one-plan-per-iteration", cname(rp, None, "repeat runs repeated_plan once"), ok, "" if ok else "repeated_plan not run exactly once", where=where(rp, rp.node))
    # count
    c = repo.func(PL, "count")
    ic = repo.func(PL, "count.inner_count")
    rets = [n for n in A.walk_local(ic.node) if isinstance(n, ast.YieldFrom) and A.call_name(n.value) in ("bps.repeat", "repeat")]
    ok = len(rets) == 1 and A.norm(q.expand(ic.node, rets[0].value.args[0])) == "partial(msg_per_step, detectors)" and A.norm(A.kw(rets[0].value, "num")) == "num" and A.norm(A.kw(rets[0].value, "delay")) == "delay"
    ctx.ob("C28.D4-count-forwards", cname(ic, None, "repeat(partial(per_shot, detectors), num=num, delay=delay)"), ok, "" if ok else "count no longer forwards num / delay to repeat", nontrivial=True, where=where(ic, ic.node))
    decos = [A.norm(d) for d in ic.node.decorator_list]
    ok = decos == ["bpp.stage_decorator(detectors)", "bpp.run_decorator(md=_md)"]
    ctx.ob("C28.D4-count-forwards", cname(ic, None, "one staged run around all repetitions"), ok, "" if ok else f"decorators {decos}", where=where(ic, ic.node))
    t = A.norm(c.node)
    npk = [v for n in A.walk_local(c.node) if isinstance(n, ast.Dict) for k, v in zip(n.keys, n.values) if A.const_str(k) == "num_points"]
    # default per_shot: `per_shot if per_shot else bps.one_shot` / `per_shot or bps.one_shot` (same object either way)
    dflt = [s_.value for s_ in A.walk_stmts(c.node.body) if isinstance(s_, (ast.Assign, ast.AnnAssign)) and getattr(s_, "value", None) is not None
            and A.norm(s_.targets[0] if isinstance(s_, ast.Assign) else s_.target) == "msg_per_step"]
    ok = len(npk) == 1 and A.norm(npk[0]) == "num" and len(dflt) == 1 and A.norm(dflt[0]) in ("per_shot if per_shot else bps.one_shot", "per_shot or bps.one_shot",
                                                                                                   "bps.one_shot if not per_shot else per_shot")
    ctx.ob("C28.D4-count-forwards", cname(c, None, "num_points = num; default per_shot = one_shot"), ok, "" if ok else "metadata / default changed", where=where(c, c.node))


CLAIM = {
    "text": "Decides the control structure of repeat / count: checkpoint dominates each repetition, one plan() per iteration of range(num) (or an "
            "unbounded counter), the sleep is dominated by a positive remainder computed from the time the repetition started, insufficient "
            "delays raise ValueError up front or when they run out unless this was the last requested repetition, and count forwards num / delay "
            "to repeat inside one staged run. Wall-clock timing is not decided.",
    "technique": "per-iteration dominance and guard dominance on the generator CFG; handler-shape rule; argument forwarding check",
}

S = "plan_stubs.py"
MUTANTS = [
    ("sleeps also for a zero remainder", [(S, "                if d > 0:  # Sleep if and only if time is left to do it.", "                if d >= 0:  # Sleep if and only if time is left to do it.")], "C28.D2"),
    ("checkpoint after the plan", [(S, "            yield Msg(\"checkpoint\")\n            yield from ensure_generator(plan())\n", "            yield from ensure_generator(plan())\n            yield Msg(\"checkpoint\")\n")], "C28.D1"),
    ("running out of delays just stops", [(S, "                else:\n                    # num specifies a number of iterations less than delay\n                    raise ValueError(\"num=%r but delays only provides %r entries\" % (num, i)) from stop  # noqa: UP031", "                else:\n                    break")], "C28.D3"),
    ("elapsed time not subtracted", [(S, "                d = d - (time.time() - now)\n", "")], "C28.D2"),
    ("one extra repetition", [(S, "        iterator = range(num)", "        iterator = range(num + 1)")], "C28.D4"),
    ("count ignores the delay", [("plans.py", "bps.repeat(partial(msg_per_step, detectors), num=num, delay=delay)", "bps.repeat(partial(msg_per_step, detectors), num=num)")], "C28.D4"),
    ("plan run twice per repetition", [(S, "            yield from ensure_generator(plan())\n            try:\n                d = next(delay)", "            yield from ensure_generator(plan())\n            if i == 0:\n                yield from ensure_generator(plan())\n            try:\n                d = next(delay)")], "C28.D4"),
    ("up-front check off by one", [(S, "            if num and num - 1 > num_delays:", "            if num and num - 2 > num_delays:")], "C28.D3"),
]
BENIGN = []
