"""C28 - count and repeat run the plan exactly num times with the right delays."""

from __future__ import annotations

import ast

from .. import astutil as A
from .. import q
from ..idioms import cname, where
from ..plans_model import checkpoint_dominates_actions

PS = "bluesky.plan_stubs"
PL = "bluesky.plans"


def run(ctx):
    repo = ctx.repo
    ctx.explanation = (
        "Decided: D1 each repetition of repeat starts with a checkpoint that dominates the inner plan; D2 the sleep message is "
        "dominated by `d > 0` on the remaining delay (requested delay minus elapsed time); D3 a sized delay iterable shorter than num-1 "
        "raises ValueError up front, and when the delays run out the loop ends only if this was the last requested repetition or num is "
        "None, otherwise ValueError; D4 one call of plan() per iteration of range(num) / count(); count forwards num and delay to repeat "
        "under stage and run decorators and records num_points = num. Not decided: wall-clock timing.")
    rp = repo.func(PS, "repeat")
    f = repo.func(PS, "repeat.repeated_plan")
    loops = [s for s in A.walk_stmts(f.node.body) if isinstance(s, ast.For)]
    ctx.require(loops, "anchor vanished: the repetition loop of repeat")
    lp = loops[0]
    checkpoint_dominates_actions(ctx, "C28.D1-checkpoint-per-repetition", f, loop=lp)
    g = q.cfg(f, q.quiet_policy(repo))
    # D4 one plan() per iteration
    yf = [n for n in A.walk_local(lp) if isinstance(n, ast.YieldFrom)]
    calls = [A.norm(n.value) for n in yf]
    ok = calls.count("ensure_generator(plan())") == 1 and A.norm(lp.iter) == "iterator"
    ctx.ob("C28.D4-one-plan-per-iteration", cname(f, None, "exactly one `yield from plan()` per iteration of the counter"), ok,
           "" if ok else f"loop yields from {calls}", nontrivial=True, where=where(f, lp))
    txt = A.norm(rp.node)
    ok = "iterator = itertools.count()" in txt and "iterator = range(num)" in txt and any(
        isinstance(s, ast.If) and A.norm(s.test) == "num is None" for s in rp.node.body)
    ctx.ob("C28.D4-one-plan-per-iteration", cname(rp, None, "counter = range(num), or unbounded when num is None"), ok, "" if ok else "the repetition counter changed", where=where(rp, rp.node))
    nested = [s for s in A.walk_stmts(lp.body) if isinstance(s, (ast.For, ast.While))]
    ctx.ob("C28.D4-one-plan-per-iteration", cname(f, None, "no inner loop around the plan"), not nested, "" if not nested else "nested loop", where=where(f, lp))
    # D2 sleep only for a positive remainder
    sleeps = [s for s in A.walk_stmts(lp.body) if isinstance(s, ast.Expr) and any(A.is_msg_yield(n, "sleep") for n in A.walk_local(s))]
    ok = len(sleeps) == 1
    ctx.ob("C28.D2-sleep-positive-remainder", cname(f, None, "one sleep site"), ok, "" if ok else f"{len(sleeps)} sleep sites", where=where(f, lp))
    if sleeps:
        w = q.guard_true_dominates(g, sleeps[0], lambda t: A.norm(t) == "d > 0", "T")
        ctx.ob("C28.D2-sleep-positive-remainder", cname(f, None, "sleep dominated by `d > 0`"), w is None,
               "" if w is None else "a zero / negative remaining delay is slept (sleep of a negative time raises)", nontrivial=True, witness=w, where=where(f, sleeps[0]))
        w = q.guard_true_dominates(g, sleeps[0], lambda t: A.norm(t) == "d is not None", "T")
        ctx.ob("C28.D2-sleep-positive-remainder", cname(f, None, "a None delay is skipped"), w is None, "" if w is None else "None delay reaches the arithmetic", where=where(f, sleeps[0]))
        y = [n for n in A.walk_local(sleeps[0]) if A.is_msg_yield(n, "sleep")][0]
        ok = A.norm(y.value.args[2]) == "d"
        ctx.ob("C28.D2-sleep-positive-remainder", cname(f, None, "sleeps for the remainder d"), ok, "" if ok else "sleeps for another amount", where=where(f, sleeps[0]))
    body = [A.norm(s) for s in A.walk_stmts(lp.body)]
    ok = "now = time.time()" in body and "d = d - (time.time() - now)" in body and body.index("now = time.time()") < body.index("yield from ensure_generator(plan())")
    ctx.ob("C28.D2-sleep-positive-remainder", cname(f, None, "remainder = requested delay - time elapsed since the repetition started"), ok,
           "" if ok else "elapsed time is not measured from the start of the repetition / not subtracted", nontrivial=True, where=where(f, lp))
    ok = "d = next(delay)" in body and body.index("yield from ensure_generator(plan())") < body.index("d = next(delay)")
    ctx.ob("C28.D2-sleep-positive-remainder", cname(f, None, "the delay is drawn after the repetition ran"), ok, "" if ok else "delay drawn before the plan", where=where(f, lp))
    # D3 not enough delays
    pre = [s for s in A.walk_stmts(rp.node.body) if isinstance(s, ast.If) and A.norm(s.test) == "num and num - 1 > num_delays" and any(isinstance(x, ast.Raise) and "ValueError" in A.norm(x) for x in s.body)]
    ctx.ob("C28.D3-delays-run-out", cname(rp, None, "sized delays shorter than num-1 -> ValueError before running"), bool(pre), "" if pre else "up-front length check changed", where=where(rp, rp.node))
    hs = [h for s in A.walk_stmts(lp.body) if isinstance(s, ast.Try) for h in s.handlers if h.type is not None and A.norm(h.type) == "StopIteration"]
    ok = False
    if hs:
        ifs = [x for x in hs[0].body if isinstance(x, ast.If)]
        if ifs:
            t1 = ifs[0]
            el = [o for o in t1.orelse if isinstance(o, ast.If)]
            ok = A.norm(t1.test) == "i + 1 == num" and isinstance(t1.body[0], ast.Break) and bool(el) and A.norm(el[0].test) == "num is None" and isinstance(el[0].body[0], ast.Break) \
                and any(isinstance(x, ast.Raise) and "ValueError" in A.norm(x) for x in el[0].orelse)
    ctx.ob("C28.D3-delays-run-out", cname(f, None, "delays exhausted: stop only after the last requested repetition (or num None), else ValueError"), ok,
           "" if ok else "running out of delays silently ends the repetitions early / runs extra ones", nontrivial=True, where=where(f, lp))
    ok = "delay = itertools.repeat(delay)" in txt and "delay = iter(delay)" in txt and "not isinstance(delay, Iterable)" in txt
    ctx.ob("C28.D3-delays-run-out", cname(rp, None, "scalar delay repeated forever; iterable delay iterated"), ok, "" if ok else "delay normalisation changed", where=where(rp, rp.node))
    ok = any(isinstance(s, ast.Return) and isinstance(s.value, ast.YieldFrom) and A.norm(s.value.value) == "repeated_plan()" for s in rp.node.body)
    ctx.ob("C28.D4-one-plan-per-iteration", cname(rp, None, "repeat runs repeated_plan once"), ok, "" if ok else "repeated_plan not run exactly once", where=where(rp, rp.node))
    # count
    c = repo.func(PL, "count")
    ic = repo.func(PL, "count.inner_count")
    rets = [n for n in A.walk_local(ic.node) if isinstance(n, ast.YieldFrom) and A.call_name(n.value) in ("bps.repeat", "repeat")]
    ok = len(rets) == 1 and A.norm(rets[0].value.args[0]) == "partial(msg_per_step, detectors)" and A.norm(A.kw(rets[0].value, "num")) == "num" and A.norm(A.kw(rets[0].value, "delay")) == "delay"
    ctx.ob("C28.D4-count-forwards", cname(ic, None, "repeat(partial(per_shot, detectors), num=num, delay=delay)"), ok, "" if ok else "count no longer forwards num / delay to repeat", nontrivial=True, where=where(ic, ic.node))
    decos = [A.norm(d) for d in ic.node.decorator_list]
    ok = decos == ["bpp.stage_decorator(detectors)", "bpp.run_decorator(md=_md)"]
    ctx.ob("C28.D4-count-forwards", cname(ic, None, "one staged run around all repetitions"), ok, "" if ok else f"decorators {decos}", where=where(ic, ic.node))
    t = A.norm(c.node)
    npk = [v for n in A.walk_local(c.node) if isinstance(n, ast.Dict) for k, v in zip(n.keys, n.values) if A.const_str(k) == "num_points"]
    ok = len(npk) == 1 and A.norm(npk[0]) == "num" and "msg_per_step: PerShot = per_shot if per_shot else bps.one_shot" in t
    ctx.ob("C28.D4-count-forwards", cname(c, None, "num_points = num; default per_shot = one_shot"), ok, "" if ok else "metadata / default changed", where=where(c, c.node))


CLAIM = {
    "text": "Decides the control structure of repeat / count: checkpoint dominates each repetition, one plan() per iteration of range(num) (or an "
            "unbounded counter), the sleep is dominated by a positive remainder computed from the time the repetition started, insufficient "
            "delays raise ValueError up front or when they run out unless this was the last requested repetition, and count forwards num / delay "
            "to repeat inside one staged run. Wall-clock timing is not decided.",
    "technique": "per-iteration dominance and guard dominance on the generator CFG; handler-shape rule; argument forwarding check",
}

S = "plan_stubs.py"
MUTANTS = [
    ("sleeps also for a zero remainder", [(S, "                if d > 0:  # Sleep if and only if time is left to do it.", "                if d >= 0:  # Sleep if and only if time is left to do it.")], "C28.D2"),
    ("checkpoint after the plan", [(S, "            yield Msg(\"checkpoint\")\n            yield from ensure_generator(plan())\n", "            yield from ensure_generator(plan())\n            yield Msg(\"checkpoint\")\n")], "C28.D1"),
    ("running out of delays just stops", [(S, "                else:\n                    # num specifies a number of iterations less than delay\n                    raise ValueError(\"num=%r but delays only provides %r entries\" % (num, i)) from stop  # noqa: UP031", "                else:\n                    break")], "C28.D3"),
    ("elapsed time not subtracted", [(S, "                d = d - (time.time() - now)\n", "")], "C28.D2"),
    ("one extra repetition", [(S, "        iterator = range(num)", "        iterator = range(num + 1)")], "C28.D4"),
    ("count ignores the delay", [("plans.py", "bps.repeat(partial(msg_per_step, detectors), num=num, delay=delay)", "bps.repeat(partial(msg_per_step, detectors), num=num)")], "C28.D4"),
    ("plan run twice per repetition", [(S, "            yield from ensure_generator(plan())\n            try:\n                d = next(delay)", "            yield from ensure_generator(plan())\n            if i == 0:\n                yield from ensure_generator(plan())\n            try:\n                d = next(delay)")], "C28.D4"),
    ("up-front check off by one", [(S, "            if num and num - 1 > num_delays:", "            if num and num - 2 > num_delays:")], "C28.D3"),
]
BENIGN = []
