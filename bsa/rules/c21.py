"""C21 - plan_mutator inserts head/tail messages exactly as documented (structural clauses)."""

from __future__ import annotations

import ast

from .. import astutil as A
from .. import q
from ..idioms import cname, where
from . import c20

PP = "bluesky.preprocessors"


def run(ctx):
    repo = ctx.repo
    f = repo.func(PP, "plan_mutator")
    ctx.explanation = (
        "Behaviour for arbitrary processors is NOT decided. Decided necessary conditions: D1 stack safety and D2 agreement of the two "
        "exhaustion blocks (shared with C20); D5 the head/tail bookkeeping: the tail is recorded under the head's identity at insertion, a "
        "tail without a head gets the original message as head, the head is pushed with a None priming value and the loop restarts; on "
        "head exhaustion the tail is pushed with None priming while the head's last result is saved and restored when the tail is "
        "exhausted (def-use chain ret -> tail_result_cache -> result_stack); exceptions in a head/tail are passed to the plan below; "
        "message objects already seen are not processed again.")
    c20.stack_safety(ctx, repo, "C21.D1-stack-safety")
    blocks = c20.clones_agree(ctx, repo, "C21.D2-exhaustion-blocks-agree")
    # insertion
    ifs = [s for s in A.walk_stmts(f.node.body) if isinstance(s, ast.If) and A.norm(s.test) == "id(msg) not in msgs_seen"]
    ctx.require(ifs, "anchor vanished: `if id(msg) not in msgs_seen` in plan_mutator")
    ins = ifs[0]
    body = list(A.walk_stmts(ins.body))
    unpack = [s for s in ins.body if isinstance(s, ast.Assign) and A.norm(s.value) == "msg_proc(msg)" and isinstance(s.targets[0], ast.Tuple)]
    ok = bool(unpack) and [A.norm(e) for e in unpack[0].targets[0].elts] == ["new_gen", "tail_gen"]
    ctx.ob("C21.D5-insertion", cname(f, None, "(head, tail) = msg_proc(msg)"), ok, "" if ok else "the processor's result is unpacked differently", where=where(f, ins))
    def conj(t):
        return sorted(A.norm(v) for v in (t.values if isinstance(t, ast.BoolOp) and isinstance(t.op, ast.And) else [t]))
    def chain(s_):
        """(sorted conjuncts, innermost body) of `if a and b:` / `if a: if b:` (no else parts)"""
        tests, cur = [], s_
        while True:
            tests += conj(cur.test)
            inner_ = A.body(cur.body)
            if len(inner_) == 1 and isinstance(inner_[0], ast.If) and not inner_[0].orelse and not cur.orelse:
                cur = inner_[0]
                continue
            return sorted(tests), inner_
    ok = any(isinstance(s, ast.If) and not s.orelse and chain(s)[0] == ["new_gen is None", "tail_gen is not None"] and [A.norm(x) for x in chain(s)[1]] == ["new_gen = single_gen(msg)"] for s in ins.body) or any(isinstance(s, ast.If) and conj(s.test) == ["new_gen is None", "tail_gen is not None"] and [A.norm(x) for x in s.body] == ["new_gen = single_gen(msg)"] for s in ins.body)
    ctx.ob("C21.D5-insertion", cname(f, None, "(None, tail): the original message becomes the head"), ok, "" if ok else "a tail without a head loses the original message", where=where(f, ins))
    br = [s for s in ins.body if isinstance(s, ast.If) and A.norm(s.test) == "new_gen is not None"]
    ok = bool(br) and [A.norm(x) for x in br[0].body if not isinstance(x, ast.Expr) or not isinstance(x.value, ast.Constant)] == [
        "plan_stack.append(new_gen)", "result_stack.append(None)", "tail_cache[id(new_gen)] = tail_gen", "continue"]
    ctx.ob("C21.D5-insertion", cname(f, None, "head pushed with None priming, tail recorded under the head's identity, loop restarted"), ok,
           "" if ok else f"insertion sequence is {[A.norm(x) for x in br[0].body] if br else None}", nontrivial=True, where=where(f, ins))
    # no-op processor result falls through to the yield of the original message
    ok = bool(br) and not br[0].orelse
    ctx.ob("C21.D5-insertion", cname(f, None, "(None, None) lets the original message through"), ok, "" if ok else "no-op case changed", where=where(f, ins))
    # exhaustion blocks
    for h in blocks:
        stm = h.body
        txt = [A.norm(x) for x in stm]
        i_restore = next((i for i, x in enumerate(stm) if isinstance(x, ast.If) and A.norm(x.test) == "id(exhausted_gen) in tail_result_cache"), None)
        i_push = next((i for i, t in enumerate(txt) if t == "result_stack.append(ret)"), None)
        i_tail = next((i for i, x in enumerate(stm) if isinstance(x, ast.If) and A.norm(x.test) == "id(exhausted_gen) in tail_cache"), None)
        ok = None not in (i_restore, i_push, i_tail) and i_restore < i_push < i_tail
        ctx.ob("C21.D5-head-result-restored", cname(f, h, f"{A.head(h)}: restore cached head result, push it, then start the tail"), ok,
               "" if ok else "the order restore -> push -> start tail is broken: the host plan receives the tail's last response instead of the head's",
               nontrivial=True, where=where(f, h))
        if i_restore is not None:
            ok = [A.norm(x) for x in stm[i_restore].body] == ["ret = tail_result_cache.pop(id(exhausted_gen))"]
            ctx.ob("C21.D5-head-result-restored", cname(f, h, "ret = tail_result_cache.pop(id(exhausted_gen))"), ok, "" if ok else "restore changed", where=where(f, h))
        if i_tail is not None:
            inner = stm[i_tail].body
            ok = len(inner) == 2 and A.norm(inner[0]) == "gen = tail_cache.pop(id(exhausted_gen))" and isinstance(inner[1], ast.If) and A.norm(inner[1].test) == "gen is not None"
            if ok:
                # the tail is pushed; the head's result is popped and kept under the tail's identity; the tail is primed with None after
                # that pop - in any order that respects those dependencies
                blk = A.body(inner[1].body)
                txt_ = [A.norm(x) for x in blk]
                i_pop = next((i for i, x in enumerate(blk) if "result_stack.pop()" in A.norm(x)), None)
                i_none = next((i for i, t_ in enumerate(txt_) if t_ == "result_stack.append(None)"), None)
                stores = [x for x in blk if isinstance(x, ast.Assign) and A.norm(x.targets[0]) == "tail_result_cache[id(gen)]"]
                kept = len(stores) == 1 and A.norm(q.straight_line_value(blk[:blk.index(stores[0])], stores[0].value)) == "result_stack.pop()"
                others = [t_ for x, t_ in zip(blk, txt_) if t_ not in ("plan_stack.append(gen)", "result_stack.append(None)") and x not in stores
                          and not (isinstance(x, ast.Assign) and isinstance(x.targets[0], ast.Name) and A.norm(x.value) == "result_stack.pop()")]
                ok = "plan_stack.append(gen)" in txt_ and kept and None not in (i_pop, i_none) and i_pop < i_none and not others \
                    and sum("result_stack.pop()" in t_ for t_ in txt_) == 1
            ctx.ob("C21.D5-head-result-restored", cname(f, h, "tail pushed, head's result saved under the tail's identity, tail primed with None"), ok,
                   "" if ok else "tail start sequence changed", nontrivial=True, where=where(f, h))
        ok = A.norm(stm[0]) == "exhausted_gen = plan_stack.pop()"
        ctx.ob("C21.D5-head-result-restored", cname(f, h, "the exhausted generator is the one popped"), ok, "" if ok else "identity of the exhausted generator changed", where=where(f, h))
    # exceptions in head/tail go to the plan below
    eh = [h for s in A.walk_stmts(f.node.body) if isinstance(s, ast.Try) for h in s.handlers
          if h.type is not None and A.norm(h.type) == "Exception" and any("plan_stack.pop()" in A.norm(x) for x in h.body)]
    # every way of going on with the plan below (`continue` inside such a handler) first stashes the exception just caught,
    # and only when there is a plan below - whether the send and throw cases have a handler each or share one
    for h in eh:
        pm_ = A.parents(h)
        for c_ in [x for x in A.walk_stmts(h.body) if isinstance(x, ast.Continue)]:
            blk = None
            up = pm_.get(c_)
            if isinstance(up, ast.If) and c_ in up.body:
                blk = up
            ok = bool(h.name) and blk is not None and A.norm(blk.test) == "plan_stack" and len(blk.body) >= 2 and A.norm(blk.body[-2]) == f"exception = {h.name}" and blk.body[-1] is c_
            tr_ = [t for t in A.walk_stmts(f.node.body) if isinstance(t, ast.Try) and h in t.handlers][0]
            both = ".throw(" in A.norm(ast.Module(body=tr_.body, type_ignores=[])) and ".send(" in A.norm(ast.Module(body=tr_.body, type_ignores=[]))
            branch = "shared handler" if both else ("throw branch" if ".throw(" in A.norm(ast.Module(body=tr_.body, type_ignores=[])) else "send branch")
            ctx.ob("C21.D5-exceptions-propagate-down", cname(f, None, f"{branch}: the exception the dead head/tail raised is what the plan below receives"), ok,
                   "" if ok else "the plan below is thrown a stale exception instead of the one the inserted plan actually raised", nontrivial=True, where=where(f, c_))
    ctx.expect("C21.D5-exceptions-propagate-down", 2)
    # inserted messages are not re-processed: identity bookkeeping + single_gen re-yields the same object
    ok = any(A.norm(x) == "msgs_seen[id(msg)] = msg" for x in ins.body)
    ctx.ob("C21.D5-no-reprocessing", cname(f, None, "seen messages recorded by identity and kept alive"), ok, "" if ok else "seen-set changed", where=where(f, ins))
    sg = repo.func("bluesky.utils", "single_gen")
    ok = any(isinstance(n, ast.Yield) and A.norm(n.value) == "msg" for n in A.walk_local(sg.node))
    ctx.ob("C21.D5-no-reprocessing", cname(sg, None, "single_gen yields the very message object"), ok, "" if ok else "single_gen copies the message (it would be processed again)", where=where(sg, sg.node))
    c20.single_yield_and_results(ctx, repo, "C21.D4-forwarding")


CLAIM = {
    "text": "Does not decide behaviour for arbitrary processors. Decides the head/tail bookkeeping of plan_mutator: insertion sequence (head pushed "
            "with None priming, tail recorded under the head's identity, tail-only gets the original message as head), the restore -> push -> "
            "start-tail order on exhaustion with the head's result saved under the tail's identity, propagation of exceptions from inserted "
            "plans to the plan below, identity-based suppression of re-processing, plus the stack-safety and clone-agreement clauses of C20.",
    "technique": "statement-sequence and def-use rules on the bookkeeping blocks; clone agreement; finite abstract interpretation of stack lengths",
}

P = "preprocessors.py"
MUTANTS = [
    ("tail recorded under the message identity", [(P, "                tail_cache[id(new_gen)] = tail_gen", "                tail_cache[id(msg)] = tail_gen")], "C21.D5"),
    ("tail-only processor loses the original message", [(P, "            if tail_gen is not None and new_gen is None:\n                new_gen = single_gen(msg)\n", "")], "C21.D5"),
    ("head not primed with None", [(P, "                plan_stack.append(new_gen)\n                # put in a result value to prime it\n                result_stack.append(None)\n", "                plan_stack.append(new_gen)\n")], ["C21.D5", "C21.D1"]),
    ("single_gen copies the message", [("utils/__init__.py", "    return (yield msg)", "    return (yield msg._replace())")], "C21.D5"),
]
BENIGN = []
