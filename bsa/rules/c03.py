"""C03 - pause/resume and suspend/release do not change the recorded data."""

from __future__ import annotations

import ast

from .. import astutil as A
from .. import q
from ..idioms import cname, where
from ..plans_model import checkpoint_dominates_actions
from ..re_model import BCLS, BMOD, CLS, MOD, REModel
from . import c04, c09

PS = "bluesky.plan_stubs"
PL = "bluesky.plans"


def first_loop(f, kinds=(ast.For, ast.While)):
    for s in A.walk_stmts(f.node.body):
        if isinstance(s, kinds):
            return s
    return None


def d1_checkpoint_per_point(ctx, repo):
    rule = "C03.D1-checkpoint-per-data-point"
    checkpoint_dominates_actions(ctx, rule, repo.func(PS, "one_shot"))
    # one_1d_step: its move helper may be a nested generator or written in line - both are looked at as one flat plan
    f = q.flat_view(repo.func(PS, "one_1d_step"))
    checkpoint_dominates_actions(ctx, rule, f, extra_actions=("take_reading",), what="checkpoint before the move and the reading")
    checkpoint_dominates_actions(ctx, rule, repo.func(PS, "move_per_step"))
    f = repo.func(PS, "one_nd_step")
    yf = [A.norm(n.value) for s in f.node.body for n in A.walk_local(s) if isinstance(n, ast.YieldFrom)]
    ok = len(yf) >= 2 and yf[0].startswith("move_per_step(") and "take_reading" in yf[1]
    ctx.ob(rule, cname(f, None, "move_per_step (checkpoint first) precedes the reading"), ok, "" if ok else f"yield-from order is {yf}", where=where(f, f.node))
    f = repo.func(PS, "repeat.repeated_plan")
    checkpoint_dominates_actions(ctx, rule, f, loop=first_loop(f))
    f = repo.func(PL, "adaptive_scan.adaptive_core")
    checkpoint_dominates_actions(ctx, rule, f, loop=first_loop(f, (ast.While,)))
    f = repo.func(PL, "tune_centroid._tune_core")
    checkpoint_dominates_actions(ctx, rule, f, loop=first_loop(f, (ast.While,)))
    # scan_nd drives per_step once per point and passes the shared position cache
    f = repo.func(PL, "scan_nd.inner_scan_nd")
    loops = [s for s in A.walk_stmts(f.node.body) if isinstance(s, ast.For)]
    ok = bool(loops) and any(isinstance(n, ast.YieldFrom) and "per_step(" in A.norm(n.value) for n in A.walk_local(loops[0]))
    ctx.ob(rule, cname(f, None, "one per_step call per point of the cycler"), ok, "" if ok else "scan_nd no longer calls per_step once per point", where=where(f, f.node))
    ctx.expect(rule, 8)


def d3_rewind_restores(ctx, rm: REModel):
    rw = rm.b("rewind")
    txt = A.norm(rw.node)
    seq = list(A.walk_stmts(rw.node.body))
    i_clear = next((i for i, s in enumerate(seq) if A.norm(s) == "self._sequence_counters.clear()"), None)
    i_upd = next((i for i, s in enumerate(seq) if A.norm(s) == "self._sequence_counters.update(self._sequence_counters_copy)"), None)
    ok = i_clear is not None and i_upd is not None and i_clear < i_upd
    ctx.ob("C03.D3-rewind-restores-counters", cname(rw, None, "counters of replayed streams restored from the checkpoint snapshot"), ok,
           "" if ok else "rewind no longer restores the sequence counters from the snapshot taken at the checkpoint (re-taken points get new seq_nums)",
           where=where(rw, rw.node))
    # the restore is in place: event_model's compose functions share this dict
    rebinding = [s for s in seq if isinstance(s, ast.Assign) and A.chain(s.targets[0]) == "self._sequence_counters"]
    ctx.ob("C03.D3-rewind-restores-counters", cname(rw, None, "the shared counter dict is updated in place"), not rebinding,
           "" if not rebinding else "self._sequence_counters is rebound: the compose functions keep counting in the old dict", where=where(rw, rw.node))
    ok = any(isinstance(s, ast.Assign) and A.chain(s.targets[0]) == "self.bundling" and isinstance(s.value, ast.Constant) and s.value.value is False for s in seq)
    ctx.ob("C03.D3-rewind-restores-counters", cname(rw, None, "an open bundle is cancelled"), ok,
           "" if ok else "a bundle opened after the checkpoint stays open across the rewind (the replayed 'create' is rejected)", where=where(rw, rw.node))
    # the readings of the interrupted bundle must be gone when the replayed `create` ... `read` run again
    cr = rm.b("create")
    cleared = {A.norm(x) for f2 in (cr, rw) for x in A.walk_stmts(f2.node.body)}
    for c in ("self._read_cache.clear()", "self._asset_docs_cache.clear()", "self._objs_read.clear()"):
        ok = c in cleared
        ctx.ob("C03.D3-interrupted-bundle-discarded", cname(rw, None, f"{c} in create or rewind"), ok,
               "" if ok else "a pause between `read` and `save` leaves the bundle's readings behind: the replayed read collides with them and the resume fails",
               nontrivial=True, where=where(cr, cr.node))
    snap = rm.b("reset_checkpoint_state")
    ok = any(q.copies_all_items(st, "self._sequence_counters", "self._sequence_counters_copy", snap.node) for st in A.walk_stmts(snap.node.body))
    ctx.ob("C03.D3-rewind-restores-counters", cname(snap, None, "checkpoint snapshots every stream's counter"), ok,
           "" if ok else "the checkpoint no longer snapshots the sequence counters", where=where(snap, snap.node))
    q.check_writers(ctx, "C03.D3-snapshot-writers", rm.repo, "_sequence_counters_copy",
                    {f"{BCLS}.__init__": "created", f"{BCLS}._prepare_stream": "new stream starts at 1", f"{BCLS}.rewind": "streams rolled back to their beginning",
                     f"{BCLS}.reset_checkpoint_state": "snapshot", f"{BCLS}.clear_checkpoint": "no checkpoint in effect"}, modules=[BMOD], min_instances=4)
    # bundler-level checkpoints accompany open_run / close_run / unmonitor
    for nm in ("open_run", "close_run", "unmonitor"):
        f = rm.b(nm)
        ok = bool(A.find_calls(f.node, "reset_checkpoint_state_coro") or A.find_calls(f.node, "reset_checkpoint_state"))
        ctx.ob("C03.D3-rewind-restores-counters", cname(f, None, "snapshots the counters"), ok, "" if ok else "no snapshot", where=where(f, f.node))


def run(ctx):
    rm = REModel(ctx.repo)
    ctx.explanation = (
        "Equality of recorded data across all pause points is NOT decided. Decided necessary conditions: D1 every per-point "
        "step function / loop of the built-in plans starts with a checkpoint that dominates its first action; D2 in the message "
        "loop a suspension point dominates pulling the next message; D3 rewind restores the replayed streams' counters in place from "
        "the snapshot the checkpoint took and cancels an open bundle; D4 the implicit checkpoints of C04.D2 (incl. close_run).")
    d1_checkpoint_per_point(ctx, ctx.repo)
    c09.d3_suspend_before_send(ctx, rm, rule="C03.D2-suspend-before-next-message")
    d3_rewind_restores(ctx, rm)
    n0 = len(ctx.obligations)
    c04.d2_implicit_checkpoints(ctx, rm)
    for o in ctx.obligations[n0:]:
        o["rule"] = o["rule"].replace("C04.D2", "C03.D4")
    ctx._min = {k.replace("C04.D2", "C03.D4"): v for k, v in ctx._min.items()}


CLAIM = {
    "text": "Does not decide data equality under pause/resume (runtime values). Decides four necessary structural conditions: a checkpoint "
            "dominates the first action of every per-point step function / loop of the built-in plans; the message loop suspends before "
            "pulling the next message; RunBundler.rewind restores replayed streams' counters in place from the checkpoint snapshot and "
            "cancels an open bundle; every implicit-checkpoint handler (including close_run) reaches the RunEngine-level reset.",
    "technique": "per-iteration dominance on generator CFGs; cut-edge reachability; def-use between snapshot and restore; must-pass-through",
}

PSF = "plan_stubs.py"
MUTANTS = [
    ("move_per_step loses its checkpoint",
     [(PSF, "    yield Msg(\"checkpoint\")\n    grp = _short_uid(\"set\")\n    for motor, pos in step.items():", "    grp = _short_uid(\"set\")\n    for motor, pos in step.items():")], "C03.D1"),
    ("repeat checkpoints only on the first iteration",
     [(PSF, "            now = time.time()  # Intercept the flow in its earliest moment.\n            yield Msg(\"checkpoint\")", "            now = time.time()  # Intercept the flow in its earliest moment.\n            if i == 0:\n                yield Msg(\"checkpoint\")")], "C03.D1"),
    ("one_1d_step reads before moving",
     [(PSF, "    yield from move()\n    return (yield from take_reading(list(detectors) + [motor]))", "    ret = yield from take_reading(list(detectors) + [motor])\n    yield from move()\n    return ret")], "C03.D1"),
    ("adaptive scan checkpoints after the move",
     [("plans.py", "            yield Msg(\"checkpoint\")\n            yield from bps.mv(motor, next_pos)\n            yield Msg(\"create\", None, name=\"primary\")", "            yield from bps.mv(motor, next_pos)\n            yield Msg(\"checkpoint\")\n            yield Msg(\"create\", None, name=\"primary\")")], "C03.D1"),
    ("rewind keeps an open bundle open",
     [("bundlers.py", "        # before the paired 'save'.\n        self.bundling = False", "        # before the paired 'save'.\n        pass")], "C03.D3"),
    ("rewind no longer restores the counters",
     [("bundlers.py", "        self._sequence_counters.clear()\n        self._sequence_counters.update(self._sequence_counters_copy)\n", "")], "C03.D3"),
    ("rewind rebinds the counter dict",
     [("bundlers.py", "        self._sequence_counters.clear()\n        self._sequence_counters.update(self._sequence_counters_copy)\n", "        self._sequence_counters = dict(self._sequence_counters_copy)\n")], "C03.D3"),
    ("suspension point only when more than one plan is stacked",
     [("run_engine.py", "                    if stashed_exception is None:\n                        await asyncio.sleep(0, **self._loop_for_kwargs)\n", "                    if stashed_exception is None and len(self._plan_stack) > 1:\n                        await asyncio.sleep(0, **self._loop_for_kwargs)\n")], "C03.D2"),
    ("close_run not a checkpoint",
     [("run_engine.py", "        # closing a run is an implicit checkpoint: nothing done in it may be replayed\n        await self._reset_checkpoint_state_coro()\n", "")], "C03.D4"),
    ("checkpoint snapshot skips streams",
     [("bundlers.py", "        for key, counter in list(self._sequence_counters.items()):\n            self._sequence_counters_copy[key] = counter", "        pass")], "C03.D3"),
]
BENIGN = [
    ("checkpoint through the stub", [(PSF, "    yield Msg(\"checkpoint\")\n    grp = _short_uid(\"set\")\n    for motor, pos in step.items():", "    yield from checkpoint()\n    grp = _short_uid(\"set\")\n    for motor, pos in step.items():")]),
]
