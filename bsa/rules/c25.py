"""C25 - step scans visit exactly the documented trajectory (structural clauses)."""

from __future__ import annotations

import ast

from .. import astutil as A
from .. import q
from ..idioms import cname, where
from . import c03

PL = "bluesky.plans"
PT = "bluesky.plan_patterns"


def linspace_calls(f):
    return [c for c in A.calls_in(f.node) if A.call_name(c) in ("np.linspace", "numpy.linspace")]


def run(ctx):
    repo = ctx.repo
    ctx.explanation = (
        "Trajectory VALUES (numpy arithmetic) are NOT decided. Decided: D1 scan_nd calls per_step once per element of the merged cycler "
        "in order, with the shared position cache, and records num_points = len(cycler); _scan_1d / log_scan iterate their computed steps "
        "once each; D2 one checkpoint per point (C03.D1); D3 grid_scan derives shape, extents, snaking and the outer_product arguments from "
        "the same chunked arguments; scan / list scans pass their own arguments to the pattern function and the resulting cycler to "
        "scan_nd; D4 every np.linspace binds start/stop/num to the like-named variables and includes the end point; x2x_scan moves the "
        "second motor over half the range.")
    # D1
    f = repo.func(PL, "scan_nd.inner_scan_nd")
    loops = [s for s in A.walk_stmts(f.node.body) if isinstance(s, ast.For)]
    ok = len(loops) == 1 and A.norm(loops[0].iter) in ("list(cycler)", "cycler") and \
        [A.norm(n.value) for n in A.walk_local(loops[0]) if isinstance(n, ast.YieldFrom)] == [f"per_step(detectors, {A.norm(loops[0].target)}, pos_cache)"]
    ctx.ob("C25.D1-one-step-per-point", cname(f, None, "for step in cycler: per_step(detectors, step, pos_cache)"), ok,
           "" if ok else "scan_nd no longer performs exactly one per_step per trajectory point, in order", nontrivial=True, where=where(f, f.node))
    ok = not any(isinstance(s, (ast.Break, ast.Continue)) for s in A.walk_stmts(loops[0].body)) if loops else False
    ctx.ob("C25.D1-one-step-per-point", cname(f, None, "no point is skipped"), ok, "" if ok else "the loop skips points", where=where(f, f.node))
    sn = repo.func(PL, "scan_nd")
    txt = A.norm(sn.node)
    npk = [v for n in A.walk_local(sn.node) if isinstance(n, ast.Dict) for k, v in zip(n.keys, n.values) if A.const_str(k) == "num_points"]
    ok = len(npk) == 1 and A.norm(npk[0]) == "len(cycler)"
    ctx.ob("C25.D1-one-step-per-point", cname(sn, None, "num_points = len(cycler)"), ok, "" if ok else "recorded num_points no longer equals the number of points visited", where=where(sn, sn.node))
    ok = "cycler = utils.merge_cycler(cycler)" in txt and "motors = list(cycler.keys)" in txt and "pos_cache: dict = defaultdict(lambda: None)" in txt
    ctx.ob("C25.D1-one-step-per-point", cname(sn, None, "position cache starts empty; motors from the cycler"), ok, "" if ok else "setup changed", where=where(sn, sn.node))
    for pname, inner, var in (("_scan_1d", "inner_scan", "steps"), ("log_scan", "inner_log_scan", "steps")):
        g = repo.func(PL, f"{pname}.{inner}")
        loops = [s for s in A.walk_stmts(g.node.body) if isinstance(s, ast.For)]
        ok = len(loops) == 1 and A.norm(loops[0].iter) == var and [A.norm(n.value) for n in A.walk_local(loops[0]) if isinstance(n, ast.YieldFrom)] == [
            f"per_step(detectors, motor, {A.norm(loops[0].target)})"]
        ctx.ob("C25.D1-one-step-per-point", cname(g, None, f"for step in {var}: per_step(detectors, motor, step)"), ok, "" if ok else "1-D scan loop changed", where=where(g, g.node))
        p = repo.func(PL, pname)
        t = A.norm(p.node)
        ok = "'num_points': num" in t and ("steps = np.linspace(**_md['plan_pattern_args'])" in t or "steps = np.logspace(**_md['plan_pattern_args'])" in t) \
            and "'plan_pattern_args': dict(start=start, stop=stop, num=num)" in t
        ctx.ob("C25.D4-linspace-binding", cname(p, None, "steps computed from (start=start, stop=stop, num=num), the recorded pattern args"), ok,
               "" if ok else "the steps are not computed from the like-named start / stop / num", nontrivial=True, where=where(p, p.node))
    # D2
    c03.d1_checkpoint_per_point(ctx, repo)
    for o in ctx.obligations:
        if o["rule"].startswith("C03.D1"):
            o["rule"] = o["rule"].replace("C03.D1", "C25.D2")
    ctx._min = {k.replace("C03.D1", "C25.D2"): v for k, v in ctx._min.items()}
    # D3 grid_scan single source
    gs = repo.func(PL, "grid_scan")
    txt = A.norm(gs.node)
    ok = all(k in txt for k in ("'shape': tuple((num for (motor, start, stop, num, snake) in chunk_args))",
                                "'extents': tuple(([start, stop] for (motor, start, stop, num, snake) in chunk_args))",
                                "'snaking': tuple((snake for (motor, start, stop, num, snake) in chunk_args))")) or \
        all(k in txt for k in ("'shape': tuple((num for motor, start, stop, num, snake in chunk_args))",
                               "'extents': tuple(([start, stop] for motor, start, stop, num, snake in chunk_args))",
                               "'snaking': tuple((snake for motor, start, stop, num, snake in chunk_args))"))
    ctx.ob("C25.D3-metadata-from-same-arguments", cname(gs, None, "shape / extents / snaking derived from chunk_args"), ok,
           "" if ok else "recorded shape / extents / snaking no longer come from the chunked arguments in order", nontrivial=True, where=where(gs, gs.node))
    loops = [s for s in gs.node.body if isinstance(s, ast.For) and A.norm(s.iter) == "enumerate(chunk_args)" and any("args_modified.extend" in A.norm(x) for x in A.walk_stmts(s.body))]
    ok = bool(loops) and "full_cycler = plan_patterns.outer_product(args=args_modified)" in txt and "scan_nd(detectors, full_cycler, per_step=per_step, md=_md)" in txt
    ctx.ob("C25.D3-metadata-from-same-arguments", cname(gs, None, "outer_product(args built from the same chunk_args) -> scan_nd"), ok,
           "" if ok else "the trajectory is no longer built from the chunked arguments that the metadata describe", nontrivial=True, where=where(gs, gs.node))
    if loops:
        b = A.norm(loops[0])
        ok = "args_modified.extend(chunk[:-1])" in b and "args_modified.extend(chunk)" in b and "n == 0" in b
        ctx.ob("C25.D3-metadata-from-same-arguments", cname(gs, None, "the slowest axis drops its snake flag, the others keep all five fields"), ok, "" if ok else "argument re-packing changed", where=where(gs, loops[0]))
    sc = repo.func(PL, "scan")
    txt = A.norm(sc.node)
    ok = "full_cycler = plan_patterns.inner_product(num=num, args=args)" in txt and "scan_nd(detectors, full_cycler, per_step=per_step, md=_md)" in txt
    ctx.ob("C25.D3-metadata-from-same-arguments", cname(sc, None, "inner_product(num=num, args=args) -> scan_nd"), ok, "" if ok else "scan no longer passes its own num / args to the pattern", where=where(sc, sc.node))
    for pname, pat, call in (("list_scan", "inner_list_product", "plan_patterns.inner_list_product(args)"),
                             ("list_grid_scan", "outer_list_product", "plan_patterns.outer_list_product(args, snake_axes)")):
        p = repo.func(PL, pname)
        t = A.norm(p.node)
        ok = f"full_cycler = {call}" in t and "scan_nd(detectors, full_cycler, per_step=per_step, md=_md)" in t
        ctx.ob("C25.D3-metadata-from-same-arguments", cname(p, None, f"{pat}(own args) -> scan_nd"), ok, "" if ok else "list scan no longer passes its own position lists", where=where(p, p.node))
    # D4 linspace bindings in the pattern module
    for fn, unpack in (("inner_product", ["motor", "start", "stop"]), ("outer_product", ["motor", "start", "stop", "num", "snake"])):
        f = repo.func(PT, fn)
        ls = linspace_calls(f)
        ok = len(ls) == 1 and [A.norm(a) for a in ls[0].args] == ["start", "stop"] and A.norm(A.kw(ls[0], "num")) == "num" and \
            (A.kw(ls[0], "endpoint") is None or A.norm(A.kw(ls[0], "endpoint")) == "True")
        ctx.ob("C25.D4-linspace-binding", cname(f, None, "np.linspace(start, stop, num=num, endpoint=True)"), ok,
               "" if ok else "start / stop / num are not bound to the like-named parameters or the end point is excluded", nontrivial=True, where=where(f, f.node))
        loops = [s for s in A.walk_stmts(f.node.body) if isinstance(s, ast.For)]
        ok = bool(loops) and [A.norm(e) for e in loops[0].target.elts] == unpack
        ctx.ob("C25.D4-linspace-binding", cname(f, None, f"arguments unpacked as {unpack}"), ok, "" if ok else "argument order changed", where=where(f, f.node))
        ok = bool(loops) and any(A.norm(x) == "c = cycler(motor, steps)" for x in loops[0].body) and any(A.norm(x) == "cyclers.append(c)" for x in loops[0].body)
        ctx.ob("C25.D4-linspace-binding", cname(f, None, "one cycler per motor over its own steps, in argument order"), ok, "" if ok else "cycler construction changed", where=where(f, f.node))
    f = repo.func(PT, "outer_product")
    ok = any(isinstance(s, ast.Return) and A.norm(s.value) == "snake_cyclers(cyclers, snaking)" for s in f.node.body) and any(A.norm(x) == "snaking.append(snake)" for x in A.walk_stmts(f.node.body))
    ctx.ob("C25.D4-linspace-binding", cname(f, None, "snake_cyclers(cyclers, snaking) with one flag per axis"), ok, "" if ok else "snaking flags no longer line up with the axes", where=where(f, f.node))
    f = repo.func(PT, "inner_product")
    ok = any(isinstance(s, ast.Return) and A.norm(s.value) == "functools.reduce(operator.add, cyclers)" for s in f.node.body)
    ctx.ob("C25.D4-linspace-binding", cname(f, None, "inner product = sum of the per-motor cyclers"), ok, "" if ok else "combination changed", where=where(f, f.node))
    x2 = repo.func(PL, "x2x_scan")
    cs = [c for c in A.calls_in(x2.node) if A.call_name(c) == "relative_inner_product_scan"]
    ok = bool(cs) and [A.norm(a) for a in cs[0].args] == ["detectors", "num", "motor1", "start", "stop", "motor2", "start / 2", "stop / 2"]
    ctx.ob("C25.D4-linspace-binding", cname(x2, None, "motor2 scans half of motor1's range"), ok, "" if ok else "x2x argument order / halving changed", where=where(x2, x2.node))


CLAIM = {
    "text": "Does not decide trajectory values. Decides that step scans perform exactly one per_step per point of the cycler in order and record "
            "num_points = len(cycler); that each point starts with a checkpoint; that grid_scan's shape / extents / snaking metadata and its "
            "outer_product arguments derive from the same chunked arguments and the other scans pass their own arguments to their pattern; and "
            "that every np.linspace binds start / stop / num to the like-named variables with the end point included.",
    "technique": "single-source def-use; loop-shape rules; suspicious-argument binding check on np.linspace",
}

L = "plans.py"
T = "plan_patterns.py"
MUTANTS = [
    ("outer_product excludes the end point", [(T, "        steps = np.linspace(start, stop, num=num, endpoint=True)\n        c = cycler(motor, steps)\n        cyclers.append(c)\n\n    return snake_cyclers(cyclers, snaking)", "        steps = np.linspace(start, stop, num=num, endpoint=False)\n        c = cycler(motor, steps)\n        cyclers.append(c)\n\n    return snake_cyclers(cyclers, snaking)")], "C25.D4"),
    ("inner_product swaps start and stop", [(T, "        steps = np.linspace(start, stop, num=num, endpoint=True)\n        c = cycler(motor, steps)\n        cyclers.append(c)\n    return functools.reduce(operator.add, cyclers)", "        steps = np.linspace(stop, start, num=num, endpoint=True)\n        c = cycler(motor, steps)\n        cyclers.append(c)\n    return functools.reduce(operator.add, cyclers)")], "C25.D4"),
    ("scan_nd skips unchanged points", [(L, "        for step in list(cycler):\n            yield from per_step(detectors, step, pos_cache)", "        for step in list(cycler):\n            if step == pos_cache:\n                continue\n            yield from per_step(detectors, step, pos_cache)")], "C25.D1"),
    ("num_points off by one", [(L, '        "num_points": len(cycler),\n        "num_intervals": len(cycler) - 1,', '        "num_points": len(cycler) - 1,\n        "num_intervals": len(cycler) - 1,')], "C25.D1"),
    ("grid_scan shape from the raw args", [(L, '        "shape": tuple(num for motor, start, stop, num, snake in chunk_args),', '        "shape": tuple(args[3::4]),')], "C25.D3"),
    ("x2x second motor over the full range", [(L, "detectors, num, motor1, start, stop, motor2, start / 2, stop / 2, per_step=per_step, md=_md", "detectors, num, motor1, start, stop, motor2, start, stop / 2, per_step=per_step, md=_md")], "C25.D4"),
    ("snake flags reversed", [(T, "        cyclers.append(c)\n\n    return snake_cyclers(cyclers, snaking)", "        cyclers.append(c)\n\n    return snake_cyclers(cyclers, snaking[::-1])")], "C25.D4"),
    ("move_per_step without checkpoint", [("plan_stubs.py", "    yield Msg(\"checkpoint\")\n    grp = _short_uid(\"set\")\n    for motor, pos in step.items():", "    grp = _short_uid(\"set\")\n    for motor, pos in step.items():")], "C25.D2"),
]
BENIGN = []
