"""C25 - step scans visit exactly the documented trajectory (structural clauses)."""

from __future__ import annotations

import ast

from .. import astutil as A
from .. import q
from ..idioms import cname, where
from . import c03

PL = "bluesky.plans"
PT = "bluesky.plan_patterns"


def linspace_calls(f):
    return [c for c in A.calls_in(f.node) if A.call_name(c) in ("np.linspace", "numpy.linspace")]


def run(ctx):
    repo = ctx.repo
    ctx.explanation = (
        "Trajectory VALUES (numpy arithmetic) are NOT decided. Decided: D1 scan_nd calls per_step once per element of the merged cycler "
        "in order, with the shared position cache, and records num_points = len(cycler); _scan_1d / log_scan iterate their computed steps "
        "once each; D2 one checkpoint per point (C03.D1); D3 grid_scan derives shape, extents, snaking and the outer_product arguments from "
        "the same chunked arguments; scan / list scans pass their own arguments to the pattern function and the resulting cycler to "
        "scan_nd; D4 every np.linspace binds start/stop/num to the like-named variables and includes the end point; x2x_scan moves the "
        "second motor over half the range; D5 move_per_step / one_1d_step command each motor to exactly the step's position, a motor is "
        "skipped only when its target equals the cached last commanded target exactly, and the cache records what was commanded.")
    # D1
    f = repo.func(PL, "scan_nd.inner_scan_nd")
    loops = [s for s in A.walk_stmts(f.node.body) if isinstance(s, ast.For)]
    ok = len(loops) == 1 and A.norm(loops[0].iter) in ("list(cycler)", "cycler") and \
        [A.norm(n.value) for n in A.walk_local(loops[0]) if isinstance(n, ast.YieldFrom)] == [f"per_step(detectors, {A.norm(loops[0].target)}, pos_cache)"]
    ctx.ob("C25.D1-one-step-per-point", cname(f, None, "for step in cycler: per_step(detectors, step, pos_cache)"), ok,
           "" if ok else "scan_nd no longer performs exactly one per_step per trajectory point, in order", nontrivial=True, where=where(f, f.node))
    ok = not any(isinstance(s, (ast.Break, ast.Continue)) for s in A.walk_stmts(loops[0].body)) if loops else False
    ctx.ob("C25.D1-one-step-per-point", cname(f, None, "no point is skipped"), ok, "" if ok else "the loop skips points", where=where(f, f.node))
    sn = repo.func(PL, "scan_nd")
    txt = A.norm(sn.node)
    npk = [v for n in A.walk_local(sn.node) if isinstance(n, ast.Dict) for k, v in zip(n.keys, n.values) if A.const_str(k) == "num_points"]
    ok = len(npk) == 1 and A.norm(npk[0]) == "len(cycler)"
    ctx.ob("C25.D1-one-step-per-point", cname(sn, None, "num_points = len(cycler)"), ok, "" if ok else "recorded num_points no longer equals the number of points visited", where=where(sn, sn.node))
    ok = "cycler = utils.merge_cycler(cycler)" in txt and "motors = list(cycler.keys)" in txt and "pos_cache: dict = defaultdict(lambda: None)" in txt
    ctx.ob("C25.D1-one-step-per-point", cname(sn, None, "position cache starts empty; motors from the cycler"), ok, "" if ok else "setup changed", where=where(sn, sn.node))
    for pname, inner, var in (("_scan_1d", "inner_scan", "steps"), ("log_scan", "inner_log_scan", "steps")):
        g = repo.func(PL, f"{pname}.{inner}")
        loops = [s for s in A.walk_stmts(g.node.body) if isinstance(s, ast.For)]
        ok = len(loops) == 1 and A.norm(loops[0].iter) == var and [A.norm(n.value) for n in A.walk_local(loops[0]) if isinstance(n, ast.YieldFrom)] == [
            f"per_step(detectors, motor, {A.norm(loops[0].target)})"]
        ctx.ob("C25.D1-one-step-per-point", cname(g, None, f"for step in {var}: per_step(detectors, motor, step)"), ok, "" if ok else "1-D scan loop changed", where=where(g, g.node))
        p = repo.func(PL, pname)
        t = A.norm(p.node)
        ok = "'num_points': num" in t and ("steps = np.linspace(**_md['plan_pattern_args'])" in t or "steps = np.logspace(**_md['plan_pattern_args'])" in t) \
            and "'plan_pattern_args': dict(start=start, stop=stop, num=num)" in t
        ctx.ob("C25.D4-linspace-binding", cname(p, None, "steps computed from (start=start, stop=stop, num=num), the recorded pattern args"), ok,
               "" if ok else "the steps are not computed from the like-named start / stop / num", nontrivial=True, where=where(p, p.node))
    # D2
    c03.d1_checkpoint_per_point(ctx, repo)
    for o in ctx.obligations:
        if o["rule"].startswith("C03.D1"):
            o["rule"] = o["rule"].replace("C03.D1", "C25.D2")
    ctx._min = {k.replace("C03.D1", "C25.D2"): v for k, v in ctx._min.items()}
    # D3 grid_scan single source
    gs = repo.func(PL, "grid_scan")
    txt = A.norm(gs.node)
    ok = all(k in txt for k in ("'shape': tuple((num for (motor, start, stop, num, snake) in chunk_args))",
                                "'extents': tuple(([start, stop] for (motor, start, stop, num, snake) in chunk_args))",
                                "'snaking': tuple((snake for (motor, start, stop, num, snake) in chunk_args))")) or \
        all(k in txt for k in ("'shape': tuple((num for motor, start, stop, num, snake in chunk_args))",
                               "'extents': tuple(([start, stop] for motor, start, stop, num, snake in chunk_args))",
                               "'snaking': tuple((snake for motor, start, stop, num, snake in chunk_args))"))
    ctx.ob("C25.D3-metadata-from-same-arguments", cname(gs, None, "shape / extents / snaking derived from chunk_args"), ok,
           "" if ok else "recorded shape / extents / snaking no longer come from the chunked arguments in order", nontrivial=True, where=where(gs, gs.node))
    loops = [s for s in gs.node.body if isinstance(s, ast.For) and A.norm(s.iter) == "enumerate(chunk_args)" and any("args_modified.extend" in A.norm(x) for x in A.walk_stmts(s.body))]
    ok = bool(loops) and "full_cycler = plan_patterns.outer_product(args=args_modified)" in txt and "scan_nd(detectors, full_cycler, per_step=per_step, md=_md)" in txt
    ctx.ob("C25.D3-metadata-from-same-arguments", cname(gs, None, "outer_product(args built from the same chunk_args) -> scan_nd"), ok,
           "" if ok else "the trajectory is no longer built from the chunked arguments that the metadata describe", nontrivial=True, where=where(gs, gs.node))
    if loops:
        b = A.norm(loops[0])
        ok = "args_modified.extend(chunk[:-1])" in b and "args_modified.extend(chunk)" in b and "n == 0" in b
        ctx.ob("C25.D3-metadata-from-same-arguments", cname(gs, None, "the slowest axis drops its snake flag, the others keep all five fields"), ok, "" if ok else "argument re-packing changed", where=where(gs, loops[0]))
    sc = repo.func(PL, "scan")
    txt = A.norm(sc.node)
    ok = "full_cycler = plan_patterns.inner_product(num=num, args=args)" in txt and "scan_nd(detectors, full_cycler, per_step=per_step, md=_md)" in txt
    ctx.ob("C25.D3-metadata-from-same-arguments", cname(sc, None, "inner_product(num=num, args=args) -> scan_nd"), ok, "" if ok else "scan no longer passes its own num / args to the pattern", where=where(sc, sc.node))
    for pname, pat, call in (("list_scan", "inner_list_product", "plan_patterns.inner_list_product(args)"),
                             ("list_grid_scan", "outer_list_product", "plan_patterns.outer_list_product(args, snake_axes)")):
        p = repo.func(PL, pname)
        t = A.norm(p.node)
        ok = f"full_cycler = {call}" in t and "scan_nd(detectors, full_cycler, per_step=per_step, md=_md)" in t
        ctx.ob("C25.D3-metadata-from-same-arguments", cname(p, None, f"{pat}(own args) -> scan_nd"), ok, "" if ok else "list scan no longer passes its own position lists", where=where(p, p.node))
    # D4 linspace bindings in the pattern module
    for fn, unpack in (("inner_product", ["motor", "start", "stop"]), ("outer_product", ["motor", "start", "stop", "num", "snake"])):
        f = repo.func(PT, fn)
        ls = linspace_calls(f)
        ok = len(ls) == 1 and [A.norm(a) for a in ls[0].args] == ["start", "stop"] and A.norm(A.kw(ls[0], "num")) == "num" and \
            (A.kw(ls[0], "endpoint") is None or A.norm(A.kw(ls[0], "endpoint")) == "True")
        ctx.ob("C25.D4-linspace-binding", cname(f, None, "np.linspace(start, stop, num=num, endpoint=True)"), ok,
               "" if ok else "start / stop / num are not bound to the like-named parameters or the end point is excluded", nontrivial=True, where=where(f, f.node))
        loops = [s for s in A.walk_stmts(f.node.body) if isinstance(s, ast.For)]
        ok = bool(loops) and [A.norm(e) for e in loops[0].target.elts] == unpack
        ctx.ob("C25.D4-linspace-binding", cname(f, None, f"arguments unpacked as {unpack}"), ok, "" if ok else "argument order changed", where=where(f, f.node))
        apps = [c for x in (loops[0].body if loops else []) for c in A.calls_in(x) if A.call_name(c) == "cyclers.append" and len(c.args) == 1]
        ok = False
        if len(apps) == 1 and len(ls) == 1:
            v = q.expand(f.node, apps[0].args[0])
            ok = isinstance(v, ast.Call) and A.call_name(v) == "cycler" and len(v.args) == 2 and A.norm(v.args[0]) == "motor" and A.norm(v.args[1]) == A.norm(ls[0])
        ctx.ob("C25.D4-linspace-binding", cname(f, None, "one cycler per motor over its own steps, in argument order"), ok, "" if ok else "cycler construction changed", where=where(f, f.node))
    f = repo.func(PT, "outer_product")
    ok = any(isinstance(s, ast.Return) and A.norm(s.value) == "snake_cyclers(cyclers, snaking)" for s in f.node.body) and any(A.norm(x) == "snaking.append(snake)" for x in A.walk_stmts(f.node.body))
    ctx.ob("C25.D4-linspace-binding", cname(f, None, "snake_cyclers(cyclers, snaking) with one flag per axis"), ok, "" if ok else "snaking flags no longer line up with the axes", where=where(f, f.node))
    f = repo.func(PT, "inner_product")
    ok = any(isinstance(s, ast.Return) and A.norm(s.value) == "functools.reduce(operator.add, cyclers)" for s in f.node.body)
    ctx.ob("C25.D4-linspace-binding", cname(f, None, "inner product = sum of the per-motor cyclers"), ok, "" if ok else "combination changed", where=where(f, f.node))
    x2 = repo.func(PL, "x2x_scan")
    cs = [c for c in A.calls_in(x2.node) if A.call_name(c) == "relative_inner_product_scan"]
    ok = bool(cs) and [A.norm(a) for a in cs[0].args] == ["detectors", "num", "motor1", "start", "stop", "motor2", "start / 2", "stop / 2"]
    ctx.ob("C25.D4-linspace-binding", cname(x2, None, "motor2 scans half of motor1's range"), ok, "" if ok else "x2x argument order / halving changed", where=where(x2, x2.node))
    d5_per_step_moves(ctx, repo)


PSM = "bluesky.plan_stubs"


def _is_cache_cmp(test, var, cache, key, op):
    """`var <op> cache[key]` (either operand order), nothing else."""
    if not (isinstance(test, ast.Compare) and len(test.ops) == 1 and isinstance(test.ops[0], op)):
        return False
    a, b = test.left, test.comparators[0]
    def is_var(e): return isinstance(e, ast.Name) and e.id == var
    def is_slot(e): return isinstance(e, ast.Subscript) and A.norm(e.value) == cache and A.norm(e.slice) == key
    return (is_var(a) and is_slot(b)) or (is_slot(a) and is_var(b))


def d5_per_step_moves(ctx, repo):
    """The per-step stubs command exactly the point they are given: a motor of the step is left
    alone only when its target EQUALS the last commanded target (exact comparison against the
    position cache), and the cache records what was commanded."""
    rule = "C25.D5-per-step-commands-the-point"
    f = repo.func(PSM, "move_per_step")
    params = [a.arg for a in f.node.args.args]
    ctx.require(len(params) >= 2, f"{f.key}: (step, pos_cache) parameters")
    step, cache = params[0], params[1]
    loops = [s for s in f.node.body if isinstance(s, ast.For) and A.norm(s.iter) == f"{step}.items()" and isinstance(s.target, ast.Tuple) and len(s.target.elts) == 2]
    ok = len(loops) == 1
    ctx.ob(rule, cname(f, None, "one loop over every (motor, position) of the step"), ok, "" if ok else "the step is no longer iterated item by item", where=where(f, f.node))
    if ok:
        lp = loops[0]
        motor, pos = (A.norm(e) for e in lp.target.elts)
        # every way a motor avoids its `set`
        skips, sets, stores, problems = [], [], [], []

        def scan(body, guards):
            for s in body:
                if isinstance(s, ast.If):
                    scan(s.body, guards + [(s.test, True)])
                    scan(s.orelse, guards + [(s.test, False)])
                elif isinstance(s, (ast.Continue, ast.Break, ast.Return)):
                    skips.append((s, guards))
                elif isinstance(s, (ast.For, ast.While, ast.Try, ast.With)):
                    problems.append(f"unexpected {type(s).__name__} in the loop body")
                else:
                    for n in A.walk_local(s):
                        if A.is_msg_yield(n, "set"):
                            sets.append((s, n, guards))
                    if isinstance(s, ast.Assign) and any(isinstance(t, ast.Subscript) and A.norm(t.value) == cache for t in s.targets):
                        stores.append((s, guards))
        scan(lp.body, [])
        ok = len(sets) == 1 and [A.norm(a) for a in sets[0][1].value.args[1:3]] == [motor, pos] and not problems
        ctx.ob(rule, cname(f, None, f"yield Msg('set', {motor}, {pos}, group=...)"), ok,
               "" if ok else f"the motor is not commanded to the step's position ({[A.norm(x[1]) for x in sets]} {problems})", nontrivial=True, where=where(f, lp))
        # the skip condition: exact equality against the cache
        conds = []
        for s, guards in skips:
            for t, pol in guards:
                conds.append((t, pol, "skip"))
        for s, n, guards in sets:
            for t, pol in guards:
                conds.append((t, pol, "set"))
        ok = True
        detail = ""
        for t, pol, kind in conds:
            want_eq = (kind == "skip") == pol
            good = _is_cache_cmp(t, pos, cache, motor, ast.Eq if want_eq else ast.NotEq)
            if not good:
                ok = False
                detail = f"a motor of the step is not moved when `{A.norm(t)}` is {'true' if (kind == 'skip') == pol else 'false'}: that is not exact equality of the target with the last commanded target"
        ok = ok and bool(conds)
        ctx.ob(rule, cname(f, None, f"a motor is skipped only when {pos} == {cache}[{motor}] exactly"), ok,
               detail or ("" if ok else "no skip condition found"), nontrivial=True, where=where(f, lp))
        ok = len(stores) == 1 and A.norm(stores[0][0]) == f"{cache}[{motor}] = {pos}" and bool(sets) and stores[0][1] == sets[0][2] and \
            stores[0][0].lineno > sets[0][0].lineno
        ctx.ob(rule, cname(f, None, f"{cache}[{motor}] = {pos} after the set, under the same condition"), ok,
               "" if ok else "the position cache no longer records exactly what was commanded (a later equal target would be skipped wrongly, or a different one not re-sent)", where=where(f, lp))
        grp = A.kw(sets[0][1].value, "group") if sets else None
        waits = [n for s in f.node.body if s is not lp and s.lineno > lp.lineno for n in A.walk_local(s) if A.is_msg_yield(n, "wait")]
        ok = grp is not None and len(waits) >= 1 and A.kw(waits[0].value, "group") is not None and A.norm(A.kw(waits[0].value, "group")) == A.norm(grp)
        ctx.ob(rule, cname(f, None, "wait on the group of the sets before the reading"), ok, "" if ok else "the reading is no longer taken after the motors arrived", where=where(f, f.node))
    o = repo.func(PSM, "one_1d_step")
    g = q.flat_view(o)  # the move helper may be a nested generator or written in line
    oparams = [a.arg for a in o.node.args.args]
    sets = [n for n in A.walk_local(g.node) if A.is_msg_yield(n, "set")]
    ok = len(sets) == 1 and len(oparams) >= 3 and [A.norm(a) for a in sets[0].value.args[1:3]] == oparams[1:3] and \
        not any(isinstance(s, (ast.If, ast.For, ast.While, ast.Try)) and any(n is sets[0] for n in ast.walk(s)) for s in A.walk_stmts(g.node.body))
    ctx.ob(rule, cname(g, None, "unconditional Msg('set', motor, step)"), ok, "" if ok else "one_1d_step no longer commands the motor to the step unconditionally", nontrivial=True, where=where(g, g.node))
    waits = [n for n in A.walk_local(g.node) if A.is_msg_yield(n, "wait")]
    ok = bool(sets) and bool(waits) and A.kw(sets[0].value, "group") is not None and A.kw(waits[0].value, "group") is not None and \
        A.norm(A.kw(sets[0].value, "group")) == A.norm(A.kw(waits[0].value, "group")) and waits[0].lineno > sets[0].lineno
    ctx.ob(rule, cname(g, None, "wait on the group of the set"), ok, "" if ok else "the move is not awaited", where=where(g, g.node))
    n = repo.func(PSM, "one_nd_step")
    yf = [nn.value for s in n.node.body for nn in A.walk_local(s) if isinstance(nn, ast.YieldFrom) and isinstance(nn.value, ast.Call)]
    nparams = [a.arg for a in n.node.args.args]
    ok = bool(yf) and A.call_name(yf[0]) == "move_per_step" and [A.norm(a) for a in yf[0].args] == nparams[1:3]
    ctx.ob(rule, cname(n, None, "move_per_step(step, pos_cache) with the caller's step and cache"), ok, "" if ok else "one_nd_step passes something else to move_per_step", where=where(n, n.node))
    ctx.expect(rule, 8)


CLAIM = {
    "text": "Does not decide trajectory values. Decides that step scans perform exactly one per_step per point of the cycler in order and record "
            "num_points = len(cycler); that each point starts with a checkpoint; that grid_scan's shape / extents / snaking metadata and its "
            "outer_product arguments derive from the same chunked arguments and the other scans pass their own arguments to their pattern; and "
            "that every np.linspace binds start / stop / num to the like-named variables with the end point included; and that the per-step stubs "
            "command every motor of the step to the step's position, skipping one only on exact equality with the last commanded target.",
    "technique": "single-source def-use; loop-shape rules; suspicious-argument binding check on np.linspace",
}

L = "plans.py"
T = "plan_patterns.py"
MUTANTS = [
    ("outer_product excludes the end point", [(T, "        steps = np.linspace(start, stop, num=num, endpoint=True)\n        c = cycler(motor, steps)\n        cyclers.append(c)\n\n    return snake_cyclers(cyclers, snaking)", "        steps = np.linspace(start, stop, num=num, endpoint=False)\n        c = cycler(motor, steps)\n        cyclers.append(c)\n\n    return snake_cyclers(cyclers, snaking)")], "C25.D4"),
    ("inner_product swaps start and stop", [(T, "        steps = np.linspace(start, stop, num=num, endpoint=True)\n        c = cycler(motor, steps)\n        cyclers.append(c)\n    return functools.reduce(operator.add, cyclers)", "        steps = np.linspace(stop, start, num=num, endpoint=True)\n        c = cycler(motor, steps)\n        cyclers.append(c)\n    return functools.reduce(operator.add, cyclers)")], "C25.D4"),
    ("scan_nd skips unchanged points", [(L, "        for step in list(cycler):\n            yield from per_step(detectors, step, pos_cache)", "        for step in list(cycler):\n            if step == pos_cache:\n                continue\n            yield from per_step(detectors, step, pos_cache)")], "C25.D1"),
    ("num_points off by one", [(L, '        "num_points": len(cycler),\n        "num_intervals": len(cycler) - 1,', '        "num_points": len(cycler) - 1,\n        "num_intervals": len(cycler) - 1,')], "C25.D1"),
    ("grid_scan shape from the raw args", [(L, '        "shape": tuple(num for motor, start, stop, num, snake in chunk_args),', '        "shape": tuple(args[3::4]),')], "C25.D3"),
    ("x2x second motor over the full range", [(L, "detectors, num, motor1, start, stop, motor2, start / 2, stop / 2, per_step=per_step, md=_md", "detectors, num, motor1, start, stop, motor2, start, stop / 2, per_step=per_step, md=_md")], "C25.D4"),
    ("snake flags reversed", [(T, "        c = cycler(motor, steps)\n        cyclers.append(c)\n\n    return snake_cyclers(cyclers, snaking)", "        c = cycler(motor, steps)\n        cyclers.append(c)\n\n    return snake_cyclers(cyclers, snaking[::-1])")], "C25.D4"),
    ("move_per_step without checkpoint", [("plan_stubs.py", "    yield Msg(\"checkpoint\")\n    grp = _short_uid(\"set\")\n    for motor, pos in step.items():", "    grp = _short_uid(\"set\")\n    for motor, pos in step.items():")], "C25.D2"),
]
MUTANTS += [
    ("move_per_step skips nearly-equal targets", [("plan_stubs.py", "        if pos == pos_cache[motor]:", "        if pos is not None and pos_cache[motor] is not None and abs(pos - pos_cache[motor]) < 1e-8:")], "C25.D5"),
    ("move_per_step forgets to update the cache", [("plan_stubs.py", "        yield Msg(\"set\", motor, pos, group=grp)\n        pos_cache[motor] = pos", "        yield Msg(\"set\", motor, pos, group=grp)")], "C25.D5"),
    ("move_per_step caches before deciding", [("plan_stubs.py", "        if pos == pos_cache[motor]:\n            # This step does not move this motor.\n            continue\n        yield Msg(\"set\", motor, pos, group=grp)\n        pos_cache[motor] = pos", "        last, pos_cache[motor] = pos_cache[motor], pos\n        if pos == pos_cache[motor]:\n            # This step does not move this motor.\n            continue\n        yield Msg(\"set\", motor, pos, group=grp)")], "C25.D5"),
    ("one_1d_step sets a different group than it waits on", [("plan_stubs.py", "        yield Msg(\"set\", motor, step, group=grp)\n        yield Msg(\"wait\", None, group=grp)", "        yield Msg(\"set\", motor, step, group=grp)\n        yield Msg(\"wait\", None, group=_short_uid(\"wait\"))")], "C25.D5"),
]
BENIGN = [
    ("move_per_step written with != instead of continue", [("plan_stubs.py", "        if pos == pos_cache[motor]:\n            # This step does not move this motor.\n            continue\n        yield Msg(\"set\", motor, pos, group=grp)\n        pos_cache[motor] = pos", "        if pos != pos_cache[motor]:\n            yield Msg(\"set\", motor, pos, group=grp)\n            pos_cache[motor] = pos")]),
]
