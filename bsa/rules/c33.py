"""C33 - 0MQ publishing delivers documents intact and filters by prefix."""

from __future__ import annotations

import ast

from .. import astutil as A
from .. import cfg as C
from .. import q
from ..idioms import cname, where

ZM = "bluesky.callbacks.zmq"


def run(ctx):
    repo = ctx.repo
    ctx.explanation = (
        "Decided: D1 writer / reader framing agree: the publisher joins (prefix, name, payload) with b' ' in that order and the reader "
        "splits on b' ' at most twice into (prefix, name, doc); both constructors reject a prefix containing the separator and a str "
        "prefix; D2 error discipline on wire-derived data: every fallible operation of _poll on the received frame (split, decode, "
        "deserialize, document-name lookup) lies in a try whose handler raises Bluesky0MQDecodeError in strict mode and otherwise "
        "continues without delivering; D3 delivery only when no prefix is configured or the frame's prefix equals it; documents are "
        "delivered in arrival order through call_soon; the publisher sends a deep copy. Not decided: pickle round trip, transport ordering.")
    pub = repo.func(ZM, "Publisher.__call__")
    joins = [c for c in A.calls_in(pub.node) if isinstance(c.func, ast.Attribute) and c.func.attr == "join"]
    gp = q.cfg(pub, q.quiet_policy(repo))
    elts = []
    if len(joins) == 1 and isinstance(joins[0].args[0], (ast.List, ast.Tuple)):
        st_ = A.enclosing_stmt(joins[0], A.parents(pub.node))
        ids_ = gp.nodes_of(st_) if st_ is not None else []
        # every element with the function's temporaries followed back (the copy may have its own name)
        elts = [A.norm(q.expand_at(gp, ids_[0], e)) if ids_ else A.norm(e) for e in joins[0].args[0].elts]
    ok = len(joins) == 1 and A.norm(joins[0].func.value) == "b' '" and elts[:2] == ["self._prefix", "name.encode()"] and len(elts) == 3 and elts[2].startswith("self._serializer(")
    ctx.ob("C33.D1-framing-agrees", cname(pub, None, "frame = b' '.join([prefix, name, payload])"), ok,
           "" if ok else "the publisher's frame layout changed", nontrivial=True, where=where(pub, pub.node))
    sends = [c for c in A.calls_in(pub.node) if A.call_name(c) == "self._socket.send"]
    sent_is_frame = False
    if len(sends) == 1 and len(sends[0].args) == 1 and len(joins) == 1:
        st_ = A.enclosing_stmt(sends[0], A.parents(pub.node))
        ids_ = gp.nodes_of(st_) if st_ is not None else []
        sent = q.expand_at(gp, ids_[0], sends[0].args[0]) if ids_ else sends[0].args[0]
        sent_is_frame = isinstance(sent, ast.Call) and isinstance(sent.func, ast.Attribute) and sent.func.attr == "join"
    ok = sent_is_frame and len(elts) == 3 and elts[2] == "self._serializer(copy.deepcopy(doc))"
    ctx.ob("C33.D1-framing-agrees", cname(pub, None, "a deep copy of the document is serialised and the frame is sent once"), ok, "" if ok else "send / copy changed", where=where(pub, pub.node))
    poll = repo.func(ZM, "RemoteDispatcher._poll")
    splits = [s for s in A.walk_stmts(poll.node.body) if isinstance(s, ast.Assign) and "message.split(" in A.norm(s.value)]
    F = None  # the three field names, whatever they are called
    if len(splits) == 1 and isinstance(splits[0].targets[0], ast.Tuple) and len(splits[0].targets[0].elts) == 3 and all(isinstance(e, ast.Name) for e in splits[0].targets[0].elts):
        F = [e.id for e in splits[0].targets[0].elts]
    txt_poll = A.norm(poll.node)
    ok = F is not None and A.norm(splits[0].value) == "message.split(b' ', 2)" and f"{F[0]} == our_prefix" in txt_poll and f"{F[1]}.decode()" in txt_poll \
        and f"self._deserializer({F[2]})" in txt_poll
    ctx.ob("C33.D1-framing-agrees", cname(poll, None, "(prefix, name, doc) = frame.split(b' ', 2)"), ok,
           "" if ok else "the reader no longer splits the frame into the three fields the publisher joins (same separator, order, at most 2 splits so the payload may contain it)",
           nontrivial=True, where=where(poll, poll.node))
    for qual in ("Publisher.__init__", "RemoteDispatcher.__init__"):
        f = repo.func(ZM, qual)
        ok1 = any(isinstance(s, ast.If) and A.norm(s.test) == "b' ' in prefix" and any(isinstance(x, ast.Raise) for x in s.body) for s in f.node.body)
        ok2 = any(isinstance(s, ast.If) and A.norm(s.test) == "isinstance(prefix, str)" and any(isinstance(x, ast.Raise) for x in s.body) for s in f.node.body)
        ctx.ob("C33.D1-framing-agrees", cname(f, None, "a prefix containing the separator (or a str) is rejected"), ok1 and ok2, "" if (ok1 and ok2) else "prefix validation changed", where=where(f, f.node))
    # D2 error discipline
    fallible = []
    for s in A.walk_stmts(poll.node.body):
        if isinstance(s, (ast.Try, ast.If, ast.While, ast.For, ast.With)):
            continue
        t = A.norm(s)
        if "message.split(" in t or (F is not None and f"{F[1]}.decode(" in t) or "name.decode(" in t or "self._deserializer(" in t or "DocumentNames[" in t:
            fallible.append(s)
    pm = A.parents(poll.node)
    for s in fallible:
        p = pm.get(s)
        while p is not None and not isinstance(p, (ast.Try, ast.AsyncFunctionDef)):
            p = pm.get(p)
        ok = False
        why = "is outside any try block"
        if isinstance(p, ast.Try) and s in p.body:
            hs = p.handlers
            ok = bool(hs)
            # breadth: what this operation can raise on arbitrary wire bytes must be caught.  The deserializer is a pluggable callable
            # (pickle.loads by default: TypeError, KeyError, ... on crafted payloads; any class for a user's deserializer) -> Exception
            t = A.norm(s)
            need = "Exception" if "self._deserializer(" in t else ("KeyError" if "DocumentNames[" in t else ("UnicodeDecodeError" if ".decode(" in t else "ValueError"))
            caught = []
            for h in hs:
                ht = h.type
                if isinstance(ht, ast.Name):
                    mod_defs = [d for d in repo.module(ZM).tree.body if isinstance(d, ast.Assign) and any(isinstance(x, ast.Name) and x.id == ht.id for x in d.targets)]
                    if mod_defs and isinstance(mod_defs[0].value, (ast.Tuple, ast.List)):
                        ht = mod_defs[0].value
                elts = ht.elts if isinstance(ht, (ast.Tuple, ast.List)) else ([ht] if ht is not None else [])
                caught += [(A.chain(e) or "?").split(".")[-1] for e in elts] if ht is not None else ["BaseException"]
            verdict, _ = q.hier(repo).match(need, caught)
            if verdict != "yes":
                ctx.ob("C33.D2-malformed-frames-dropped", cname(poll, s) + f" catches {need}", False,
                       f"the handlers around this operation catch {caught} but it can raise any {need} on wire data: such a frame kills the poll loop "
                       "(every later document is lost) instead of being dropped", nontrivial=True, where=where(poll, s))
            for h in hs:
                ifs = [x for x in h.body if isinstance(x, ast.If) and A.norm(x.test) == "self._strict"]
                # strict: raise; otherwise the frame is dropped: `else: ...; continue` or a `continue` after the if (the raise leaves)
                loops_ = [l_ for l_ in A.walk_stmts(poll.node.body) if isinstance(l_, ast.While)]
                falls_to_next_frame = bool(loops_) and q.in_tail_position(loops_[0], p) and not p.finalbody and not any(isinstance(z, (ast.Return, ast.Break)) for z in A.walk_stmts(h.body))
                good = bool(ifs) and any(isinstance(y, ast.Raise) and "Bluesky0MQDecodeError" in A.norm(y) for y in ifs[0].body) and \
                    ((bool(ifs[0].orelse) and isinstance(ifs[0].orelse[-1], ast.Continue)) or
                     (not ifs[0].orelse and isinstance(ifs[0].body[-1], ast.Raise) and isinstance(A.body(h.body)[-1], ast.Continue)
                      and not any(isinstance(z, (ast.Return, ast.Break)) for z in A.walk_stmts(h.body))) or
                     # nothing follows the try in the loop body (what is delivered sits in its else part): dropping = falling off the handler
                     (isinstance(ifs[0].body[-1], ast.Raise) and falls_to_next_frame))
                ok = ok and good
            why = "its handler does not (raise Bluesky0MQDecodeError if strict else continue)"
        ctx.ob("C33.D2-malformed-frames-dropped", cname(poll, s), ok,
               "" if ok else f"this operation on wire data {why}: a malformed frame kills the poll loop (or is delivered) instead of being dropped", nontrivial=True, where=where(poll, s))
    ctx.expect("C33.D2-malformed-frames-dropped", 4)
    # nothing wire-derived is used fallibly elsewhere
    deliver = [s for s in A.walk_stmts(poll.node.body) if isinstance(s, ast.Expr) and "self.loop.call_soon(self.process" in A.norm(s)]
    ok = len(deliver) == 1 and "DocumentNames[" not in A.norm(deliver[0])
    ctx.ob("C33.D2-malformed-frames-dropped", cname(poll, None, "delivery uses the already validated name"), ok, "" if ok else "name looked up at delivery time", where=where(poll, poll.node))
    # D3 prefix filter dominates deserialisation + delivery
    g = q.cfg(poll, q.quiet_policy(repo))
    for s in deliver:
        w = q.guard_true_dominates(g, s, lambda t: A.norm(t) == "not our_prefix or prefix == our_prefix", "T")
        ctx.ob("C33.D3-prefix-filter", cname(poll, None, "delivery only when no prefix is configured or the prefixes are equal"), w is None,
               "" if w is None else "frames of other publishers are delivered", nontrivial=True, witness=w, where=where(poll, s))
    # what is delivered was derived from THIS frame: every path from the receive to the delivery defines each delivered local afresh
    recv = [i for i, n in enumerate(g.nodes) if n.kind == "stmt" and n.stmt is not None and "self._socket.recv()" in A.norm(n.stmt) and isinstance(n.stmt, (ast.Assign, ast.AnnAssign))]
    for s in deliver:
        call = s.value
        sent = [a.id for a in call.args[1:] if isinstance(a, ast.Name)]
        ids = g.nodes_of(s)
        for nm in sent:
            w = g.must_pass(recv, lambda n, nm=nm: q._node_defs(n, nm) is not None, exits=ids) if recv and ids else ["<receive / delivery not found>"]
            ctx.ob("C33.D2-delivered-from-this-frame", cname(poll, None, f"`{nm}` is assigned between receiving a frame and delivering it"), w is None,
                   "" if w is None else f"`{nm}` can reach the delivery with a value from an EARLIER frame (or from before the loop): a frame whose own name / payload was rejected "
                   "or skipped is delivered under what a previous frame left behind", nontrivial=True, witness=w[-6:] if w else None, where=where(poll, s))
    ok = any(A.norm(s) == "our_prefix = self._prefix" for s in poll.node.body)
    ctx.ob("C33.D3-prefix-filter", cname(poll, None, "our_prefix is this dispatcher's prefix"), ok, "" if ok else "prefix source changed", where=where(poll, poll.node))
    loops = [s for s in poll.node.body if isinstance(s, ast.While)]
    ok = bool(loops) and any(A.norm(x) == "message = await self._socket.recv()" for x in loops[0].body) and not any(isinstance(x, (ast.Break, ast.Return)) for x in A.walk_stmts(loops[0].body))
    ctx.ob("C33.D3-prefix-filter", cname(poll, None, "one frame per iteration, loop never left by a bad frame"), ok, "" if ok else "loop exits on some frames", where=where(poll, poll.node))


CLAIM = {
    "text": "Decides that the publisher's frame layout and the reader's parsing agree (separator, three fields, order, at most two splits, prefix "
            "validation on both sides), that every fallible operation on wire-derived data in the poll loop is guarded by a handler that raises "
            "the decode error in strict mode and otherwise drops the frame and continues, that everything delivered is assigned between receiving that frame and delivering it, and that delivery is dominated by the prefix filter. "
            "Pickle round trips and transport ordering are not decided.",
    "technique": "writer/reader table agreement; error-discipline rule over fallible operations on tainted (wire-derived) data; guard dominance",
}

Z = "callbacks/zmq.py"
MUTANTS = [
    ("the enum lookup is skipped for a repeated name (seed C33-c)",
     [(Z, "        our_prefix = self._prefix  # local var to save an attribute lookup\n", "        our_prefix = self._prefix  # local var to save an attribute lookup\n        doc_name = None\n"),
      (Z, "                try:\n                    doc_name = DocumentNames[name]\n", "                try:\n                    if name != \"\":\n                        doc_name = DocumentNames[name]\n")], "C33.D2"),
    ("reader splits once", [(Z, "                prefix, name, doc = message.split(b\" \", 2)", "                prefix, name, doc = message.split(b\" \", 1)")], "C33.D1"),
    ("document name looked up outside the try (revert of F-9)",
     [(Z, "                try:\n                    doc_name = DocumentNames[name]\n                except KeyError as e:\n                    if self._strict:\n                        raise Bluesky0MQDecodeError from e\n                    else:\n                        print(\n                            f\"The name {name} is not a known document name. \"\n                            \"Dropping message on the floor and continuing. \"\n                            f\"\\n\\n{e}\"\n                        )\n                        continue\n                self.loop.call_soon(self.process, doc_name, doc)",
       "                self.loop.call_soon(self.process, DocumentNames[name], doc)")], "C33.D2"),
    ("deserialiser outside the try", [(Z, "                try:\n                    doc = self._deserializer(doc)\n                except Exception as e:\n                    if self._strict:", "                doc = self._deserializer(doc)\n                try:\n                    pass\n                except Exception as e:\n                    if self._strict:")], "C33.D2"),
    ("non-strict decode error stops the loop", [(Z, "                        f\"\\n\\n{e}\"\n                    )\n                    continue\n            if (not our_prefix) or prefix == our_prefix:", "                        f\"\\n\\n{e}\"\n                    )\n                    return\n            if (not our_prefix) or prefix == our_prefix:")], ["C33.D2", "C33.D3"]),
    ("prefix filter uses startswith", [(Z, "            if (not our_prefix) or prefix == our_prefix:", "            if (not our_prefix) or prefix.startswith(our_prefix):")], "C33.D3"),
    ("publisher puts the name first", [(Z, "        message = b\" \".join([self._prefix, name.encode(), self._serializer(doc)])", "        message = b\" \".join([name.encode(), self._prefix, self._serializer(doc)])")], "C33.D1"),
    ("dispatcher accepts prefixes with spaces", [(Z, "        if isinstance(prefix, str):\n            raise ValueError(\"prefix must be bytes, not string\")\n        if b\" \" in prefix:\n            raise ValueError(f\"prefix {prefix!r} may not contain b' '\")\n        self._prefix = prefix", "        if isinstance(prefix, str):\n            raise ValueError(\"prefix must be bytes, not string\")\n        self._prefix = prefix")], "C33.D1"),
    ("strict mode swallows a split error", [(Z, "            except ValueError as e:\n                if self._strict:\n                    raise Bluesky0MQDecodeError from e", "            except ValueError as e:\n                if False:\n                    raise Bluesky0MQDecodeError from e")], "C33.D2"),
]
BENIGN = []
