"""C11 - suspension holds the plan until release, then runs post-plan and rewinds."""

from __future__ import annotations

import ast

from .. import astutil as A
from .. import q
from ..bidioms import broadcast_loops
from ..idioms import cname, where
from ..re_model import CLS, MOD, REModel
from . import c04, c41

SU = "bluesky.suspenders"


def d1_start_sequence(ctx, rm: REModel):
    ss = rm.handler("_start_suspender")
    seq = list(A.walk_stmts(ss.node.body))

    def idx(pred):
        return next((i for i, s in enumerate(seq) if pred(s)), None)

    rec = broadcast_loops(ss.node, "record_interruption")
    i_rec = seq.index(rec[0]) if rec else None
    i_stop = idx(lambda s: isinstance(s, ast.Expr) and bool(A.find_calls(s, "self._stop_movable_objects")))
    i_rewind = idx(lambda s: isinstance(s, ast.Assign) and bool(A.find_calls(s, "self._rewind")))
    i_push = idx(lambda s: isinstance(s, ast.Expr) and bool(A.find_calls(s, "self._plan_stack.append")))
    i_resp = idx(lambda s: A.norm(s) == "self._response_stack.append(None)")
    ctx.ob("C11.D1-start-sequence", cname(ss, None, "interruption recorded in every open run"), i_rec is not None,
           "" if i_rec is not None else "the suspension is not recorded", where=where(ss, ss.node))
    ctx.ob("C11.D1-start-sequence", cname(ss, None, "every moved device is stopped"), i_stop is not None,
           "" if i_stop is not None else "moved devices keep moving during the suspension", where=where(ss, ss.node))
    ok = None not in (i_stop, i_rewind, i_push, i_resp) and i_stop < i_rewind < i_push and abs(i_push - i_resp) == 1
    ctx.ob("C11.D1-start-sequence", cname(ss, None, "stop devices, then rewind, then push the helper plan with a None response"), ok,
           "" if ok else "the order stop -> rewind -> push helper plan (+ response) is broken", nontrivial=True, where=where(ss, ss.node))
    push = seq[i_push] if i_push is not None else None
    ok = push is not None and "suspender_helper_inner_plan()" in A.norm(push)
    ctx.ob("C11.D1-start-sequence", cname(ss, None, "the pushed plan is the helper plan"), ok, "" if ok else "another plan is pushed", where=where(ss, ss.node))
    # the helper plan order (also C04.D4)
    n0 = len(ctx.obligations)
    c04.d4_rewind(ctx, rm)
    kept = [o for o in ctx.obligations[n0:] if o["rule"] == "C04.D4-suspender-helper-order"]
    for o in kept:
        o["rule"] = "C11.D1-helper-plan-order"
    ctx.obligations[n0:] = kept
    helper = rm.repo.func(MOD, f"{CLS}._start_suspender.suspender_helper_inner_plan")
    # wait_for waits on exactly the suspender's future
    wf = [n for n in A.walk_local(helper.node) if A.is_msg_yield(n, "wait_for")]
    ok = len(wf) == 1 and len(wf[0].value.args) >= 3 and A.norm(wf[0].value.args[2]).replace("\n", "").replace(" ", "") in ("[fut]", "[fut,]")
    ctx.ob("C11.D1-helper-plan-order", cname(helper, None, "waits for the suspender's future"), ok, "" if ok else "the helper does not wait for the release future", where=where(helper, helper.node))
    # D5: the wait cannot be abandoned.  A message interrupted by a suspension / pause is only executed again if it was cached
    # (rewinding on) or if the plan re-issues it.  The helper switches rewinding off first, so its wait_for must sit in a loop
    # that re-issues it until the release - otherwise a second, overlapping suspension (its request cancels the await) ends the
    # first one's wait: the plan runs on while the first suspender is still tripped.
    pm = A.parents(helper.node)
    for y in wf:
        cmds_before = []
        for n in A.walk_local(helper.node):
            if isinstance(n, ast.Yield) and A.is_msg_yield(n) and n.lineno < y.lineno:
                c = A.const_str(n.value.args[0])
                if c == "rewindable":
                    val = A.norm(n.value.args[2]) if len(n.value.args) >= 3 else "?"
                    cmds_before.append(val)
        uncached = bool(cmds_before) and cmds_before[-1] == "False"
        in_loop = False
        p = pm.get(y)
        while p is not None and p is not helper.node:
            if isinstance(p, (ast.While, ast.For)):
                in_loop = True
            p = pm.get(p)
        ok5 = (not uncached) or in_loop
        ctx.ob("C11.D5-wait-cannot-be-abandoned", cname(helper, None, "Msg('wait_for', [fut]) is replayable or re-issued"), ok5,
               "" if ok5 else "the wait for the release is issued once, with rewinding switched off (not cached): a suspension or pause landing on it "
               "(overlapping suspensions) abandons it, and the plan resumes when the LATER suspension is released although this one is still in effect",
               nontrivial=True, where=where(helper, y))

    unpack = [s for s in ss.node.body if isinstance(s, ast.Assign) and A.norm(s.value) == "msg.args" and isinstance(s.targets[0], ast.Tuple)]
    ok = bool(unpack) and [A.norm(e) for e in unpack[0].targets[0].elts] == ["pre_plan", "post_plan", "justification", "fut"]
    ctx.ob("C11.D1-helper-plan-order", cname(ss, None, "pre/post plan, justification and future unpacked from the message"), ok, "" if ok else "argument order of the _start_suspender message changed", where=where(ss, ss.node))
    # request_suspend packs them in the same order
    rs = rm.repo.func(MOD, f"{CLS}.request_suspend._request_suspend")
    msgs = [c for c in A.calls_in(rs.node) if A.call_name(c) == "Msg" and c.args and A.const_str(c.args[0]) == "_start_suspender"]
    ok = len(msgs) == 1 and [A.norm(a) for a in msgs[0].args[1:]] == ["None", "pre_plan", "post_plan", "justification", "fut"]
    ctx.ob("C11.D1-helper-plan-order", cname(rs, None, "Msg('_start_suspender', None, pre_plan, post_plan, justification, fut)"), ok,
           "" if ok else "the request packs the arguments in a different order than the handler unpacks them", nontrivial=True, where=where(rs, rs.node))
    # the suspension request interrupts the running message (state + cancel) unless paused
    ifs = [s for s in rs.node.body if isinstance(s, ast.If) and "paused" in A.norm(s.test) and any(rm.is_state_write(x, "suspending") for x in s.body)
           and any(A.find_calls(x, "self._task.cancel") for x in s.body)]
    ctx.ob("C11.D1-start-sequence", cname(rs, None, "a running engine is moved to 'suspending' and its current await is cancelled"), bool(ifs),
           "" if ifs else "the running plan is not interrupted by a suspension request", where=where(rs, rs.node))


def d2_control_not_returned(ctx, rm: REModel):
    repo = rm.repo
    for f in repo.funcs_in(MOD):
        for c in A.calls_in(f.node):
            if A.call_name(c) == "self._blocking_event.set":
                ok = f.qualname in (f"{CLS}._run", f"{CLS}.__call__._build_task.set_blocking_event")
                in_pause = True
                if f.qualname == f"{CLS}._run":
                    in_pause = any(c is x for s in A.walk_stmts(rm.pause_block.body) for x in A.calls_in(s))
                ctx.ob("C11.D2-caller-not-released", cname(f, c), ok and in_pause,
                       "" if (ok and in_pause) else "the blocking call is released outside the pause block / task completion: a suspension "
                       "would return control to the caller", where=where(f, c))
    ctx.expect("C11.D2-caller-not-released", 2)
    # the suspend path never enters the pause block: CancelledError handler for 'suspending' continues without clearing the permit
    run = rm.run
    h = [x for x in rm.inner_try.handlers if x.type is not None and "CancelledError" in A.norm(x.type)]
    ctx.require(h, "anchor vanished: except CancelledError in the message loop")
    br = [s for s in A.walk_stmts(h[0].body) if isinstance(s, ast.If) and A.norm(s.test) == "self._state == 'suspending'"]
    # the branch does nothing but go on with the loop: `continue`, or nothing at all when falling off the handler ends the iteration
    ok = bool(br) and all(isinstance(x, ast.Continue) for x in A.body(br[0].body)) and (len(A.body(br[0].body)) == 1 or q.in_tail_position(rm.loop, br[0]))
    ctx.ob("C11.D2-caller-not-released", cname(run, None, "a cancel caused by a suspension only bounces to the top of the loop"), ok,
           "" if ok else "the suspension path does more than continue (e.g. clears the run permit and enters the pause block)", where=where(run, h[0]))


def d4_suspender_request(ctx, repo):
    f = repo.func(SU, "SuspenderBase.__call__")
    parts = [c for c in A.calls_in(f.node) if A.call_name(c) == "partial" and c.args and A.norm(c.args[0]) == "self.RE.request_suspend"]
    ok = len(parts) == 1
    if ok:
        c = parts[0]
        ok = (len(c.args) == 2 and A.norm(c.args[1]) == "self._ev.wait" and A.norm(A.kw(c, "pre_plan")) == "self._pre_plan"
              and A.norm(A.kw(c, "post_plan")) == "self._post_plan" and A.norm(A.kw(c, "justification")) == "self._get_justification()")
    ctx.ob("C11.D4-suspender-request", cname(f, None, "request_suspend(self._ev.wait, pre_plan=, post_plan=, justification=)"), ok,
           "" if ok else "the suspender no longer passes its release future / pre-plan / post-plan / justification", nontrivial=True, where=where(f, f.node))
    # scheduled only while running, under the suspend branch
    g = q.cfg(f, q.quiet_policy(repo))
    sched = [s for s in A.walk_stmts(f.node.body) if isinstance(s, ast.Expr) and A.find_calls(s, "loop.call_soon_threadsafe")]
    ok = bool(sched)
    if ok:
        w1 = q.guard_true_dominates(g, sched[0], lambda t: A.norm(t) == "self._should_suspend(value)", "T")
        w2 = q.guard_true_dominates(g, sched[0], lambda t: A.norm(t) == "self.RE.state.is_running", "T")
        w3 = q.guard_true_dominates(g, sched[0], lambda t: "self._ev is None" in A.norm(t), "T")
        ok = w1 is None and w2 is None and w3 is None
    ctx.ob("C11.D4-suspender-request", cname(f, None, "requested once per trip, only when the condition holds and the engine is running"), ok,
           "" if ok else "a suspension can be requested without the suspend condition / twice for one trip / while not running", nontrivial=True, where=where(f, f.node))
    # the per-trip latch: _ev is None exactly when no suspension of this suspender is pending.  It must be cleared in the
    # same (locked) call that schedules the release, otherwise a new trip during the settle time is not suspended at all.
    se = repo.func(SU, "SuspenderBase.__set_event")
    top = [s for s in se.node.body if isinstance(s, ast.Assign) and A.chain(s.targets[0]) == "self._ev" and isinstance(s.value, ast.Constant) and s.value.value is None]
    ctx.ob("C11.D4-trip-latch", cname(se, None, "self._ev = None unconditionally, in the call that schedules the release"), bool(top),
           "" if top else "the latch is not cleared synchronously: a signal that trips again before the delayed release is not suspended "
           "and the pending release lets the plan continue while the condition is bad", nontrivial=True, where=where(se, se.node))
    for f2 in repo.funcs_in(SU):
        for s2 in A.walk_stmts(f2.node.body):
            for t in A.targets_of(s2):
                if A.chain(t) == "self._ev":
                    ok2 = f2.qualname in ("SuspenderBase.__init__", "SuspenderBase.__set_event", "SuspenderBase.__make_event.really_make_the_event")
                    ctx.ob("C11.D4-trip-latch", cname(f2, s2), ok2, "" if ok2 else "the latch is written from a deferred callback / another method", where=where(f2, s2))
    ok = any(A.norm(s2) == "assert self._lock.locked()" for s2 in se.node.body)
    ctx.ob("C11.D4-trip-latch", cname(se, None, "runs under the suspender's lock"), ok, "" if ok else "lock assertion removed", where=where(se, se.node))
    rs = repo.func(MOD, f"{CLS}.request_suspend")
    ok = any("self.loop.create_task" in A.norm(s) and "_request_suspend(pre_plan, post_plan, justification)" in A.norm(s) for s in rs.node.body)
    ctx.ob("C11.D4-suspender-request", cname(rs, None, "the request coroutine receives the same three arguments"), ok, "" if ok else "arguments dropped", where=where(rs, rs.node))


def run(ctx):
    rm = REModel(ctx.repo)
    ctx.explanation = (
        "Decided: D1 the start of a suspension records the interruption in every run, stops every moved device, rewinds and then "
        "pushes the helper plan whose yields are, in order, rewindable False, pre-plan, wait_for [future], _resume_from_suspender, "
        "post-plan, rewindable <previous>, replay plan; request and handler agree on the argument order; D2 the caller is released "
        "only by the pause block or task completion, and a suspension-caused cancel only bounces to the loop top; D3 monitors are "
        "suspended/restored in pairs (C41.D1); D4 a suspender requests the suspension with its own future, plans and justification, "
        "once per trip, only while running. Not decided: wall-clock behaviour, ordering of overlapping suspensions.")
    d1_start_sequence(ctx, rm)
    d2_control_not_returned(ctx, rm)
    c41.d1_suspend_restore_pairing(ctx, rm, rule="C11.D3-suspend-restore-paired")
    d4_suspender_request(ctx, ctx.repo)


CLAIM = {
    "text": "Decides (D5, failing today: F-16) that the helper's wait for the release cannot be abandoned by an overlapping interruption. Decides the sequencing of a suspension: start handler order (record, stop devices, rewind, push helper), the helper plan's yield "
            "order (non-rewindable pre-plan, wait on the suspender's future, resume, post-plan, restore rewindability, replay), agreement of "
            "the request's and the handler's argument order, that only the pause block or task completion release the caller, the "
            "suspend/restore pairing of monitors, and the suspender's request arguments and guards. Wall-clock behaviour and the ordering of "
            "overlapping suspensions are not decided.",
    "technique": "yield-sequence and statement-order rules; writer/reader argument agreement; call-site ownership; guard dominance",
}

RE = "run_engine.py"
MUTANTS = [
    ("post-plan runs before the wait",
     [(RE, "            # if there is a post plan, run it\n            if post_plan is not None:\n                yield from ensure_generator(post_plan)\n", ""),
      (RE, "            # wait for the future from the suspender to be released.  This message is not\n", "            if post_plan is not None:\n                yield from ensure_generator(post_plan)\n            # wait for the future from the suspender to be released.  This message is not\n")], "C11.D1"),
    ("devices not stopped at suspension",
     [(RE, "        # every object we ever set().\n        await self._stop_movable_objects(success=True)\n        # Notify Devices of the pause in case they want to clean up.\n        for obj in self._objs_seen:\n            if hasattr(obj, \"pause\"):",
       "        # Notify Devices of the pause in case they want to clean up.\n        for obj in self._objs_seen:\n            if hasattr(obj, \"pause\"):")], "C11.D1"),
    ("suspension releases the caller",
     [(RE, "        # add the above helper to the plan stack\n        self._plan_stack.append(suspender_helper_inner_plan())", "        # add the above helper to the plan stack\n        self._blocking_event.set()\n        self._plan_stack.append(suspender_helper_inner_plan())")], "C11.D2"),
    ("pre and post plan swapped in the request message",
     [(RE, 'single_gen(Msg("_start_suspender", None, pre_plan, post_plan, justification, fut))', 'single_gen(Msg("_start_suspender", None, post_plan, pre_plan, justification, fut))')], "C11.D1"),
    ("helper waits on nothing",
     [(RE, "            while (yield Msg(\"wait_for\", None, [fut])) is None:\n                pass\n", "            while (yield Msg(\"wait_for\", None, [])) is None:\n                pass\n")], "C11.D1"),
    ("helper waits once (revert of F-16)",
     [(RE, "            while (yield Msg(\"wait_for\", None, [fut])) is None:\n                pass\n", "            yield Msg(\"wait_for\", None, [fut])\n")], "C11.D5"),
    ("suspender passes its post plan as pre plan",
     [("suspenders.py", "                        pre_plan=self._pre_plan,\n                        post_plan=self._post_plan,", "                        pre_plan=self._post_plan,\n                        post_plan=self._post_plan,")], "C11.D4"),
    ("suspender requests on every bad value",
     [("suspenders.py", "                if self._ev is None and self.RE is not None:\n                    self.__make_event()", "                if self.RE is not None:\n                    self.__make_event()")], "C11.D4"),
    ("suspension-caused cancel enters the pause block",
     [(RE, "                    if self._state == \"suspending\":\n                        # just bounce to the top\n                        continue", "                    if self._state == \"suspending\":\n                        self._run_permit.clear()\n                        continue")], "C11.D2"),
    ("helper replays before restoring rewindable",
     [(RE, "            yield Msg(\"rewindable\", None, was_rewindable)\n            yield from rewind_plan", "            yield from rewind_plan\n            yield Msg(\"rewindable\", None, was_rewindable)")], "C11.D1"),
    ("monitors left subscribed during the suspension",
     [(RE, "        for current_run in self._run_bundlers.values():\n            await current_run.suspend_monitors()\n        # During suspend, all motors should be stopped.", "        # During suspend, all motors should be stopped.")], "C11.D3"),
    ("response not pushed for the helper",
     [(RE, "        self._plan_stack.append(suspender_helper_inner_plan())\n        self._response_stack.append(None)", "        self._plan_stack.append(suspender_helper_inner_plan())")], "C11.D1"),
]
BENIGN = [
    ("justification default hoisted",
     [(RE, "            current_run.record_interruption(justification if justification is not None else \"suspended\")", "            current_run.record_interruption(\"suspended\" if justification is None else justification)")]),
]
