"""C37 - file-name templates expand exactly like printf (type-confusion clause)."""

from __future__ import annotations

import ast

from .. import astutil as A
from .. import q
from ..idioms import cname, where

CO = "bluesky.consolidators"


def run(ctx):
    repo = ctx.repo
    ctx.explanation = (
        "Decided: D1 the values unpacked from match.groups() in int_replacer are strings: every use of them in a numeric comparison / "
        "max / min / arithmetic passes through int() first (taint from the regex groups to numeric sinks); D2 the regex has one group per "
        "unpacked name, in the order flags, width, precision, conversion; the precision-and-width case produces a zero-padded field of the "
        "larger of the two; the flags map to the new-style alignment / sign / zero characters. Not decided: full printf semantics (the "
        "dropped '+' / space flags when both width and precision are given are observation O-3).")
    f = repo.func(CO, "MultipartRelatedConsolidator.__init__.int_replacer")
    unpack = [s for s in f.node.body if isinstance(s, ast.Assign) and A.norm(s.value) == "match.groups()" and isinstance(s.targets[0], ast.Tuple)]
    ctx.require(unpack, "anchor vanished: unpacking of match.groups() in int_replacer")
    names = [A.norm(e) for e in unpack[0].targets[0].elts]
    tainted = set(names)
    # re-assignments that launder the taint (x = int(x))
    for s in A.walk_stmts(f.node.body):
        if isinstance(s, ast.Assign) and isinstance(s.targets[0], ast.Name) and isinstance(s.value, ast.Call) and A.call_name(s.value) == "int":
            tainted.discard(s.targets[0].id)
    n = 0
    for node in A.walk_local(f.node):
        sinks = []
        if isinstance(node, ast.Call) and A.call_name(node) in ("max", "min", "sorted", "sum", "range"):
            sinks = list(node.args)
        elif isinstance(node, ast.Compare) and any(isinstance(o, (ast.Lt, ast.LtE, ast.Gt, ast.GtE)) for o in node.ops):
            sinks = [node.left] + list(node.comparators)
        elif isinstance(node, ast.BinOp) and isinstance(node.op, (ast.Sub, ast.FloorDiv, ast.Div, ast.Mod)):
            # (string `+` / `*` are legitimate string operations; with a number they fail loudly - not the silent confusion of the clause)
            sinks = [node.left, node.right]
        for a in sinks:
            if isinstance(a, ast.Name) and a.id in names:
                n += 1
                ok = a.id not in tainted
                ctx.ob("C37.D1-regex-groups-are-strings", cname(f, None, f"`{A.short(node, 50)}`: operand `{a.id}`"), ok,
                       "" if ok else f"`{a.id}` comes from match.groups() and is a string here: the comparison is lexicographic ('10' < '6')", nontrivial=True, where=where(f, node))
    mx = [c for c in A.calls_in(f.node) if A.call_name(c) == "max"]
    ok = len(mx) == 1 and sorted(A.norm(a) for a in mx[0].args) == ["int(precision)", "int(width)"]
    ctx.ob("C37.D1-regex-groups-are-strings", cname(f, None, "field width = max(int(precision), int(width))"), ok,
           "" if ok else "the combined field width is not the numeric maximum of width and precision", nontrivial=True, where=where(f, f.node))
    # D2 regex / unpack agreement
    init = repo.func(CO, "MultipartRelatedConsolidator.__init__")
    subs = [c for c in A.calls_in(init.node) if A.call_name(c) == "re.sub"]
    ok = False
    if subs and isinstance(subs[0].args[0], ast.Constant):
        import re as _re
        try:
            rx = _re.compile(subs[0].args[0].value)
            ok = rx.groups == len(names) == 4 and names == ["flags", "width", "precision", "type_char"] and A.norm(subs[0].args[1]) == "int_replacer"
            m = rx.fullmatch("%-08.3d")
            ok = ok and m is not None and m.groups() == ("-0", "8", "3", "d")
        except _re.error:
            ok = False
    ctx.ob("C37.D2-regex-matches-unpack", cname(init, None, "regex groups (flags, width, precision, conversion) match the unpacking"), ok,
           "" if ok else "the regex's groups and int_replacer's unpacking disagree", nontrivial=True, where=where(init, init.node))
    # the specifier int_replacer builds, evaluated for every set of flags and for width / precision present or absent (64 cases):
    # {:<align><sign><zero><width><.precision><conversion>} and, when both width and precision are given, {:0<max of the two><conversion>}
    import itertools
    bad = None
    n_cases = 0
    for flags in itertools.product((True, False), repeat=4):
        for has_w, has_p in itertools.product((True, False), repeat=2):
            minus, plus, space, zero = flags
            truth = {"'-' in flags": minus, "'+' in flags": plus, "' ' in flags": space, "'0' in flags": zero, "width": has_w, "precision": has_p}
            got = q.eval_string_parts(q.specialise(A.body(f.node), truth), truth)
            n_cases += 1
            if has_w and has_p:
                ok_case = got is not None and len(got) == 4 and got[0] == "{:0" and got[1] in (q.Sym("str(max(int(precision), int(width)))"), q.Sym("str(max(int(width), int(precision)))")) \
                    and got[2] == q.Sym(names[3] if len(names) == 4 else "type_char") and got[3] == "}"
            else:
                want = ["{:" + ("<" if minus else "") + ("+" if plus else (" " if space else "")) + ("0" if zero else "")]
                if has_w:
                    want.append(q.Sym("width"))
                if has_p:
                    want += [".", q.Sym("precision")]
                want += [q.Sym(names[3] if len(names) == 4 else "type_char"), "}"]
                merged = []
                for p_ in want:
                    if not isinstance(p_, q.Sym) and merged and not isinstance(merged[-1], q.Sym):
                        merged[-1] += p_
                    else:
                        merged.append(p_)
                ok_case = got == merged
            if not ok_case and bad is None:
                bad = (dict(flags="".join(c for c, on in zip("-+ 0", flags) if on), width=has_w, precision=has_p), got)
    ctx.ob("C37.D2-regex-matches-unpack", cname(f, None, f"the new-style specifier for all {n_cases} combinations of flags / width / precision"), bad is None,
           "" if bad is None else f"for {bad[0]} the replacer builds {bad[1]}", nontrivial=True, where=where(f, f.node))
    gu = repo.func(CO, "MultipartRelatedConsolidator.get_datum_uri")
    ok = "self.template.format(indx)" in A.norm(gu.node)
    ctx.ob("C37.D2-regex-matches-unpack", cname(gu, None, "the template is expanded with the frame index"), ok, "" if ok else "expansion changed", where=where(gu, gu.node))


CLAIM = {
    "text": "Decides the type-confusion clause: values taken from match.groups() are strings and reach numeric sinks (max, ordering, arithmetic) only "
            "through int(); the field width of the combined width/precision case is max(int(precision), int(width)) (the string comparison fixed in "
            "/repo as F-10 would be reported again); regex groups and the unpacking agree. Full printf semantics are not decided.",
    "technique": "taint from regex groups to numeric sinks; regex-group / unpack agreement (regex compiled, not the code run); symbolic evaluation of the built specifier over all 64 flag / width / precision cases",
}

C = "consolidators.py"
MUTANTS = [
    ("string comparison of width and precision (revert of F-10)", [(C, "                width_str = str(max(int(precision), int(width)))", "                width_str = str(max(precision, width))")], "C37.D1"),
    ("width compared as a string elsewhere", [(C, "            if precision and width:\n                flag_str = \"0\"", "            if precision and width and precision >= width:\n                flag_str = \"0\"")], "C37.D1"),
    ("regex loses the precision group", [(C, 'r"%([-+#0 ]*)(\\d+)?(?:\\.(\\d+))?([d])"', 'r"%([-+#0 ]*)(\\d+)?(?:\\.\\d+)?([d])"')], "C37.D2"),
    ("smaller of width and precision", [(C, "                width_str = str(max(int(precision), int(width)))", "                width_str = str(min(int(precision), int(width)))")], "C37.D1"),
    ("unpack order swapped", [(C, "            flags, width, precision, type_char = match.groups()", "            flags, precision, width, type_char = match.groups()")], "C37.D2"),
]
BENIGN = [
    ("ints taken once", [(C, "            if precision and width:\n                flag_str = \"0\"\n                precision_str = \"\"\n                width_str = str(max(int(precision), int(width)))", "            if precision and width:\n                flag_str = \"0\"\n                precision_str = \"\"\n                width_str = str(max(int(width), int(precision)))")]),
]
