"""C15 - events contain exactly the readings bundled between create and save."""

from __future__ import annotations

import ast

from .. import astutil as A
from .. import q
from ..idioms import cname, where
from ..re_model import BCLS, BMOD, CLS, MOD, REModel


def is_bundling_write(s, value=None):
    if isinstance(s, ast.Assign) and A.chain(s.targets[0]) == "self.bundling":
        return value is None or (isinstance(s.value, ast.Constant) and s.value.value is value)
    return False


def d1_bundling_typestate(ctx, rm: REModel):
    repo = rm.repo
    allowed = {f"{BCLS}.__init__": False, f"{BCLS}.create": True, f"{BCLS}.save": False, f"{BCLS}.drop": False, f"{BCLS}.rewind": False}
    n = 0
    for f in repo.all_funcs():
        for s in A.walk_stmts(f.node.body):
            for t in A.targets_of(s):
                if (A.chain(t) or "").endswith(".bundling"):
                    n += 1
                    want = allowed.get(f.qualname) if f.module.name == BMOD else None
                    ok = want is not None and is_bundling_write(s, want)
                    ctx.ob("C15.D1-bundling-protocol", cname(f, s), ok,
                           "" if ok else "the 'bundle open' flag is written outside the create / save / drop / rewind protocol (or with the wrong value)", where=where(f, s))
    ctx.expect("C15.D1-bundling-protocol", 5)
    # guards dominate effects
    cr = rm.b("create")
    g = q.cfg(cr, q.quiet_policy(repo))
    for s in q.stmts(cr, lambda s: is_bundling_write(s, True)):
        w = q.guard_true_dominates(g, s, lambda t: A.norm(t) == "self.bundling", "F")
        ctx.ob("C15.D1-bundling-protocol", cname(cr, None, "create: a second create is rejected before the bundle is opened"), w is None,
               "" if w is None else "create can open a bundle while one is open", nontrivial=True, witness=w, where=where(cr, s))
    clears = [A.norm(s) for s in cr.node.body]
    for c in ("self._read_cache.clear()", "self._asset_docs_cache.clear()", "self._objs_read.clear()"):
        ctx.ob("C15.D1-bundle-starts-empty", cname(cr, None, c), c in clears, "" if c in clears else "readings of a previous (dropped / interrupted) bundle leak into the next event", where=where(cr, cr.node))
    # ... and the rejected create has no effect on the bundle that IS open: every write to the bundle's collected state sits behind the guard
    BUNDLE = ("_read_cache", "_asset_docs_cache", "_objs_read", "_bundle_name")
    n_eff = 0
    for s in A.walk_stmts(cr.node.body):
        if isinstance(s, (ast.If, ast.Try, ast.For, ast.While, ast.With)):
            continue
        writes = [a for t in A.targets_of(s) for a in ast.walk(t) if isinstance(a, ast.Attribute) and A.norm(a.value) == "self" and a.attr in BUNDLE]
        writes += [c for c in A.calls_in(s) if isinstance(c.func, ast.Attribute) and c.func.attr in ("clear", "append", "extend", "add", "update", "pop", "remove", "discard")
                   and isinstance(c.func.value, ast.Attribute) and A.norm(c.func.value.value) == "self" and c.func.value.attr in BUNDLE]
        if not writes:
            continue
        n_eff += 1
        w = q.guard_true_dominates(g, s, lambda t: A.norm(t) == "self.bundling", "F")
        if w == ["<target unreachable>"]:
            # a handler of an exception kind the quiet CFG does not model (KeyError of a lookup): it runs only after its try statement was entered
            tries = [t for t in A.walk_stmts(cr.node.body) if isinstance(t, ast.Try) and any(s in list(A.walk_stmts(h.body)) for h in t.handlers)]
            ws = [q.guard_true_dominates(g, t.body[0], lambda t_: A.norm(t_) == "self.bundling", "F") for t in tries]
            w = next((x for x in ws if x is not None), None) if ws else w
        ctx.ob("C15.D1-rejected-create-has-no-effect", cname(cr, s), w is None,
               "" if w is None else f"`{A.head(s)}` runs before the 'bundle already open' rejection: a create that is refused (and caught by the plan) empties / renames the bundle "
               "that is open, and its save emits an event without the readings taken so far", nontrivial=True, witness=w, where=where(cr, s))
    ctx.require(n_eff >= 3, f"anchor vanished: RunBundler.create no longer writes the bundle's collected state where the rule looks ({n_eff} site(s) found)")
    for nm in ("save", "drop"):
        f = rm.b(nm)
        g = q.cfg(f, q.quiet_policy(repo))
        ws = q.stmts(f, lambda s: is_bundling_write(s, False))
        ctx.ob("C15.D1-bundling-protocol", cname(f, None, f"{nm}: closes the bundle"), bool(ws), "" if ws else f"{nm} leaves the bundle open", where=where(f, f.node))
        for s in ws:
            w = q.guard_true_dominates(g, s, lambda t: A.norm(t) == "not self.bundling", "F")
            ctx.ob("C15.D1-bundling-protocol", cname(f, s) + " guarded", w is None,
                   "" if w is None else f"{nm} without an open bundle is not rejected", nontrivial=True, witness=w, where=where(f, s))
        guard = [s for s in f.node.body if isinstance(s, ast.If) and A.norm(s.test) == "not self.bundling" and any(isinstance(x, ast.Raise) and "IllegalMessageSequence" in A.norm(x) for x in s.body)]
        ctx.ob("C15.D1-bundling-protocol", cname(f, None, f"{nm}: raises IllegalMessageSequence without an open bundle"), bool(guard), "" if guard else "guard missing", where=where(f, f.node))
    rd = rm.b("read")
    g = q.cfg(rd, q.quiet_policy(repo))
    for attr in ("self._objs_read.append", "self._read_cache.append", "self._asset_docs_cache.extend"):
        ss = q.stmts(rd, q.stmt_calls(attr))
        ctx.ob("C15.D1-bundling-protocol", cname(rd, None, f"{attr} present"), bool(ss), "" if ss else "a reading inside a bundle is not recorded", where=where(rd, rd.node))
        for s in ss:
            w = q.guard_true_dominates(g, s, lambda t: A.norm(t) == "self.bundling", "T")
            ctx.ob("C15.D1-bundling-protocol", cname(rd, s) + " only inside a bundle", w is None,
                   "" if w is None else "a read outside a bundle is added to the next event", nontrivial=True, witness=w, where=where(rd, s))


def d2_collision_check(ctx, rm: REModel):
    rd = rm.b("read")
    g = q.cfg(rd, q.quiet_policy(rm.repo))
    loops = [s for s in A.walk_stmts(rd.node.body) if isinstance(s, ast.For) and A.norm(s.iter) == "self._objs_read"]
    ok = bool(loops) and any(isinstance(x, ast.If) and "&" in A.norm(q.expand(rd.node, x.test)) and any(isinstance(y, ast.Raise) for y in x.body) for x in A.walk_stmts(loops[0].body))
    ctx.ob("C15.D2-key-collision-rejected", cname(rd, None, "overlapping data keys with any object already read -> raise"), ok,
           "" if ok else "two objects with overlapping keys can be read into one event (one reading overwrites the other)", where=where(rd, rd.node))
    if loops:
        for attr in ("self._objs_read.append", "self._read_cache.append"):
            for s in q.stmts(rd, q.stmt_calls(attr)):
                w = q.dominated(g, s, lambda n: n.kind == "for" and n.stmt is loops[0])
                ctx.ob("C15.D2-key-collision-rejected", cname(rd, s) + " after the collision check", w is None,
                       "" if w is None else "the reading is recorded before / without the collision check", nontrivial=True, witness=w, where=where(rd, s))
        ok = "cur_keys = set(self._describe_cache[obj].keys())" in A.norm(rd.node) and "self._describe_cache[read_obj].keys()" in A.norm(loops[0])
        ctx.ob("C15.D2-key-collision-rejected", cname(rd, None, "keys compared are the described data keys of the two objects"), ok, "" if ok else "the compared key sets changed", where=where(rd, rd.node))


def d3_nothing_emitted(ctx, rm: REModel):
    sv = rm.b("save")
    # `if not <the readings>: ...; return` with nothing composed or emitted up to that return; the readings may be tested directly or
    # through the frozenset snapshot taken from them
    empty = [s for s in sv.node.body if isinstance(s, ast.If) and A.norm(q.expand(sv.node, s.test)) in ("not self._objs_read", "not frozenset(self._objs_read)")]
    acts = ("emit", "compose_event", "_prepare_stream", "_pack_external_assets")
    ok = bool(empty) and isinstance(empty[0].body[-1], ast.Return) and not any(A.find_calls(x, a) for a in acts for x in empty[0].body) and \
        not any(A.find_calls(x, a) for a in acts for x in sv.node.body[:sv.node.body.index(empty[0])])
    ctx.ob("C15.D3-empty-save-and-drop-emit-nothing", cname(sv, None, "a save with no readings returns before composing anything"), ok,
           "" if ok else "an empty bundle produces an event / consumes a seq_num", where=where(sv, sv.node))
    if empty:
        seq = sv.node.body
        i_e = seq.index(empty[0])
        first_emit = next((i for i, s in enumerate(seq) if any(A.find_calls(x, "emit") or A.find_calls(x, "compose_event") or A.find_calls(x, "_prepare_stream") or A.find_calls(x, "_pack_external_assets")
                                                                for x in A.walk_stmts([s]))), None)
        ok = first_emit is None or i_e < first_emit
        ctx.ob("C15.D3-empty-save-and-drop-emit-nothing", cname(sv, None, "the empty check precedes every emission"), ok, "" if ok else "something is emitted before the empty check", where=where(sv, sv.node))
    dr = rm.b("drop")
    bad = [c for c in A.calls_in(dr.node) if (A.call_name(c) or "").split(".")[-1] in ("emit", "emit_sync", "compose_event", "_prepare_stream", "_pack_external_assets")]
    ctx.ob("C15.D3-empty-save-and-drop-emit-nothing", cname(dr, None, "drop emits nothing"), not bad, "" if not bad else "drop emits documents", where=where(dr, dr.node))


def d4_rejected_inside_bundle(ctx, rm: REModel):
    cp = rm.handler("checkpoint")
    loops = [s for s in A.walk_stmts(cp.node.body) if isinstance(s, ast.For) and "self._run_bundlers" in A.norm(s.iter)]
    ok = bool(loops) and any(isinstance(x, ast.If) and A.norm(x.test).endswith(".bundling") and any(isinstance(y, ast.Raise) and "IllegalMessageSequence" in A.norm(y) for y in x.body)
                             for x in A.walk_stmts(loops[0].body))
    if not ok:
        # the same test written as `if any(r.bundling for r in self._run_bundlers.values()): raise`
        for x in A.walk_stmts(cp.node.body):
            if isinstance(x, ast.If) and isinstance(x.test, ast.Call) and A.call_name(x.test) == "any" and len(x.test.args) == 1 and isinstance(x.test.args[0], (ast.GeneratorExp, ast.ListComp)):
                ge = x.test.args[0]
                if len(ge.generators) == 1 and "self._run_bundlers" in A.norm(ge.generators[0].iter) and not ge.generators[0].ifs \
                        and A.norm(ge.elt) == f"{A.norm(ge.generators[0].target)}.bundling" and any(isinstance(y, ast.Raise) and "IllegalMessageSequence" in A.norm(y) for y in x.body):
                    ok = True
    # and it precedes the reset of the checkpoint
    if ok:
        gcp = q.cfg(cp, q.quiet_policy(rm.repo))
        resets = [st for st in A.walk_stmts(cp.node.body) if not isinstance(st, (ast.If, ast.For, ast.While, ast.Try, ast.With)) and "_reset_checkpoint_state" in A.norm(st)]
        raises = [st for st in A.walk_stmts(cp.node.body) if isinstance(st, ast.Raise) and "IllegalMessageSequence" in A.norm(st)]
        ok = bool(resets) and bool(raises) and raises[0].lineno < resets[0].lineno
    ctx.ob("C15.D4-checkpoint-configure-rejected-in-bundle", cname(cp, None, "checkpoint inside any open bundle raises"), ok, "" if ok else "a checkpoint inside a bundle is accepted", where=where(cp, cp.node))
    cf = rm.handler("configure")
    g = q.cfg(cf, q.quiet_policy(rm.repo))
    acts = [s for s in A.walk_stmts(cf.node.body) if not isinstance(s, (ast.If, ast.Try)) and "obj.configure(" in A.norm(s)]
    ok = False
    if acts:
        branches = [s for s in A.walk_stmts(cf.node.body) if isinstance(s, ast.If)]
        ok = any(A.norm(b.test).endswith(".bundling") and any(isinstance(y, ast.Raise) and "IllegalMessageSequence" in A.norm(y) for y in b.body) for b in
                 [x for s in branches for x in ([s] + [o for o in s.orelse if isinstance(o, ast.If)])])
        seq = list(A.walk_stmts(cf.node.body))
        gi = next((i for i, s in enumerate(seq) if isinstance(s, ast.Raise) and "IllegalMessageSequence" in A.norm(s)), None)
        ok = ok and gi is not None and gi < seq.index(acts[0])
    ctx.ob("C15.D4-checkpoint-configure-rejected-in-bundle", cname(cf, None, "configure inside an open bundle raises before the device is configured"), ok,
           "" if ok else "configure inside a bundle is accepted (or the device is configured before the rejection)", where=where(cf, cf.node))


def d5_descriptor_and_content(ctx, rm: REModel):
    sv = rm.b("save")
    g = q.cfg(sv, q.quiet_policy(rm.repo))
    emits = [s for s in q.stmts(sv, q.stmt_calls("emit")) if "DocumentNames.event" in A.norm(s)]
    ctx.require(emits, "anchor vanished: emit(DocumentNames.event, ...) in RunBundler.save")
    branch = [s for s in sv.node.body if isinstance(s, ast.If) and "descriptor_doc is None" in A.norm(s.test)]
    ok = bool(branch) and any(A.find_calls(x, "_prepare_stream") for x in A.walk_stmts(branch[0].body))
    ctx.ob("C15.D5-descriptor-first", cname(sv, None, "no cached descriptor -> _prepare_stream (emits the descriptor) before the event"), ok,
           "" if ok else "an event can be emitted for a stream whose descriptor was never emitted", where=where(sv, sv.node))
    if branch:
        el = [o for o in branch[0].orelse if isinstance(o, ast.If)]
        ok = bool(el) and "frozenset(d_objs) != objs_read" in A.norm(el[0].test) and any(isinstance(x, ast.Raise) for x in el[0].body)
        ctx.ob("C15.D5-descriptor-first", cname(sv, None, "a different set of objects than the stream's descriptor is rejected"), ok,
               "" if ok else "an event whose objects differ from its descriptor's is emitted", where=where(sv, sv.node))
        seq = sv.node.body
        ok = seq.index(branch[0]) < seq.index(emits[0]) if emits[0] in seq else True
        ctx.ob("C15.D5-descriptor-first", cname(sv, None, "descriptor handling precedes the event"), ok, "" if ok else "order changed", where=where(sv, sv.node))
    txt = A.norm(sv.node)
    stm = list(A.walk_stmts(sv.node.body))
    ok1 = any(isinstance(x, ast.Assign) and A.norm(x.targets[0]) == "readings" and isinstance(x.value, ast.DictComp)
              and A.norm(x.value.generators[0].iter) == "self._read_cache" and len(x.value.generators) == 2 for x in stm)
    ok2 = any(isinstance(x, ast.Assign) and isinstance(x.targets[0], ast.Tuple) and [A.norm(e) for e in x.targets[0].elts] == ["data", "timestamps"]
              and A.norm(x.value) == "_rearrange_into_parallel_dicts(readings)" for x in stm)
    ce = [c for c in A.calls_in(sv.node) if A.call_name(c) == "compose_event"]
    ok3 = len(ce) == 1 and A.norm(A.kw(ce[0], "data")) == "data" and A.norm(A.kw(ce[0], "timestamps")) == "timestamps"
    ok = ok1 and ok2 and ok3
    ctx.ob("C15.D5-event-content", cname(sv, None, "event data = the merged readings of this bundle"), ok,
           "" if ok else "the event is no longer composed from exactly the bundle's cached readings", nontrivial=True, where=where(sv, sv.node))
    ok = "desc_key = self._bundle_name" in txt and "objs_read = frozenset(self._objs_read)" in txt
    ctx.ob("C15.D5-event-content", cname(sv, None, "stream = the name given at create; objects = those read"), ok, "" if ok else "stream / object selection changed", where=where(sv, sv.node))
    ps = rm.b("_prepare_stream")
    seq = list(A.walk_stmts(ps.node.body))
    i_c = next((i for i, s in enumerate(seq) if isinstance(s, ast.Assign) and "self._compose_descriptor(" in A.norm(s.value)), None)
    i_e = next((i for i, s in enumerate(seq) if A.find_calls(s, "emit") and "DocumentNames.descriptor" in A.norm(s)), None)
    # every object's data keys are copied into the descriptor's data_keys (update, or an item-by-item loop), whatever the loop variable is called
    copied = False
    for lp_ in [s_ for s_ in seq if isinstance(s_, ast.For) and isinstance(s_.target, ast.Tuple) and len(s_.target.elts) == 2 and A.norm(s_.iter) == "objs_dks.items()"]:
        src_ = A.norm(lp_.target.elts[1])
        copied = copied or any(q.copies_all_items(x, src_, "data_keys", ps.node) for x in A.walk_stmts(lp_.body))
    ok = i_c is not None and i_e is not None and i_c < i_e and copied
    ctx.ob("C15.D5-descriptor-first", cname(ps, None, "descriptor composed from the objects' data keys and emitted"), ok, "" if ok else "descriptor not emitted / data keys not from the objects", where=where(ps, ps.node))
    # RunEngine._read passes the device's reading to the bundler
    h = rm.handler("read")
    ok = "ret = await maybe_await(obj.read(*msg.args, **msg.kwargs))" in A.norm(h.node) and "await current_run.read(msg, ret)" in A.norm(h.node)
    ctx.ob("C15.D5-event-content", cname(h, None, "the value handed to the bundle is the device's reading"), ok, "" if ok else "another value is bundled", where=where(h, h.node))


def run(ctx):
    rm = REModel(ctx.repo)
    ctx.explanation = (
        "Decided: D1 typestate of the 'bundle open' flag (closed-world writers with fixed values; create/save/drop guards dominate "
        "their effects; readings are recorded only inside a bundle; create empties the caches); D2 the data-key collision check "
        "dominates recording a reading; D3 an empty save returns before anything is composed and drop emits nothing; D4 checkpoint and "
        "configure inside a bundle raise before acting; D5 the stream's descriptor is prepared before the event when not cached, a "
        "mismatching object set is rejected, and the event is composed from exactly the cached readings of this bundle. "
        "Not decided: equality of data values; event_model's own key checks are trusted.")
    d1_bundling_typestate(ctx, rm)
    d2_collision_check(ctx, rm)
    d3_nothing_emitted(ctx, rm)
    d4_rejected_inside_bundle(ctx, rm)
    d5_descriptor_and_content(ctx, rm)


CLAIM = {
    "text": "Decides the bundle protocol: typestate of the bundle-open flag with guard dominance for create/read/save/drop (a rejected create touches nothing of the open bundle), the collision check "
            "dominating the recording of a reading, empty save / drop emitting nothing, checkpoint and configure rejected inside a bundle, "
            "descriptor-before-event on the uncached branch, and the event being composed from exactly this bundle's cached readings. "
            "Equality of data values is not decided.",
    "technique": "typestate with guard dominance on method CFGs; must-not-reach; def-use of the event content",
}

BU = "bundlers.py"
RE = "run_engine.py"
MUTANTS = [
    ("create empties the open bundle before rejecting a nested create (seed C15-c)",
     [(BU, "        self._read_cache.clear()\n        self._asset_docs_cache.clear()\n        self._objs_read.clear()\n        self.bundling = True\n", "        self.bundling = True\n"),
      (BU, "        Descriptor document.\n        \"\"\"\n        if self.bundling:\n", "        Descriptor document.\n        \"\"\"\n        self._read_cache.clear()\n        self._asset_docs_cache.clear()\n        self._objs_read.clear()\n        if self.bundling:\n")], "C15.D1"),
    ("second create allowed", [(BU, "        if self.bundling:\n            raise IllegalMessageSequence(\n                \"A second 'create' message is not \"", "        if self.bundling and self._strict_pre_declare:\n            raise IllegalMessageSequence(\n                \"A second 'create' message is not \"")], "C15.D1"),
    ("collision check removed", [(BU, "                if set(known_keys) & cur_keys:\n", "                if False:\n")], "C15.D2"),
    ("reading recorded before the collision check",
     [(BU, "            cur_keys = set(self._describe_cache[obj].keys())\n", "            cur_keys = set(self._describe_cache[obj].keys())\n            self._objs_read.append(obj)\n"),
      (BU, "            # add this object to the cache of things we have read\n            self._objs_read.append(obj)\n", "")], "C15.D2"),
    ("empty save falls through", [(BU, "            self.bundling = False\n            self._bundle_name = None\n            return\n", "            self.bundling = False\n")], "C15.D3"),
    ("create keeps old readings", [(BU, "        self._read_cache.clear()\n        self._asset_docs_cache.clear()", "        self._asset_docs_cache.clear()")], "C15.D1"),
    ("checkpoint accepted inside a bundle", [(RE, "            if current_run.bundling:\n                raise IllegalMessageSequence(\"Cannot 'checkpoint' after 'create' and before 'save'. Aborting!\")", "            if current_run.bundling:\n                self.log.warning(\"checkpoint inside a bundle\")")], "C15.D4"),
    ("configure acts before rejecting",
     [(RE, "        _, obj, args, kwargs, _ = msg\n\n        old, new = obj.configure(*args, **kwargs)\n        if current_run:", "        if current_run:"),
      (RE, "        run_key = msg.run\n        if (\n            current_run := self._run_bundlers.get(run_key, key_absence_sentinel := object())\n        ) is key_absence_sentinel:\n            current_run = None",
       "        _, obj, args, kwargs, _ = msg\n        old, new = obj.configure(*args, **kwargs)\n        run_key = msg.run\n        if (\n            current_run := self._run_bundlers.get(run_key, key_absence_sentinel := object())\n        ) is key_absence_sentinel:\n            current_run = None")], "C15.D4"),
    ("mismatching objects tolerated", [(BU, "        elif frozenset(d_objs) != objs_read:\n            raise RuntimeError(", "        elif False:\n            raise RuntimeError(")], "C15.D5"),
    ("read outside a bundle is kept", [(BU, "        if self.bundling:\n            obj = msg.obj", "        if True:\n            obj = msg.obj")], "C15.D1"),
    ("drop leaves the bundle open", [(BU, "        self.bundling = False\n        self._bundle_name = None\n        self.log.debug(\"Dropped open event bundle\")", "        self._bundle_name = None\n        self.log.debug(\"Dropped open event bundle\")")], "C15.D1"),
    ("event built from the last reading only", [(BU, "        readings = {k: v for d in self._read_cache for k, v in d.items()}", "        readings = dict(self._read_cache[-1])")], "C15.D5"),
    ("bundling flag toggled by the engine", [(RE, "        return await current_run.create(msg)", "        current_run.bundling = False\n        return await current_run.create(msg)")], "C15.D1"),
]
BENIGN = [
    ("guard message reworded", [(BU, "                \"A 'create' message must be sent, to \"\n                \"open an event bundle, before that \"\n                \"bundle can be dropped with 'drop'.\"", "                \"No open bundle to drop.\"")]),
]
