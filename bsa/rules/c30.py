"""C30 - suspenders trip and release exactly on their documented conditions."""

from __future__ import annotations

import ast
import operator

from .. import astutil as A
from .. import q
from ..idioms import cname, where
from ..ordertypes import Unsupported, evaluate, weak_orderings

SU = "bluesky.suspenders"

# oracle written from the class documentation: (suspend condition, resume condition) as functions of an environment of ranks
ORACLE = {
    "SuspendFloor": (lambda e: e["v"] < e["s"], lambda e: not (e["v"] < e["r"]), ["v", "s", "r"], lambda e: not (e["r"] < e["s"])),
    "SuspendCeil": (lambda e: e["v"] > e["s"], lambda e: not (e["v"] > e["r"]), ["v", "s", "r"], lambda e: not (e["r"] > e["s"])),
    "SuspendWhenOutsideBand": (lambda e: not (e["b"] < e["v"] < e["t"]), lambda e: e["b"] < e["v"] < e["t"], ["v", "b", "t"], lambda e: e["b"] < e["t"]),
    "SuspendOutBand": (lambda e: e["b"] < e["v"] < e["t"], lambda e: not (e["b"] < e["v"] < e["t"]), ["v", "b", "t"], lambda e: e["b"] < e["t"]),
}
SYM = {"value": "v", "self._suspend_thresh": "s", "self._resume_thresh": "r", "self._bot": "b", "self._top": "t", "self.expected_value": "x"}


def ret_expr(f):
    """what the predicate returns, as one expression (temporaries substituted, guard clauses folded into conditionals)"""
    e = q.return_expression(f.node)
    if e is not None:
        return e
    rets = [s for s in f.node.body if isinstance(s, ast.Return)]
    return rets[0].value if len(rets) == 1 else None


def method(repo, cls, name):
    """resolve a method through the (single-inheritance) class chain inside suspenders.py"""
    c = repo.classes.get(f"{SU}:{cls}")
    while c is not None:
        f = repo.funcs.get(f"{SU}:{c.qualname}.{name}")
        if f is not None:
            return f
        base = c.base_names[0] if c.base_names else None
        c = repo.classes.get(f"{SU}:{base}") if base else None
    return None


def op_of(repo, cls):
    f = method(repo, cls, "_op")
    if f is None:
        return None
    r = ret_expr(f)
    return {"operator.lt": operator.lt, "operator.gt": operator.gt, "operator.le": operator.le, "operator.ge": operator.ge}.get(A.norm(r))


def _has_conjunct(t, text) -> bool:
    """t is `text` or an and-chain one of whose conjuncts is `text` (so t true implies text true)"""
    if A.norm(t) == text:
        return True
    return isinstance(t, ast.BoolOp) and isinstance(t.op, ast.And) and any(_has_conjunct(v, text) for v in t.values)


def tripped_latch(ctx, repo, rule="C30.D2-tripped-follows-decision"):
    """self._tripped is a latch: set True only where _should_suspend(value) held, cleared only where _should_resume(value)
    held (or suspend did not) - a value between the two thresholds changes nothing."""
    call = repo.func(SU, "SuspenderBase.__call__")
    g = q.cfg(call, q.quiet_policy(repo))
    for s in A.walk_stmts(call.node.body):
        if isinstance(s, (ast.Assign, ast.AugAssign, ast.AnnAssign)) and any(A.chain(t) == "self._tripped" for t in A.targets_of(s)):
            val = s.value.value if isinstance(s, ast.Assign) and isinstance(s.value, ast.Constant) else None
            if val is True:
                w = q.guard_true_dominates(g, s, lambda t: _has_conjunct(t, "self._should_suspend(value)"), "T")
            elif val is False:
                w = q.guard_true_dominates(g, s, lambda t: _has_conjunct(t, "self._should_resume(value)"), "T")
            else:
                w = [f"`{A.short(s, 60)}` recomputes the flag from the current value"]
            ctx.ob(rule, cname(call, s), w is None and val in (True, False),
                   "" if w is None else "the tripped flag is updated outside the branch that decided it: a value in the dead band between the suspend and "
                   "resume conditions clears (or sets) it although nothing was released", nontrivial=True, witness=w, where=where(call, s))
    # ... and the latch is set on EVERY way out of the suspend branch, the failing ones included: get_futures() gates the next plan on it
    tests = [i for i, n in enumerate(g.nodes) if n.kind == "test" and n.ast is not None and _has_conjunct(n.ast, "self._should_suspend(value)")]
    for t in tests:
        starts = [v for v, lab in g.succ[t] if lab == "T"]
        w = g.must_pass(starts, lambda n: n.kind == "stmt" and isinstance(n.stmt, ast.Assign) and any(A.chain(x) == "self._tripped" for x in n.stmt.targets)
                        and isinstance(n.stmt.value, ast.Constant) and n.stmt.value.value is True,
                        # a failing `assert` states a belief about the caller (the lock is held), it is not a way the branch is left in operation
                        edge_ok=lambda u, v, lab: not (lab == "F" and isinstance(g.nodes[u].stmt, ast.Assert)))
        ctx.ob(rule, cname(call, None, "every exit of the suspend branch (raising ones too) has set the latch"), w is None,
               "" if w is None else "the suspend branch can be left - e.g. by the RuntimeError when the event cannot be created in time - without the suspender being marked "
               "tripped: the signal is in the suspend condition but the next plan is not held", nontrivial=True, witness=w[-6:] if w else None, where=where(call, g.nodes[t].stmt))
    ctx.require(tests, "anchor vanished: the branch of SuspenderBase.__call__ on self._should_suspend(value)")
    consts = {s.value.value for s in A.walk_stmts(call.node.body) if isinstance(s, ast.Assign) and any(A.chain(t) == "self._tripped" for t in A.targets_of(s))
              and isinstance(s.value, ast.Constant)}
    ok = consts == {True, False}
    ctx.ob(rule, cname(call, None, "the flag is set in the suspend branch and cleared in the resume branch"), ok,
           "" if ok else f"constant stores found: {sorted(map(str, consts))}: the latch is not set / never cleared", where=where(call, call.node))
    return call


def run(ctx):
    repo = ctx.repo
    ctx.explanation = (
        "Decided: D1 for SuspendFloor, SuspendCeil, SuspendWhenOutsideBand, SuspendOutBand the predicates _should_suspend / "
        "_should_resume touch their arguments only through comparisons, so they are evaluated on EVERY weak ordering of (value, "
        "thresholds) admitted by the constructor's validation (self._op resolved through the class's _op property): they equal the oracle "
        "written from the documentation, are never both true, and with equal suspend / resume thresholds exactly one holds; the boolean "
        "and 'changed' suspenders are checked on their truth tables; D2 SuspenderBase.__call__ sets _tripped True only on the suspend "
        "branch and False only on the resume branch, tests suspend before resume, and does nothing when not installed; D3 optional "
        "constructor values defaulting to None are defaulted with `is None`, never by truthiness (falsy thresholds are honoured). "
        "Not decided: NaN values, signal delivery.")
    n_eval = 0
    for cls, (o_sus, o_res, syms, valid) in ORACLE.items():
        fs, fr = method(repo, cls, "_should_suspend"), method(repo, cls, "_should_resume")
        if fs is None or fr is None:
            ctx.ob("C30.D1-conditions-match-documentation", f"{SU}:{cls}", False, "predicate methods not found")
            continue
        es, er = ret_expr(fs), ret_expr(fr)
        op = op_of(repo, cls)
        funcs = {"self._op": op} if op else {}
        bad = []
        both = []
        total = 0
        try:
            for order in weak_orderings(syms):
                if not valid(order):
                    continue
                total += 1
                env = {k: order[v] for k, v in SYM.items() if v in order}
                s, r = bool(evaluate(es, env, funcs)), bool(evaluate(er, env, funcs))
                if s != o_sus(order) or r != o_res(order):
                    bad.append((dict(order), s, r))
                if s and r:
                    both.append(dict(order))
                if "s" in order and order["s"] == order["r"] and s == r:
                    bad.append((dict(order), s, r))
        except Unsupported as e:
            ctx.ob("C30.D1-conditions-match-documentation", f"{SU}:{cls}", False, f"predicate is not comparison-only: {e}")
            continue
        n_eval += total
        ctx.ob("C30.D1-conditions-match-documentation", f"{SU}:{cls}._should_suspend/_should_resume on all {total} admissible orderings of {syms}", not bad,
               "" if not bad else f"differs from the documented condition for ordering {bad[0][0]} (suspend={bad[0][1]}, resume={bad[0][2]})",
               nontrivial=True, where=where(fs, fs.node))
        ctx.ob("C30.D1-never-both", f"{SU}:{cls} suspend and resume never hold together", not both,
               "" if not both else f"both conditions hold for ordering {both[0]}", nontrivial=True, where=where(fs, fs.node))
    # validation predicates
    for cls, raise_when in (("SuspendFloor", "self._resume_thresh < self._suspend_thresh"), ("SuspendCeil", "self._resume_thresh > self._suspend_thresh")):
        f = method(repo, cls, "_validate")
        ok = f is not None and any(isinstance(s, ast.If) and A.norm(s.test) == raise_when and any(isinstance(x, ast.Raise) for x in s.body) for s in f.node.body)
        ctx.ob("C30.D1-validation", f"{SU}:{cls}._validate", ok, "" if ok else "the constructor no longer rejects a resume threshold on the wrong side", where=where(f, f.node) if f else "")
    f = repo.func(SU, "_SuspendBandBase.__init__")
    ok = any(isinstance(s, ast.If) and A.norm(s.test) == "not band_bottom < band_top" and any(isinstance(x, ast.Raise) for x in s.body) for s in f.node.body) \
        and "self._bot = band_bottom" in A.norm(f.node) and "self._top = band_top" in A.norm(f.node)
    ctx.ob("C30.D1-validation", f"{SU}:_SuspendBandBase.__init__", ok, "" if ok else "band validation / assignment changed", where=where(f, f.node))
    t = repo.func(SU, "_Threshold.__init__")
    txt = A.norm(t.node)
    # the resume threshold defaults to the suspend threshold when it is None (an identity test: 0 is a threshold)
    stores_r = [s_ for s_ in A.walk_stmts(t.node.body) if isinstance(s_, ast.Assign) and A.norm(s_.targets[0]) == "self._resume_thresh"]
    ok_r = False
    if len(stores_r) == 1:
        v_ = A.norm(stores_r[0].value)
        if v_ == "resume_thresh":
            ok_r = any(isinstance(s_, ast.If) and A.norm(s_.test) == "resume_thresh is None" and [A.norm(x) for x in A.body(s_.body)] == ["resume_thresh = suspend_thresh"]
                       for s_ in t.node.body)
        else:
            ok_r = v_ in ("suspend_thresh if resume_thresh is None else resume_thresh", "resume_thresh if resume_thresh is not None else suspend_thresh")
    ok = "self._suspend_thresh = suspend_thresh" in txt and ok_r and "self._validate()" in txt
    ctx.ob("C30.D1-validation", f"{SU}:_Threshold.__init__", ok, "" if ok else "thresholds not stored / validated", where=where(t, t.node))
    # boolean suspenders
    for cls, sus, res in (("SuspendBoolHigh", "bool(value)", "not bool(value)"), ("SuspendBoolLow", "not bool(value)", "bool(value)")):
        fs, fr = method(repo, cls, "_should_suspend"), method(repo, cls, "_should_resume")
        ok = fs is not None and fr is not None
        if ok:
            # decided on the truth table over the truthiness of `value`, however the predicate is written
            want_s = q.truth_table(ast.parse(sus, mode="eval").body, ["value"])
            want_r = q.truth_table(ast.parse(res, mode="eval").body, ["value"])
            ok = q.truth_table(ret_expr(fs), ["value"]) == want_s and q.truth_table(ret_expr(fr), ["value"]) == want_r
        ctx.ob("C30.D1-conditions-match-documentation", f"{SU}:{cls} truth table", ok, "" if ok else "boolean conditions changed", where=where(fs, fs.node) if fs else "")
    fs, fr = method(repo, "SuspendWhenChanged", "_should_suspend"), method(repo, "SuspendWhenChanged", "_should_resume")
    # truth table over (allow_resume, value == expected): `!=` is read as the negation of `==` of the same operands
    atoms = ["self.allow_resume", "value == self.expected_value"]

    class _NeToNotEq(ast.NodeTransformer):
        def visit_Compare(self, n):
            if len(n.ops) == 1 and isinstance(n.ops[0], ast.NotEq):
                return ast.UnaryOp(op=ast.Not(), operand=ast.Compare(left=n.left, ops=[ast.Eq()], comparators=n.comparators))
            return n
    import copy as _copy
    es, er = ret_expr(fs), ret_expr(fr)
    ok = es is not None and er is not None
    if ok:
        ts = q.truth_table(ast.fix_missing_locations(_NeToNotEq().visit(_copy.deepcopy(es))), atoms)
        tr = q.truth_table(ast.fix_missing_locations(_NeToNotEq().visit(_copy.deepcopy(er))), atoms)
        ok = all(ts[(a, eq)] is (not eq) and tr[(a, eq)] is (a and eq) for a in (True, False) for eq in (True, False))
    ctx.ob("C30.D1-conditions-match-documentation", f"{SU}:SuspendWhenChanged truth table", ok, "" if ok else "changed-value conditions changed", where=where(fs, fs.node))
    call = tripped_latch(ctx, repo)
    # 'grants resumption only when its documented resume condition holds': a release belongs to the trip it ends.  The release
    # event of a trip is forgotten in the very call that schedules it, so a new trip during the settle time gets its own event and
    # its own suspension request (shared rule with C11.D4).
    from . import c11

    n0 = len(ctx.obligations)
    c11.d4_suspender_request(ctx, repo)
    for o in ctx.obligations[n0:]:
        o["rule"] = o["rule"].replace("C11.D4-trip-latch", "C30.D2-release-belongs-to-its-trip").replace("C11.D4-suspender-request", "C30.D2-request-once-per-trip")
    tops = [s for s in A.walk_stmts(call.node.body) if isinstance(s, ast.If) and A.norm(s.test) == "self._should_suspend(value)"]
    ok = bool(tops) and tops[0].orelse and isinstance(tops[0].orelse[0], ast.If) and _has_conjunct(tops[0].orelse[0].test, "self._should_resume(value)")
    ctx.ob("C30.D2-tripped-follows-decision", cname(call, None, "if suspend ... elif resume ..."), ok, "" if ok else "decision structure changed", where=where(call, call.node))
    early = [s for s in A.walk_stmts(call.node.body) if isinstance(s, ast.If) and A.norm(s.test) == "self.RE is None" and isinstance(s.body[0], ast.Return)]
    ctx.ob("C30.D2-tripped-follows-decision", cname(call, None, "no effect when not installed"), bool(early), "" if early else "acts while not installed", where=where(call, call.node))
    allowed = {"SuspenderBase.__init__", "SuspenderBase.remove", "SuspenderBase.__call__"}
    for f in repo.funcs_in(SU):
        for s in A.walk_stmts(f.node.body):
            if any(A.chain(t) == "self._tripped" for t in A.targets_of(s)):
                ok = f.qualname in allowed
                ctx.ob("C30.D2-tripped-writers", cname(f, s), ok, "" if ok else "tripped flag written elsewhere", where=where(f, s))
    # D3 None-vs-falsy defaults in every suspender constructor
    n = 0
    for f in repo.funcs_in(SU):
        if not f.qualname.endswith(".__init__"):
            continue
        args = f.node.args
        defaults = dict(zip([a.arg for a in args.args][len(args.args) - len(args.defaults):], args.defaults))
        defaults.update({a.arg: d for a, d in zip(args.kwonlyargs, args.kw_defaults) if d is not None})
        none_params = {k for k, d in defaults.items() if isinstance(d, ast.Constant) and d.value is None}
        for nnode in A.walk_local(f.node):
            if isinstance(nnode, ast.BoolOp) and isinstance(nnode.op, ast.Or) and isinstance(nnode.values[0], ast.Name) and nnode.values[0].id in none_params:
                n += 1
                ctx.ob("C30.D3-none-not-falsy", cname(f, None, f"default of `{nnode.values[0].id}`"), False,
                       f"`{A.norm(nnode)}` replaces an explicitly given falsy value (0, '', False) by the default", nontrivial=True, where=where(f, nnode))
            if isinstance(nnode, ast.IfExp) and isinstance(nnode.test, ast.Name) and nnode.test.id in none_params:
                n += 1
                ctx.ob("C30.D3-none-not-falsy", cname(f, None, f"default of `{nnode.test.id}`"), False,
                       f"`{A.norm(nnode)}` tests truthiness instead of `is None`", nontrivial=True, where=where(f, nnode))
            if isinstance(nnode, ast.If) and isinstance(nnode.test, ast.UnaryOp) and isinstance(nnode.test.op, ast.Not) and isinstance(nnode.test.operand, ast.Name) \
                    and nnode.test.operand.id in none_params and nnode.test.operand.id in ("expected_value", "resume_thresh", "suspend_thresh"):
                n += 1
                ctx.ob("C30.D3-none-not-falsy", cname(f, None, f"default of `{nnode.test.operand.id}`"), False, "`if not x:` treats 0 as missing", nontrivial=True, where=where(f, nnode))
        for p in none_params & {"expected_value", "resume_thresh"}:
            txt = A.norm(f.node)
            ok = f"{p} is None" in txt or f"{p} is not None" in txt
            ctx.ob("C30.D3-none-not-falsy", cname(f, None, f"`{p}` defaulted with an `is None` test"), ok, "" if ok else f"`{p}` is not defaulted with `is None`", where=where(f, f.node))
    ctx.expect("C30.D3-none-not-falsy", 2)
    ctx.extra["orderings_evaluated"] = n_eval
    ctx.extra["exhaustive"] = True


CLAIM = {
    "level": "proof",
    "text": "For the threshold and band suspenders the suspend / resume predicates only compare their arguments, so they are evaluated exhaustively "
            "on every weak ordering of (value, thresholds) admitted by the constructor's validation and shown equal to the documented conditions, "
            "never both true, and complementary at equal thresholds; boolean / changed-value suspenders are checked on their truth tables; the "
            "tripped flag follows the decision branches and is set on every exit of the suspend branch, raising ones included; None defaults are tested with `is None` (falsy thresholds honoured). NaN and signal "
            "delivery are outside the model.",
    "technique": "order-type evaluation (all weak orderings of the compared symbols) of the predicate ASTs; guard dominance; None-vs-falsy lint",
    "note": "Model: values are totally ordered (no NaN); self._op is the operator returned by the class's _op property.",
}

S = "suspenders.py"
MUTANTS = [
    ("the latch is set only after the event could be created (seeds C30-c / C31-c)",
     [(S, "                self._tripped = True\n                # this does dirty things with internal state\n", "                # this does dirty things with internal state\n"),
      (S, "                        raise RuntimeError(\"Could not create the \")\n", "                        raise RuntimeError(\"Could not create the \")\n                    self._tripped = True\n")], "C30.D2"),
    ("floor trips at the threshold", [(S, "    def _op(self):\n        return operator.lt", "    def _op(self):\n        return operator.le")], "C30.D1"),
    ("outside-band resume includes the edges", [(S, "class SuspendWhenOutsideBand(_SuspendBandBase):", "class SuspendWhenOutsideBand(_SuspendBandBase):"),
                                                (S, "    def _should_resume(self, value):\n        return self._bot < value < self._top\n\n    def _should_suspend(self, value):\n        return not (self._bot < value < self._top)",
                                                 "    def _should_resume(self, value):\n        return self._bot <= value <= self._top\n\n    def _should_suspend(self, value):\n        return not (self._bot < value < self._top)")], "C30.D1"),
    ("truthiness default (revert of F-12)", [(S, "        self.expected_value = expected_value if expected_value is not None else signal.value", "        self.expected_value = expected_value or signal.value")], "C30.D3"),
    ("resume threshold defaulted by truthiness", [(S, "        if resume_thresh is None:\n            resume_thresh = suspend_thresh", "        if not resume_thresh:\n            resume_thresh = suspend_thresh")], "C30.D3"),
    ("tripped set on the resume branch", [(S, "                self.__set_event(loop)\n                self._tripped = False", "                self.__set_event(loop)\n                self._tripped = True")], "C30.D2"),
    ("ceil resume uses the suspend threshold", [(S, "    def _should_resume(self, value):\n        return not self._op(value, self._resume_thresh)", "    def _should_resume(self, value):\n        return not self._op(value, self._suspend_thresh)")], "C30.D1"),
    ("floor validation inverted", [(S, "        if self._resume_thresh < self._suspend_thresh:\n            raise ValueError(\n                \"Resume threshold must be equal or greater \"", "        if self._resume_thresh > self._suspend_thresh:\n            raise ValueError(\n                \"Resume threshold must be equal or greater \"")], "C30.D1"),
    ("bool-low suspends on truthy", [(S, "class SuspendBoolLow(SuspenderBase):", "class SuspendBoolLow(SuspenderBase):"), (S, "    def _should_suspend(self, value):\n        return not bool(value)\n\n    def _should_resume(self, value):\n        return bool(value)", "    def _should_suspend(self, value):\n        return bool(value)\n\n    def _should_resume(self, value):\n        return bool(value)")], "C30.D1"),
    ("changed-value resumes regardless of allow_resume", [(S, "        return self.allow_resume and value == self.expected_value", "        return value == self.expected_value")], "C30.D1"),
]
BENIGN = [
    ("an assertion about the lock in front of the latch", [(S, "                self._tripped = True\n                # this does dirty things with internal state\n", "                assert self._lock.locked()\n                self._tripped = True\n                # this does dirty things with internal state\n")]),
    ("release announced only when tripped", [("suspenders.py", "            elif self._should_resume(value):", "            elif self._tripped and self._should_resume(value):")]),
]
