"""C38 - JSON truncation makes any numeric payload JSON-safe without changing safe values."""

from __future__ import annotations

import ast

from .. import astutil as A
from .. import q
from ..idioms import cname, where

UT = "bluesky.utils"
LIMIT = 2**53 - 1


def fold(e):
    """constant-fold an arithmetic expression of integer literals"""
    return eval(compile(ast.parse(ast.unparse(e), mode="eval"), "<fold>", "eval"), {"__builtins__": {}}, {})


def run(ctx):
    repo = ctx.repo
    ctx.explanation = (
        "Decided: D1 type-lattice coverage: the isinstance tuple of the integral branch covers int, float, numpy.integer and "
        "numpy.floating and the one of the float branch covers float and numpy.floating (subclass facts are read from the installed numpy: "
        "np.float64 is a float, np.int64 is not an int), and the integer bound is compared without being rounded to a narrow float type "
        "(numpy converts a Python int compared with a float32 scalar to float32, where 2**53 - 1 becomes 2**53); D2 constant folding: the comparison bounds and the clamp bounds of the integral "
        "branch all equal +-(2**53 - 1); the float clamp bounds are finite and symmetric and equal the comparison bounds; D3 mappings and "
        "non-string iterables recurse on every element and rebuild a dict / list; strings are not iterated; the branch order is mapping, "
        "iterable, integral, float; everything else is returned unchanged. Not decided: arithmetic of `%`, NaN.")
    f = repo.func(UT, "truncate_json_overflow")
    ifs = [s for s in f.node.body if isinstance(s, ast.If)]
    ctx.require(ifs, "anchor vanished: the if/elif ladder of truncate_json_overflow")
    ladder = []
    node = ifs[0]
    while True:
        ladder.append(node)
        if node.orelse and len(node.orelse) == 1 and isinstance(node.orelse[0], ast.If):
            node = node.orelse[0]
        else:
            break
    # a branch beyond the four documented ones is harmless only if it hands back a value that needs no bound: a string / bytes / None / bool
    def harmless(br):
        t = A.norm(br.test)
        scalar_only = all(isinstance(n, ast.Call) and A.call_name(n) == "isinstance" and A.norm(n.args[0]) == "data"
                          and set(A.norm(e) for e in (n.args[1].elts if isinstance(n.args[1], ast.Tuple) else [n.args[1]])) <= {"str", "bytes", "bool", "type(None)"}
                          for n in ([br.test] if not isinstance(br.test, ast.BoolOp) else br.test.values)) or t == "data is None"
        return scalar_only and len(br.body) == 1 and A.norm(br.body[0]) == "return data"

    def kind(br):
        t = A.norm(br.test)
        return "mapping" if t == "isinstance(data, collections.abc.Mapping)" else \
            "iterable" if t.startswith("isinstance(data, collections.abc.Iterable)") else None
    extras = []
    if len(ladder) > 4:
        core = []
        for br in ladder:
            if harmless(br):
                continue
            core.append(br)
        # the documented four: the mapping branch, the iterable branch and the last two (integral, float); whatever else is left is a shortcut
        extras = [br for br in core if kind(br) is None][:-2] if len(core) > 4 else []
        for br in extras:
            ctx.ob("C38.D3-recursion-and-order", cname(f, None, "no shortcut branch beside mapping / iterable / integral / float"), False,
                   f"values with `{A.short(br.test, 110)}` are answered by `{A.short(br.body[-1], 60)}` without the per-value bound being applied: a number "
                   "outside +-(2**53 - 1) (or a non-finite float) inside such a value passes through", nontrivial=True, where=where(f, br))
        ladder = [br for br in core if br not in extras]
    ctx.ob("C38.D3-recursion-and-order", cname(f, None, "four branches: mapping, iterable, integral, float"), len(ladder) == 4,
           "" if len(ladder) == 4 else f"{len(ladder)} branches", where=where(f, f.node))
    if len(ladder) != 4:
        return
    m, it, integral, flt = ladder
    ok = A.norm(m.test) == "isinstance(data, collections.abc.Mapping)" and A.norm(m.body[0]) == "return {k: truncate_json_overflow(v) for k, v in data.items()}"
    ctx.ob("C38.D3-recursion-and-order", cname(f, None, "mapping: recurse on every value, rebuild a dict with the same keys"), ok, "" if ok else "mapping branch changed", where=where(f, m))
    ok = A.norm(it.test) == "isinstance(data, collections.abc.Iterable) and (not isinstance(data, str))" and A.norm(it.body[0]) == "return [truncate_json_overflow(item) for item in data]"
    ctx.ob("C38.D3-recursion-and-order", cname(f, None, "non-string iterable: recurse on every item, rebuild a list"), ok, "" if ok else "iterable branch changed (strings iterated / items skipped)", where=where(f, it))
    rets = [s for s in f.node.body if isinstance(s, ast.Return)]
    ok = bool(rets) and A.norm(rets[-1].value) == "data"
    ctx.ob("C38.D3-recursion-and-order", cname(f, None, "anything else is returned unchanged"), ok, "" if ok else "fall-through changed", where=where(f, f.node))

    def isinstance_types(test):
        for n in ast.walk(test):
            if isinstance(n, ast.Call) and A.call_name(n) == "isinstance" and A.norm(n.args[0]) == "data":
                t = n.args[1]
                return [A.norm(e) for e in (t.elts if isinstance(t, ast.Tuple) else [t])]
        return []

    # facts about the numeric tower, read from the interpreter's numpy (no bluesky code is run)
    import numpy as np
    facts = {"np.float64 is a float": issubclass(np.float64, float), "np.int64 is an int": issubclass(np.int64, int), "np.float32 is a float": issubclass(np.float32, float)}
    ctx.extra["numpy_facts"] = facts
    have = set(isinstance_types(integral.test))
    need = {"int", "float"}
    if not facts["np.int64 is an int"]:
        need.add("np.integer")
    if not facts["np.float32 is a float"]:
        need.add("np.floating")
    ok = need <= have
    ctx.ob("C38.D1-numeric-types-covered", cname(f, None, f"integral branch tests {sorted(need)}"), ok,
           "" if ok else f"isinstance tuple is {sorted(have)}: values of {sorted(need - have)} (not subclasses of int / float) pass through untruncated", nontrivial=True, where=where(f, integral))
    have = set(isinstance_types(flt.test))
    need = {"float"} | ({"np.floating"} if not facts["np.float32 is a float"] else set())
    ok = need <= have
    ctx.ob("C38.D1-numeric-types-covered", cname(f, None, f"float branch tests {sorted(need)}"), ok, "" if ok else f"isinstance tuple is {sorted(have)}", nontrivial=True, where=where(f, flt))
    # D2 bounds.  Module-level integer constants may name the bound.
    consts_env = {}
    for st in repo.module(UT).tree.body:
        if isinstance(st, ast.Assign) and len(st.targets) == 1 and isinstance(st.targets[0], ast.Name):
            try:
                v = eval(compile(ast.parse(ast.unparse(st.value), mode="eval"), "<fold>", "eval"), {"__builtins__": {}}, dict(consts_env))
                if isinstance(v, int) and not isinstance(v, bool):
                    consts_env[st.targets[0].id] = v
            except Exception:
                pass

    def foldc(e):
        return eval(compile(ast.parse(ast.unparse(e), mode="eval"), "<fold>", "eval"), {"__builtins__": {}}, dict(consts_env))

    cmp_operand = clamp_operand = None
    ok, why = False, "no range test on the value found"
    # form (a): not (lo <= X <= hi)      form (b): abs(X) > hi   /   abs(X) >= hi + 1
    for n in ast.walk(integral.test):
        if isinstance(n, ast.Compare) and len(n.ops) == 2:
            try:
                lo, hi = foldc(n.left), foldc(n.comparators[1])
            except Exception:
                continue
            cmp_operand = A.norm(n.comparators[0])
            ok = lo == -LIMIT and hi == LIMIT and all(isinstance(o, ast.LtE) for o in n.ops)
            why = "" if ok else f"in-range test is {lo} <= x <= {hi}"
            break
        if isinstance(n, ast.Compare) and len(n.ops) == 1 and isinstance(n.left, ast.Call) and A.call_name(n.left) in ("abs", "np.abs", "numpy.abs") and len(n.left.args) == 1:
            try:
                bound = foldc(n.comparators[0])
            except Exception:
                continue
            cmp_operand = A.norm(n.left.args[0])
            ok = (isinstance(n.ops[0], ast.Gt) and bound == LIMIT) or (isinstance(n.ops[0], ast.GtE) and bound == LIMIT + 1)
            why = "" if ok else f"out-of-range test is abs(x) {type(n.ops[0]).__name__} {bound}"
            if ok and cmp_operand == "data" and "np.integer" in set(isinstance_types(integral.test)):
                import warnings

                with warnings.catch_warnings():
                    warnings.simplefilter("ignore")
                    facts["abs(int64 min) is negative"] = bool(abs(np.int64(-2**63)) < 0)
                if facts["abs(int64 min) is negative"]:
                    ok, why = False, ("abs() of a fixed-width numpy integer wraps for its most negative value (abs(np.int64(-2**63)) is negative): that value "
                                      "is never recognised as out of range and is returned unchanged")
            break
    ctx.ob("C38.D2-bounds", cname(f, None, "the range test accepts exactly -(2**53-1) .. 2**53-1"), ok, why, nontrivial=True, where=where(f, integral))
    r = integral.body[0]
    ok, why = False, "clamp not recognised"
    if isinstance(r, ast.Return):
        v = r.value
        try:
            if isinstance(v, ast.Call) and A.call_name(v) == "min" and isinstance(v.args[0], ast.Call) and A.call_name(v.args[0]) == "max":
                hi, lo = foldc(v.args[1]), foldc(v.args[0].args[1])
                clamp_operand = A.norm(v.args[0].args[0])
                ok = hi == LIMIT and lo == -LIMIT and clamp_operand in ("data", "int(data)")
                why = "" if ok else f"clamps {clamp_operand} to [{lo}, {hi}]"
            elif isinstance(v, ast.IfExp) and isinstance(v.test, ast.Compare) and len(v.test.ops) == 1:
                # hi if X > 0 else -hi   (only values already known to be out of range reach the clamp)
                pos, neg = foldc(v.body), foldc(v.orelse)
                tv = A.norm(v.test.left)
                zero = foldc(v.test.comparators[0])
                if isinstance(v.test.ops[0], (ast.Lt, ast.LtE)):
                    pos, neg = neg, pos
                # only values already known to be out of range reach the clamp, so comparing with 0 or with either bound picks the same side
                if zero in (LIMIT, -LIMIT) and tv in ("data", "int(data)"):
                    zero = 0
                ok = pos == LIMIT and neg == -LIMIT and zero == 0 and tv in ("data", "int(data)")
                why = "" if ok else f"clamps to {pos} / {neg} by the sign of {tv}"
        except Exception:
            ok, why = False, "clamp bounds are not constants"
    ctx.ob("C38.D2-bounds", cname(f, None, "out-of-range values are clamped to -(2**53-1) / 2**53-1"), ok, why if not ok else "", nontrivial=True, where=where(f, integral))
    # D1 (integral branch): the bound 2**53 - 1 must survive the comparison's type promotion.  numpy converts a Python int that is
    # compared with a numpy float scalar to that scalar's type (NEP 50); facts read from the installed numpy:
    facts["float32(2**53 - 1) == 2**53 - 1"] = int(np.float32(LIMIT)) == LIMIT
    narrow_lossy = ("np.floating" in set(isinstance_types(integral.test))) and not facts["float32(2**53 - 1) == 2**53 - 1"]
    for what, operand in (("in-range test", cmp_operand), ("clamp", clamp_operand)):
        if operand is None:
            continue
        if operand == "float(data)":
            ok, why = False, "float(data) raises OverflowError for Python integers above 1.8e308"
        elif operand == "data":
            ok, why = not narrow_lossy, ("a numpy float32 / float16 is compared with the Python int bound after the BOUND is rounded to that type "
                                         "(2**53 - 1 becomes 2**53): float32(2**53) counts as in range and is returned unchanged")
        else:
            ok, why = operand == "int(data)", f"operand {operand}"
        if what == "in-range test" and operand == "data" and not ok:
            pass
        ctx.ob("C38.D1-bound-survives-promotion", cname(f, None, f"{what}: the value is compared exactly (int(data)) or no narrow float type reaches it"), ok,
               "" if ok else why, nontrivial=True, where=where(f, integral))
    # int(data) is only safe behind the integrality guard (inf / nan % 1 is nan -> falsy guard): the guard must precede it in the `and` chain
    if "int(data)" in (cmp_operand, clamp_operand):
        vals = integral.test.values if isinstance(integral.test, ast.BoolOp) and isinstance(integral.test.op, ast.And) else []
        i_guard = next((i for i, v in enumerate(vals) if A.norm(v) in ("not data % 1", "data % 1 == 0")), None)
        i_cmp = next((i for i, v in enumerate(vals) if "int(data)" in A.norm(v)), None)
        ok = i_guard is not None and (i_cmp is None or i_guard < i_cmp)
        ctx.ob("C38.D1-bound-survives-promotion", cname(f, None, "int(data) is evaluated only after the integrality guard (never on inf / nan)"), ok,
               "" if ok else "int(data) can be evaluated on an infinity or NaN (OverflowError / ValueError)", where=where(f, integral))
    ok = "not data % 1" in A.norm(integral.test)
    ctx.ob("C38.D2-bounds", cname(f, None, "only integral values take the integer clamp"), ok, "" if ok else "fractional values are clamped as integers", where=where(f, integral))
    consts = sorted({n.value for n in ast.walk(flt) if isinstance(n, ast.Constant) and isinstance(n.value, float)})
    ok = len(consts) == 1 and consts[0] < float("inf") and consts[0] > 1e308 and A.norm(flt).count(repr(consts[0])) == 4
    ctx.ob("C38.D2-bounds", cname(f, None, "float comparison and clamp use the same finite bound"), ok, "" if ok else f"float bounds {consts}", where=where(f, flt))
    # every comparison of the float branch (in its test or in nested tests) compares float(data), never the raw value
    cmps_ = [n for n in ast.walk(flt) if isinstance(n, ast.Compare) and any(isinstance(c_, ast.Constant) and isinstance(c_.value, float) or
                                                                              (isinstance(c_, ast.UnaryOp) and isinstance(c_.operand, ast.Constant))
                                                                              for c_ in [n.left] + list(n.comparators))]
    ok = bool(cmps_) and all(any(A.norm(x) == "float(data)" for x in [n.left] + list(n.comparators)) for n in cmps_)
    ctx.ob("C38.D1-numeric-types-covered", cname(f, None, "narrow numpy floats are compared as Python floats"), ok,
           "" if ok else "a float32 infinity is compared after a lossy cast of the bound and passes", where=where(f, flt))


CLAIM = {
    "text": "Decides type-lattice coverage of the numeric branches against the installed numpy's class hierarchy (numpy integers are not ints: the "
            "omission fixed in /repo as F-11 would be reported again; so would F-14, the float32 value 2**53 passing because the bound is rounded to "
            "float32 by the comparison), equality of the comparison and clamp bounds with +-(2**53-1) by constant "
            "folding, finiteness and agreement of the float bounds, the recursion / branch-order shape, and the absence of shortcut branches that hand back a container without the per-value bound. The arithmetic of `%` and NaN are not decided.",
    "technique": "isinstance-tuple coverage against the numeric type lattice (inspect of numpy classes); constant folding; shape rules",
}

U = "utils/__init__.py"
MUTANTS = [
    ("narrow arrays returned through tolist() without the per-element bound (seed C38-c)",
     [(U, "    elif isinstance(data, collections.abc.Iterable) and not isinstance(data, str):\n", "    elif isinstance(data, np.ndarray) and data.ndim > 0 and data.dtype.kind in \"biuf\" and data.dtype.itemsize <= 4:\n        return data.tolist()\n    elif isinstance(data, collections.abc.Iterable) and not isinstance(data, str):\n")], "C38.D3"),
    ("numpy integers pass through (revert of F-11)", [(U, "    elif isinstance(data, (int, float, np.integer, np.floating)) and not (data % 1)", "    elif isinstance(data, (int, float)) and not (data % 1)")], "C38.D1"),
    ("upper bound 2**53", [(U, "not (1 - 2**53 <= int(data) <= 2**53 - 1):", "not (1 - 2**53 <= int(data) <= 2**53):")], "C38.D2"),
    ("clamp lower bound off by one", [(U, "        return min(max(int(data), 1 - 2**53), 2**53 - 1)", "        return min(max(int(data), -(2**53)), 2**53 - 1)")], "C38.D2"),
    ("range test on the raw value (revert of F-14)", [(U, "not (1 - 2**53 <= int(data) <= 2**53 - 1):", "not (1 - 2**53 <= data <= 2**53 - 1):")], "C38.D1-bound"),
    ("clamp on the raw value (revert of F-14)", [(U, "        return min(max(int(data), 1 - 2**53), 2**53 - 1)", "        return min(max(data, 1 - 2**53), 2**53 - 1)")], "C38.D1-bound"),
    ("clamp keeps the input type (seed C38-a)", [(U, "        return min(max(int(data), 1 - 2**53), 2**53 - 1)", "        return type(data)(min(max(int(data), 1 - 2**53), 2**53 - 1))")], "C38.D2"),
    ("int() before the integrality guard", [(U, "and not (data % 1) and not (1 - 2**53 <= int(data) <= 2**53 - 1):", "and not (1 - 2**53 <= int(data) <= 2**53 - 1) and not (data % 1):")], "C38.D1-bound"),
    ("strings iterated", [(U, "    elif isinstance(data, collections.abc.Iterable) and not isinstance(data, str):", "    elif isinstance(data, collections.abc.Iterable):")], "C38.D3"),
    ("mapping values not recursed", [(U, "        return {k: truncate_json_overflow(v) for k, v in data.items()}", "        return dict(data)")], "C38.D3"),
    ("float branch only for Python floats", [(U, "    elif isinstance(data, (float, np.floating)) and (float(data) < -1.7976e308 or float(data) > 1.7976e308):", "    elif isinstance(data, float) and (float(data) < -1.7976e308 or float(data) > 1.7976e308):")], "C38.D1"),
    ("float clamp to infinity", [(U, "        return min(max(float(data), -1.7976e308), 1.7976e308)", "        return min(max(float(data), -1.7976e308), float(\"inf\"))")], "C38.D2"),
]
BENIGN = [
    ("strings answered by a branch of their own", [(U, "    if isinstance(data, collections.abc.Mapping):\n        return {k: truncate_json_overflow(v) for k, v in data.items()}\n    elif", "    if isinstance(data, str):\n        return data\n    elif isinstance(data, collections.abc.Mapping):\n        return {k: truncate_json_overflow(v) for k, v in data.items()}\n    elif")]),
    ("range test written with abs(int(data)) and a named bound", [(U, "def truncate_json_overflow(data):", "_JSON_MAX_INT = 2**53 - 1\n\n\ndef truncate_json_overflow(data):"), (U, "and not (1 - 2**53 <= int(data) <= 2**53 - 1):", "and abs(int(data)) > _JSON_MAX_INT:")]),
]
MUTANTS += [
    ("range test with abs() on the raw value (seed C38-b)", [(U, "and not (1 - 2**53 <= int(data) <= 2**53 - 1):", "and abs(data) > 2**53 - 1:")], "C38.D2"),
]
