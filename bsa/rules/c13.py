"""C13 - each yield receives the response to its own message."""

from __future__ import annotations

import ast

from .. import astutil as A
from .. import cfg as C
from .. import q
from ..idioms import cname, where
from ..re_model import CLS, MOD, REModel
from ..run_tail import OTEL_TOTAL
from ..stackheight import TOP, StackHeights


def d1_stack_invariant(ctx, rm: REModel):
    run = rm.run
    g = C.build(run, rm.policy(extra_total=OTEL_TOTAL))
    sh = StackHeights(g)
    IN = sh.solve()
    heads = [n for n in g.nodes_of(rm.loop) if g.nodes[n].kind == "test"]
    ctx.require(heads, "anchor vanished: loop head of _run")
    bad = {}
    n_edges = 0
    for h in heads:
        for p, label in g.pred[h]:
            n_edges += 1
            for st in IN.get(p, ()):
                for (d, r) in sh.flow(g.nodes[p], st, label, g.nodes[h]):
                    if d != 0:
                        bad.setdefault((A.head(g.nodes[p].stmt) if g.nodes[p].stmt is not None else g.nodes[p].label, d), g.nodes[p])
    for (stmt_head, d), node in sorted(bad.items(), key=lambda kv: str(kv[0])):
        ctx.ob("C13.D1-stacks-aligned-at-loop-head", f"{run.key}:back-edge from `{stmt_head}`", False,
               f"the loop head is reached with len(plan stack) - len(response stack) = {'unknown' if d == TOP else d}: "
               "responses would be delivered to the wrong yield", nontrivial=True, where=where(run, node.stmt))
    ctx.ob("C13.D1-stacks-aligned-at-loop-head", f"{run.key}:all {n_edges} edges into the loop head", not bad,
           f"d = 0 on every path, including the exceptional paths through the inner try/finally ({len(IN)} CFG nodes with states)" if not bad else "",
           nontrivial=True)
    # the assert in the code states the same invariant
    asserts = [s for s in rm.loop.body if isinstance(s, ast.Assert) and "len(self._response_stack) == len(self._plan_stack)" in A.norm(s.test)]
    ctx.ob("C13.D1-stacks-aligned-at-loop-head", cname(run, None, "runtime assert of the invariant kept"), bool(asserts), "" if asserts else "assert removed", where=where(run, rm.loop))
    # pops never happen on a sentinel/unpopped iteration twice
    pops = [s for s in A.walk_stmts(rm.inner_try.body) if isinstance(s, ast.Assign) and A.norm(s.value) == "self._response_stack.pop()"]
    ctx.ob("C13.D1-stacks-aligned-at-loop-head", cname(run, None, "one response popped per iteration"), len(pops) == 1,
           "" if len(pops) == 1 else f"{len(pops)} pop sites", where=where(run, rm.inner_try))
    ctx.extra.update(g.stats())


def d2_paired_pushes(ctx, rm: REModel):
    repo = rm.repo
    n = 0
    for f in repo.funcs_in(MOD):
        if f.qualname == f"{CLS}._run":
            continue
        for blk in _blocks(f.node):
            for i, s in enumerate(blk):
                if isinstance(s, ast.Expr) and A.call_name(s.value) == "self._plan_stack.append":
                    n += 1
                    nxt = blk[i + 1] if i + 1 < len(blk) else None
                    prv = blk[i - 1] if i > 0 else None
                    ok = any(x is not None and A.norm(x) == "self._response_stack.append(None)" for x in (nxt, prv))
                    ctx.ob("C13.D2-paired-push", cname(f, s), ok,
                           "" if ok else "a plan is pushed without a matching None response in the same block: every later response is delivered one yield off",
                           where=where(f, s))
    ctx.expect("C13.D2-paired-push", 4)
    # nobody else pushes / pops the response stack
    q.check_writers(ctx, "C13.D2-stack-writers", repo, "_response_stack",
                    {f"{CLS}.__init__": "created", f"{CLS}._clear_call_cache": "fresh per call", f"{CLS}.__call__": "paired push", f"{CLS}.resume": "paired push",
                     f"{CLS}.request_suspend._request_suspend": "paired push", f"{CLS}._start_suspender": "paired push", f"{CLS}._run": "pop / re-push"},
                    modules=None, min_instances=6)
    q.check_writers(ctx, "C13.D2-stack-writers", repo, "_plan_stack",
                    {f"{CLS}.__init__": "created", f"{CLS}._clear_call_cache": "fresh per call", f"{CLS}.__call__": "paired push", f"{CLS}.resume": "paired push",
                     f"{CLS}.request_suspend._request_suspend": "paired push", f"{CLS}._start_suspender": "paired push", f"{CLS}._run": "pop dead plans"},
                    modules=None, min_instances=6)


def _blocks(node):
    for n in ast.walk(node):
        for fld in ("body", "orelse", "finalbody"):
            b = getattr(n, fld, None)
            if isinstance(b, list) and b and isinstance(b[0], ast.stmt):
                yield b


def d3_response_is_current(ctx, rm: REModel):
    run = rm.run
    it = rm.inner_try
    first = it.body[0] if it.body else None
    ok = isinstance(first, ast.Assign) and A.norm(first) == "new_response = None"
    ctx.ob("C13.D3-response-belongs-to-this-message", cname(run, None, "new_response reset at the top of every iteration's try"), ok,
           "" if ok else "a response computed for an earlier message can be delivered again", where=where(run, it))
    inner_ids = {id(s) for s in A.walk_stmts(it.body)} | {id(s) for h in it.handlers for s in A.walk_stmts(h.body)}
    for s in A.walk_stmts(run.node.body):
        if any(isinstance(t, ast.Name) and t.id == "new_response" for t in A.targets_of(s)):
            ok = id(s) in inner_ids
            src = A.norm(getattr(s, "value", None))
            ok2 = src in ("None", "await coro(msg)", "e", "InvalidCommand(msg.command)")
            ctx.ob("C13.D3-response-belongs-to-this-message", cname(run, s), ok and ok2,
                   "" if (ok and ok2) else "new_response is assigned from something other than this message's command result / error", where=where(run, s))
    # the re-push in the finally pushes new_response, guarded by `resp is not sentinel`
    fin = it.finalbody
    ok = len(fin) == 1 and isinstance(fin[0], ast.If) and A.norm(fin[0].test) == "resp is not sentinel" and \
        [A.norm(x) for x in fin[0].body] == ["self._response_stack.append(new_response)"] and not fin[0].orelse
    ctx.ob("C13.D3-response-belongs-to-this-message", cname(run, None, "finally: if resp is not sentinel: push new_response"), ok,
           "" if ok else "the re-push of the response changed shape", where=where(run, it))
    # the command executed is the one registered for this message's command and it receives this message
    ok = any("self._command_registry.get(msg.command" in A.norm(s) or A.norm(s) == "coro = self._command_registry[msg.command]" for s in A.walk_stmts(it.body)) and \
        any(isinstance(s, ast.Assign) and A.norm(s) == "new_response = await coro(msg)" for s in A.walk_stmts(it.body))
    ctx.ob("C13.D3-response-belongs-to-this-message", cname(run, None, "coro looked up by msg.command and called with msg"), ok, "" if ok else "dispatch changed", where=where(run, it))
    # msg comes from the top plan via send(resp) / throw
    ok = any(A.norm(s) == "msg = self._plan_stack[-1].send(resp)" for s in A.walk_stmts(it.body))
    ctx.ob("C13.D3-response-belongs-to-this-message", cname(run, None, "the popped response is sent into the top plan"), ok, "" if ok else "send target / value changed", where=where(run, it))


def d4_run_uids(ctx, rm: REModel):
    repo = rm.repo
    q.check_writers(ctx, "C13.D4-run-uids", repo, "_run_start_uids",
                    {f"{CLS}.__init__": "created", f"{CLS}._clear_call_cache": "cleared per call", f"{CLS}._open_run": "appended after the run opened"},
                    modules=[MOD], min_instances=3)
    h = rm.handler("open_run")
    seq = list(A.walk_stmts(h.node.body))
    i_open = next((i for i, s in enumerate(seq) if isinstance(s, ast.Assign) and A.find_calls(s, "open_run")), None)
    i_app = next((i for i, s in enumerate(seq) if A.find_calls(s, "self._run_start_uids.append")), None)
    ok = i_open is not None and i_app is not None and i_open < i_app and A.norm(seq[i_app]) == f"self._run_start_uids.append({A.norm(seq[i_open].targets[0])})"
    ctx.ob("C13.D4-run-uids", cname(h, None, "uid returned by open_run appended, then returned to the plan"), ok, "" if ok else "the uid list no longer records the opened run's uid", where=where(h, h.node))
    ok = isinstance(seq[-1], ast.Return) and i_open is not None and A.norm(seq[-1].value) == A.norm(seq[i_open].targets[0])
    ctx.ob("C13.D4-run-uids", cname(h, None, "open_run responds with the new uid"), ok, "" if ok else "response of open_run is not the uid", where=where(h, h.node))
    for nm in ("__call__", "resume"):
        f = rm.m(nm)
        rets = [s for s in A.walk_stmts(f.node.body) if isinstance(s, ast.Return) and s.value is not None]
        vals = [A.norm(q.expand(f.node, r.value)) for r in rets]  # temporaries substituted
        ok = any(v == "tuple(self._run_start_uids)" for v in vals) and any(v.startswith("self._create_result(") for v in vals)
        ctx.ob("C13.D4-run-uids", cname(f, None, "returns the uids in order (or the result object)"), ok, "" if ok else "return value changed", where=where(f, f.node))
    cr = rm.m("_create_result")
    c = A.find_calls(cr.node, "RunEngineResult")
    fields = [s.target.id for s in rm.repo.cls(MOD, "RunEngineResult").node.body if isinstance(s, ast.AnnAssign) and isinstance(s.target, ast.Name)]
    got = {}
    if c:
        for i, a in enumerate(c[0].args):
            if i < len(fields):
                got[fields[i]] = A.norm(a)
        for k in c[0].keywords:
            if k.arg:
                got[k.arg] = A.norm(k.value)
    ok = bool(c) and len(fields) >= 3 and [got.get(x) for x in fields[:3]] == ["tuple(self._run_start_uids)", "plan_return", "self._exit_status"]
    ctx.ob("C13.D4-run-uids", cname(cr, None, "RunEngineResult(uids, plan_return, exit_status, ...)"), ok, "" if ok else "result fields permuted", where=where(cr, cr.node))
    # plan_return comes from the StopIteration of the last plan
    lad = [h2 for h2 in rm.outer_try.handlers if h2.type is not None and h2.name and "StopIteration" in [A.norm(e_) for e_ in (h2.type.elts if isinstance(h2.type, ast.Tuple) else [h2.type])]]
    ok = bool(lad) and any(A.norm(s) == f"plan_return = {lad[0].name}.value" for s in A.walk_stmts(lad[0].body)) and any(
        isinstance(s, ast.Return) and A.norm(s.value) == "plan_return" for s in rm.run.node.body)
    ctx.ob("C13.D4-run-uids", cname(rm.run, None, "plan_return = the top-level plan's return value"), ok, "" if ok else "the plan's return value is lost", where=where(rm.run, rm.run.node))


def d5_alignment_under_external_push(ctx, rm: REModel):
    run = rm.run
    it = rm.inner_try
    seq = list(A.walk_stmts(it.body))
    i_pop = next((i for i, s in enumerate(seq) if isinstance(s, ast.Assign) and A.norm(s.value) == "self._response_stack.pop()"), None)
    ctx.require(i_pop is not None, "anchor vanished: resp = self._response_stack.pop()")
    aw = [s for s in seq[i_pop + 1:] if not isinstance(s, (ast.Try, ast.If, ast.With, ast.For, ast.While)) and A.has_await(s)]
    ok = len(aw) == 1 and A.norm(aw[0]) == "new_response = await coro(msg)"
    ctx.ob("C13.D5-no-await-between-pop-and-repush", cname(run, None, "the only await between the pop and the re-push is the command itself"), ok,
           "" if ok else f"awaits after the pop: {[A.head(s) for s in aw]}: a suspension request landing there pushes a plan/response pair under the popped response",
           nontrivial=True, where=where(run, it))
    for h in it.handlers:
        haw = [s for s in A.walk_stmts(h.body) if A.has_await(s) and not isinstance(s, (ast.Try, ast.If, ast.With))]
        if h.type is not None and "KeyboardInterrupt" in A.norm(h.type):
            continue
        ctx.ob("C13.D5-no-await-between-pop-and-repush", cname(run, h, f"no await in {A.head(h)}"), not haw,
               "" if not haw else "an await in the handler separates the pop from the re-push", where=where(run, h))


def run(ctx):
    rm = REModel(ctx.repo)
    ctx.explanation = (
        "Decided: D1 stack-height abstract interpretation of _run's loop: len(plan stack) - len(response stack) = 0 on every edge into "
        "the loop head, over all paths including exceptional ones through the inner try/finally with the `resp is not sentinel` "
        "refinement; D2 every push outside _run pushes a plan and a None response in the same block, closed-world writers of both "
        "stacks; D3 the response re-pushed is the one computed for this iteration's message (reset first, assigned only from the "
        "command result / its error), dispatched by msg.command; D4 open_run's uid is appended after a successful open and returned; "
        "RE() returns the uids / result fields in order, plan_return is the StopIteration value; D5 the only await between popping "
        "a response and re-pushing is the command itself. Not decided: contents of responses.")
    d1_stack_invariant(ctx, rm)
    q.per_call_reset(ctx, rm, "C13.D2-stacks-reset-per-call", ["_plan_stack", "_response_stack"])
    d2_paired_pushes(ctx, rm)
    d3_response_is_current(ctx, rm)
    d4_run_uids(ctx, rm)
    d5_alignment_under_external_push(ctx, rm)


CLAIM = {
    "text": "Decides the alignment of the plan and response stacks: a finite abstract interpretation proves height difference 0 on every edge "
            "into the message loop's head over all paths (exceptional ones included); pushes outside the loop are paired; the response "
            "pushed back is the one computed for the current message; run uids and the plan's return value flow to the caller in order; no "
            "await separates the pop from the re-push other than the command itself. Contents of device responses are not decided.",
    "technique": "finite abstract interpretation (stack-height difference x sentinel flag) on a CFG with exceptional edges; ownership tables; reaching definitions",
}

RE = "run_engine.py"
MUTANTS = [
    ("one `resp = sentinel` deleted",
     [(RE, "                            # pop the dead generator go back to the top\n                            self._plan_stack.pop()\n                            # we have killed the current plan, do not give\n                            # it a new response\n                            resp = sentinel\n",
       "                            # pop the dead generator go back to the top\n                            self._plan_stack.pop()\n")], "C13.D1"),
    ("resume pushes the replay plan without a response",
     [(RE, "        self._plan_stack.append(new_plan)\n        self._response_stack.append(None)\n        # Notify Devices of the resume", "        self._plan_stack.append(new_plan)\n        # Notify Devices of the resume")], "C13.D2"),
    ("finally re-pushes unconditionally",
     [(RE, "                    if resp is not sentinel:\n                        self._response_stack.append(new_response)", "                    if True:\n                        self._response_stack.append(new_response)")], ["C13.D1", "C13.D3"]),
    ("new_response not reset",
     [(RE, "                    # the new response to be added\n                    new_response = None\n", "")], "C13.D3"),
    ("response popped before the suspension point",
     [(RE, "                    if stashed_exception is None:\n                        await asyncio.sleep(0, **self._loop_for_kwargs)\n                    # always pop off a result, we are either sending it back in\n                    # or throwing an exception in, in either case the left hand\n                    # side of the yield in the plan will be moved past\n                    resp = self._response_stack.pop()\n",
       "                    resp = self._response_stack.pop()\n                    if stashed_exception is None:\n                        await asyncio.sleep(0, **self._loop_for_kwargs)\n")], "C13.D5"),
    ("uid appended before the run is opened",
     [(RE, "        new_uid = await current_run.open_run(msg)\n        self._run_start_uids.append(new_uid)\n        return new_uid", "        self._run_start_uids.append(current_run._run_start_uid)\n        new_uid = await current_run.open_run(msg)\n        return new_uid")], "C13.D4"),
    ("dead plan popped twice when throw fails",
     [(RE, "                            # to try\n                            self._plan_stack.pop()\n", "                            # to try\n                            self._plan_stack.pop()\n                            if len(self._plan_stack) > 1:\n                                self._plan_stack.pop()\n")], "C13.D1"),
    ("response stack cleared by a handler",
     [(RE, "        self._msg_cache = None\n        # clear stashed", "        self._msg_cache = None\n        self._response_stack.clear()\n        # clear stashed")], "C13.D2"),
    ("suspend request pushes its plan only",
     [(RE, "                single_gen(Msg(\"_start_suspender\", None, pre_plan, post_plan, justification, fut))\n            )\n            self._response_stack.append(None)", "                single_gen(Msg(\"_start_suspender\", None, pre_plan, post_plan, justification, fut))\n            )")], "C13.D2"),
    ("plan return value dropped",
     [(RE, "            plan_return = e.value\n", "            plan_return = None\n")], "C13.D4"),
    ("wrong message dispatched",
     [(RE, "                        new_response = await coro(msg)", "                        new_response = await coro(self._msg_cache[-1] if self._msg_cache else msg)")], "C13.D3"),
]
BENIGN = [
    ("response push order swapped at call start",
     [(RE, "        self._plan_stack.append(gen)\n        self._response_stack.append(None)\n        if futs:", "        self._response_stack.append(None)\n        self._plan_stack.append(gen)\n        if futs:")]),
]
