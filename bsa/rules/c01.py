"""C01 - every opened run is a well-formed document stream, whatever happens."""

from __future__ import annotations

import ast

from .. import astutil as A
from .. import q
from ..idioms import cname, prev_siblings, sentinel_lookup, where
from ..re_model import BCLS, BMOD, CLS, MOD, REModel
from ..run_tail import RunTail

# handlers that look a bundler up by msg.run but legitimately work without an open run
GUARD_EXCEPTIONS = {
    "_read": "reading a device outside a run is legal: the reading is returned and simply not bundled",
    "_configure": "configuring a device outside a run is legal: no descriptor needs refreshing",
}


def d1_runs_closed_on_every_exit(ctx, rm: REModel, tail: RunTail):
    loops = tail.loops_calling("close_run")
    ctx.require(loops, "anchor vanished: the loop in _run's finally that closes open runs")
    loop = loops[0]
    # the loop must close only open runs and cover every bundler
    it = A.norm(loop.iter)
    ctx.ob("C01.D1-closing-loop-shape", cname(rm.run, loop), "self._run_bundlers" in it,
           "" if "self._run_bundlers" in it else "the closing loop no longer iterates over self._run_bundlers",
           where=where(rm.run, loop))
    guarded = [s for s in A.walk_stmts(loop.body) if isinstance(s, ast.If) and "run_is_open" in A.norm(s.test)
               and A.find_calls(s, "close_run")]
    ctx.ob("C01.D1-closing-loop-shape", cname(rm.run, None, "close_run only if run_is_open"), bool(guarded),
           "" if guarded else "close_run in the cleanup is not guarded by run_is_open (a second RunStop would be attempted)",
           where=where(rm.run, loop))
    loop_id = id(loop)

    def is_cut(u, label, v):
        return u.kind == "for" and u.stmt is not None and id(u.stmt) == loop_id and label == "done"

    tail.check_must_complete(ctx, "C01.D1-runs-closed-on-every-exit",
                             "the loop that emits RunStop for every run still open", is_cut)
    # and nothing may leave the loop early
    early = [s for s in A.walk_stmts(loop.body) if isinstance(s, (ast.Break, ast.Return))]
    ctx.ob("C01.D1-closing-loop-shape", cname(rm.run, None, "no break/return inside the closing loop"), not early,
           "" if not early else "the closing loop can be left before every run was visited", where=where(rm.run, loop))


def d2_run_is_open_typestate(ctx, rm: REModel):
    repo = rm.repo
    allowed = {
        f"{BCLS}.__init__": "initially closed",
        f"{BCLS}.open_run": "opened",
        f"{BCLS}.close_run": "closed after the stop document",
    }
    for f in repo.all_funcs():
        for s in A.walk_stmts(f.node.body):
            for t in A.targets_of(s):
                ch = A.chain(t) or ""
                if ch.endswith(".run_is_open"):
                    ok = f.module.name == BMOD and f.qualname in allowed and ch == "self.run_is_open"
                    ctx.ob("C01.D2-run-is-open-writers", cname(f, s), ok,
                           "" if ok else "run_is_open written outside RunBundler.__init__/open_run/close_run", where=where(f, s))
    ctx.expect("C01.D2-run-is-open-writers", 2)
    opn, cls_ = rm.b("open_run"), rm.b("close_run")
    g = q.cfg(cls_, q.quiet_policy(repo))
    # guard: `if not self.run_is_open: raise` dominates the composition and emission of the stop document
    stop_stmts = q.stmts(cls_, q.stmt_calls("_compose_stop")) + [s for s in q.stmts(cls_, q.stmt_calls("emit")) if "DocumentNames.stop" in A.norm(s)]
    ctx.require(stop_stmts, "anchor vanished: compose_stop / emit(stop) in RunBundler.close_run")
    for s in stop_stmts:
        w = q.guard_true_dominates(g, s, lambda t: "run_is_open" in A.norm(t) and isinstance(t, ast.UnaryOp), "F")
        ctx.ob("C01.D2-no-second-stop", cname(cls_, s), w is None,
               "" if w is None else "a RunStop can be composed/emitted without passing the run_is_open guard", nontrivial=True,
               witness=w, where=where(cls_, s))
    guard_raises = [s for s in A.walk_stmts(cls_.node.body) if isinstance(s, ast.If) and "run_is_open" in A.norm(s.test)
                    and any(isinstance(x, ast.Raise) and "IllegalMessageSequence" in A.norm(x) for x in s.body)]
    ctx.ob("C01.D2-no-second-stop", cname(cls_, None, "guard raises IllegalMessageSequence"), bool(guard_raises),
           "" if guard_raises else "closing a run that is not open no longer raises IllegalMessageSequence", where=where(cls_, cls_.node))
    # the flag is cleared after the stop was emitted (so a failed emission leaves the run open for the engine's cleanup)
    seq = list(A.walk_stmts(cls_.node.body))
    i_emit = next((i for i, s in enumerate(seq) if A.find_calls(s, "emit") and "DocumentNames.stop" in A.norm(s)), None)
    i_clear = next((i for i, s in enumerate(seq) if isinstance(s, ast.Assign) and A.chain(s.targets[0]) == "self.run_is_open"
                    and isinstance(s.value, ast.Constant) and s.value.value is False), None)
    ok = i_emit is not None and i_clear is not None and i_emit < i_clear
    ctx.ob("C01.D2-no-second-stop", cname(cls_, None, "run_is_open = False after emit(stop)"), ok,
           "" if ok else "run_is_open is not cleared after the stop document is emitted", where=where(cls_, cls_.node))
    # open_run sets the flag before emitting start (so a failed emission is still closed by the cleanup)
    seq = list(A.walk_stmts(opn.node.body))
    i_set = next((i for i, s in enumerate(seq) if isinstance(s, ast.Assign) and A.chain(s.targets[0]) == "self.run_is_open"
                  and isinstance(s.value, ast.Constant) and s.value.value is True), None)
    i_emit = next((i for i, s in enumerate(seq) if A.find_calls(s, "emit") and "DocumentNames.start" in A.norm(s)), None)
    ok = i_set is not None and i_emit is not None and i_set < i_emit
    ctx.ob("C01.D2-exactly-one-start", cname(opn, None, "run_is_open = True before emit(start)"), ok,
           "" if ok else "open_run no longer marks the run open before emitting the start document", where=where(opn, opn.node))
    n_start = sum(1 for f in repo.funcs_in(BMOD) for c in A.calls_in(f.node) if A.call_name(c) in ("self.emit", "self.emit_sync")
                  and c.args and A.norm(c.args[0]) == "DocumentNames.start")
    ctx.ob("C01.D2-exactly-one-start", f"{BMOD}:emit(DocumentNames.start, ...) call sites", n_start == 1,
           "" if n_start == 1 else f"{n_start} sites emit a start document (expected exactly one, in open_run)")
    n_stop = sum(1 for f in repo.funcs_in(BMOD) for c in A.calls_in(f.node) if A.call_name(c) in ("self.emit", "self.emit_sync")
                 and c.args and A.norm(c.args[0]) == "DocumentNames.stop")
    ctx.ob("C01.D2-no-second-stop", f"{BMOD}:emit(DocumentNames.stop, ...) call sites", n_stop == 1,
           "" if n_stop == 1 else f"{n_stop} sites emit a stop document (expected exactly one, in close_run)")
    # RunEngine._close_run removes the bundler after a successful close
    h = rm.handler("close_run")
    seq = list(A.walk_stmts(h.node.body))
    i_close = next((i for i, s in enumerate(seq) if A.find_calls(s, "close_run")), None)
    i_del = next((i for i, s in enumerate(seq) if isinstance(s, ast.Delete) and "self._run_bundlers" in A.norm(s)), None)
    if i_del is None:
        i_del = next((i for i, s in enumerate(seq) if A.find_calls(s, "pop") and "self._run_bundlers" in A.norm(s)), None)
    ok = i_close is not None and i_del is not None and i_close < i_del
    ctx.ob("C01.D2-no-second-stop", cname(h, None, "bundler removed after close_run"), ok,
           "" if ok else "RunEngine._close_run does not remove the bundler after closing it (the cleanup would close it again)",
           where=where(h, h.node))


def bundler_lookups(rm: REModel):
    """(command, handler, kind, test_stmt) for every registered handler that looks up self._run_bundlers by key."""
    out = []
    seen = set()
    for cmd, name in rm.registry.items():
        if name in seen:
            continue
        seen.add(name)
        h = rm.m(name)
        txt = A.norm(h.node)
        if "self._run_bundlers" not in txt:
            continue
        found = None
        prevs = prev_siblings(h.node)
        for s in A.walk_stmts(h.node.body):
            if isinstance(s, ast.If):
                sl = sentinel_lookup(s.test, prevs.get(s))
                if sl and sl[1] == "self._run_bundlers":
                    found = ("sentinel", s, sl)
                    break
                if any(isinstance(n, ast.Compare) and len(n.ops) == 1 and isinstance(n.ops[0], (ast.In, ast.NotIn)) and A.chain(n.comparators[0]) == "self._run_bundlers"
                       for n in A.walk_local(s.test)):
                    found = ("membership", s, None)
                    break
        keyed_subscript = any(isinstance(n, ast.Subscript) and A.chain(n.value) == "self._run_bundlers"
                              for n in A.walk_local(h.node))
        out.append((cmd, h, found, keyed_subscript))
    return out


def d3_guards(ctx, rm: REModel):
    n = 0
    for cmd, h, found, keyed_subscript in bundler_lookups(rm):
        iter_all = any(isinstance(s, (ast.For, ast.AsyncFor)) and "self._run_bundlers" in A.norm(s.iter)
                       for s in A.walk_stmts(h.node.body))
        if found is None:
            if not keyed_subscript:
                continue  # no lookup by run key at all: broadcast handlers (checkpoint, ...) are C14's subject
            ctx.ob("C01.D3-missing-run-guard", cname(h, None, f"handler of {cmd!r}"), False,
                   "the handler indexes self._run_bundlers without a recognisable missing-key guard", where=where(h, h.node))
            n += 1
            continue
        kind, ifstmt, sl = found
        if cmd == "open_run":
            # the reverse guard: the key must NOT be open already
            t = A.norm(ifstmt.test)
            ok = " in self._run_bundlers" in t and " not in " not in t and any(
                isinstance(x, ast.Raise) and "IllegalMessageSequence" in A.norm(x) for x in ifstmt.body)
            ctx.ob("C01.D3-missing-run-guard", cname(h, None, "duplicate run key rejected"), ok,
                   "" if ok else "open_run no longer rejects a run key that is already open", where=where(h, ifstmt))
            n += 1
            continue
        n += 1
        raises_ims = False
        if kind == "sentinel":
            branch = ifstmt.body if sl[3] == "absent" else ifstmt.orelse
            raises_ims = any(isinstance(x, ast.Raise) and "IllegalMessageSequence" in A.norm(x) or
                             (isinstance(x, ast.Raise) and isinstance(x.exc, ast.Call) and A.call_name(x.exc) == "IllegalMessageSequence")
                             for x in A.walk_stmts(branch))
        else:
            t = A.norm(ifstmt.test)
            branch = ifstmt.body if " not in " in t else ifstmt.orelse
            raises_ims = any(isinstance(x, ast.Raise) and "IllegalMessageSequence" in A.norm(x) for x in A.walk_stmts(branch))
        hname = h.qualname.split(".")[-1]
        if raises_ims:
            # the raise must dominate every use of the bundler
            g = q.cfg(h, q.quiet_policy(rm.repo))
            var = sl[0] if sl else "current_run"
            uses = [s for s in A.walk_stmts(h.node.body) if s is not ifstmt and not isinstance(s, (ast.If, ast.Try, ast.For, ast.With))
                    and any(isinstance(c.func, ast.Attribute) and A.chain(c.func.value) == var for c in A.calls_in(s))]
            bad = None
            for u in uses:
                w = q.guard_true_dominates(g, u, lambda t: t is ifstmt.test, "F" if (sl and sl[3] == "absent") or (not sl and " not in " in A.norm(ifstmt.test)) else "T")
                if w is not None:
                    bad = (u, w)
                    break
            ctx.ob("C01.D3-missing-run-guard", cname(h, None, f"handler of {cmd!r}"), bad is None,
                   "" if bad is None else f"`{A.head(bad[0])}` uses the bundler on a path that bypasses the missing-run guard",
                   nontrivial=True, witness=bad[1] if bad else None, where=where(h, ifstmt))
        elif hname in GUARD_EXCEPTIONS:
            ctx.ob("C01.D3-missing-run-guard", cname(h, None, f"handler of {cmd!r}"), True, "exception: " + GUARD_EXCEPTIONS[hname],
                   where=where(h, ifstmt))
        else:
            ctx.ob("C01.D3-missing-run-guard", cname(h, None, f"handler of {cmd!r}"), False,
                   "a message for a run that is not open is no longer rejected with IllegalMessageSequence", where=where(h, ifstmt))
    ctx.expect("C01.D3-missing-run-guard", 11)
    return n


COMPOSE_HINTS = ("compose", "pack_event_page")


def _is_compose_value(expr, g, nid, depth=0) -> bool:
    """Is the expression a document produced by an event_model compose function of this run?"""
    if expr is None or depth > 4:
        return False
    if isinstance(expr, ast.Await):
        return _is_compose_value(expr.value, g, nid, depth)
    if isinstance(expr, ast.Call):
        cn = A.chain(expr.func) or ""
        last = cn.split(".")[-1]
        if any(h in last for h in COMPOSE_HINTS):
            # validation must not be switched off
            v = A.kw(expr, "validate")
            return not (isinstance(v, ast.Constant) and v.value is False)
        return False
    if isinstance(expr, ast.Attribute) and expr.attr in ("start_doc", "descriptor_doc"):
        return _is_compose_value(expr.value, g, nid, depth + 1) or True  # attribute of a compose bundle
    if isinstance(expr, ast.Attribute):
        ch = A.chain(expr) or ""
        # instance attributes that hold compose products; their own writers are checked separately
        return ch.startswith("self._interruptions_desc") or "compose" in ch
    if isinstance(expr, ast.Subscript):
        return _is_compose_value(expr.value, g, nid, depth + 1)
    if isinstance(expr, ast.Name):
        defs = q.reaching_defs(g, nid, expr.id)
        if not defs:
            return False
        for kind, val, node in defs:
            if kind in ("param", "iter", "except", "with", "unpack"):
                return False
            if not _is_compose_value(val, g, node.id if node is not None else nid, depth + 1):
                return False
        return True
    return False


def d4_provenance(ctx, rm: REModel):
    repo = rm.repo
    n = 0
    for f in repo.funcs_in(BMOD):
        if not f.qualname.startswith(BCLS + "."):
            continue
        calls = [c for c in A.calls_in(f.node) if A.call_name(c) in ("self.emit", "self.emit_sync")]
        if not calls:
            continue
        g = q.cfg(f, q.quiet_policy(repo))
        pm = A.parents(f.node)
        for c in calls:
            n += 1
            stmt = A.enclosing_stmt(c, pm)
            nids = g.nodes_of(stmt)
            if len(c.args) < 2:
                ctx.ob("C01.D4-emit-provenance", cname(f, stmt), False, "emit without (name, doc)", where=where(f, stmt))
                continue
            doc = c.args[1]
            if f.qualname == f"{BCLS}._pack_external_assets":
                # device-supplied asset documents: must be stamped with this run's uid before emission
                txt = A.norm(f.node)
                ok = '["run_start"] = self._run_start_uid' in txt.replace("'", '"')
                ctx.ob("C01.D4-emit-provenance", cname(f, stmt), ok,
                       "asset documents come from the device; resource / stream_resource are stamped with this run's start uid" if ok
                       else "asset documents are emitted without being stamped with this run's start uid", where=where(f, stmt))
                continue
            ok = bool(nids) and all(_is_compose_value(doc, g, nid) for nid in nids)
            if isinstance(doc, ast.Attribute) and (A.chain(doc) or "").startswith("self._descriptors"):
                ok = True
            if isinstance(doc, ast.Attribute) and doc.attr == "descriptor_doc":
                ok = True
            ctx.ob("C01.D4-emit-provenance", cname(f, stmt), ok,
                   "" if ok else f"the emitted document `{A.short(doc)}` is not derived from this run's event_model compose functions",
                   nontrivial=True, where=where(f, stmt))
    ctx.expect("C01.D4-emit-provenance", 9)
    # the compose functions themselves come from this bundler's compose_run bundle
    opn = rm.b("open_run")
    txt = A.norm(opn.node)
    for attr in ("_compose_descriptor", "_compose_stop"):
        ok = f"self.{attr} = run.compose_" in txt
        ctx.ob("C01.D4-compose-bundle", cname(opn, None, f"self.{attr} from compose_run"), ok,
               "" if ok else f"self.{attr} is no longer taken from this run's compose_run bundle", where=where(opn, opn.node))
    ok = "compose_run(" in txt and "event_counters=self._sequence_counters" in txt and "uid=self._run_start_uid" in txt
    ctx.ob("C01.D4-compose-bundle", cname(opn, None, "compose_run(uid=self._run_start_uid, event_counters=self._sequence_counters)"), ok,
           "" if ok else "compose_run no longer shares this bundler's uid / sequence counters", where=where(opn, opn.node))
    # nobody else assigns the compose functions
    for f in repo.all_funcs():
        for s in A.walk_stmts(f.node.body):
            for t in A.targets_of(s):
                ch = A.chain(t) or ""
                if ch in ("self._compose_descriptor", "self._compose_stop") and f.key != opn.key:
                    ctx.ob("C01.D4-compose-bundle", cname(f, s), False, "compose function of a run replaced outside open_run", where=where(f, s))


def run(ctx):
    rm = REModel(ctx.repo)
    tail = RunTail(rm)
    ctx.explanation = (
        "Decided: D1 every exit path of RunEngine._run (incl. CancelledError/Exception edges) completes the loop that "
        "emits RunStop for every open run; D2 typestate of RunBundler.run_is_open (one start site, one stop site, guard "
        "dominates the stop, flag order, bundler removed after close); D3 every command handler that looks a run up by "
        "key rejects a missing run before touching the bundler (2 documented exceptions); D4 every document emitted by "
        "the bundler derives from this run's event_model compose bundle (reaching definitions). "
        "Not decided: uid uniqueness (runtime uuid4), schema validity of device-supplied assets, document order under real schedules.")
    ctx.assume("event_model compose functions validate and link documents (trusted library)")
    d1_runs_closed_on_every_exit(ctx, rm, tail)
    d2_run_is_open_typestate(ctx, rm)
    d3_guards(ctx, rm)
    d4_provenance(ctx, rm)
    from . import c06
    c06.bundler_forgotten_only_after_successful_close(ctx, rm, "C01.D2-forgotten-only-after-successful-close")
    # nothing after the stop: a monitor is the one emitter that is not driven by the plan; it must be gone (or close_run must fail) before the stop
    from . import c41

    c41.monitor_forgotten_only_after_unsubscribed(ctx, rm, "C01.D2-no-monitor-events-after-stop")
    # the RunStop a control exception asks for can actually be composed
    from . import c02

    c02.control_exception_statuses_legal(ctx, rm, "C01.D1-stop-status-legal")
    ctx.extra.update(tail.g.stats())


CLAIM = {'text': "Decides four structural clauses behind 'every run is a well-formed stream': every exit path of RunEngine._run, including CancelledError and Exception edges, completes the loop that emits RunStop for every open run; RunBundler.run_is_open is a two-state typestate with one start site and one guarded stop site; every run-keyed command handler rejects a missing run before touching a bundler; every emitted document derives from the run's own event_model compose bundle. Also: every control-exception class carries an exit_status RunStop accepts (otherwise run_wrapper's close fails after the stop was latched). Today's tree has three F-1 known findings (cancellation inside the cleanup). uid uniqueness and schema validity of device-supplied assets are not decided.", 'technique': 'must-pass-through on a CFG with exceptional edges; typestate of run_is_open; guard dominance; reaching-definitions provenance'}


RE = "run_engine.py"
BU = "bundlers.py"
MUTANTS = [
    ("FailedPause made a control exception with a status RunStop does not have (seed C01-c)",
     [("utils/__init__.py", "class FailedPause(Exception):\n    pass\n", "class FailedPause(RunEngineControlException):\n    exit_status = \"aborted\"\n")], "C01.D1"),
    ("new control exception with an illegal status",
     [("utils/__init__.py", "class RunEngineInterrupted(Exception):\n    pass\n", "class RequestHalt(RequestStop):\n    exit_status = \"halted\"\n\n\nclass RunEngineInterrupted(Exception):\n    pass\n")], "C01.D1"),
    ("cleanup stops closing runs after the first failure",
     [(RE, '                    except Exception:\n                        self.log.error("Failed to close run %r.", current_run)',
       '                    except Exception:\n                        self.log.error("Failed to close run %r.", current_run)\n                        break')],
     "C01.D1"),
    ("cleanup closes runs without checking run_is_open",
     [(RE, "                if current_run.run_is_open:\n                    try:\n                        await current_run.close_run(",
       "                if True:\n                    try:\n                        await current_run.close_run(")],
     "C01.D1"),
    ("an unstage failure in the cleanup skips closing the runs",
     [(RE, '                try:\n                    obj.unstage()\n                except Exception:\n                    self.log.exception("Failed to unstage %r.", obj)\n                self._staged.remove(obj)',
       '                obj.unstage()\n                self._staged.remove(obj)')],
     "C01.D1"),
    ("'save' for a run that is not open is silently ignored",
     [(RE, '            ims_msg = "A \'save\' message was sent but no run is open."\n            raise IllegalMessageSequence(ims_msg)',
       '            ims_msg = "A \'save\' message was sent but no run is open."\n            return None')],
     "C01.D3"),
    ("'collect' uses the only open run when the key is missing",
     [(RE, '            ims_msg = "A \'collect\' message was sent but no run is open."\n            raise IllegalMessageSequence(ims_msg)',
       '            current_run = next(iter(self._run_bundlers.values()))')],
     "C01.D3"),
    ("close_run forgets to clear run_is_open",
     [(BU, "        await self.reset_checkpoint_state_coro()\n        self.run_is_open = False\n        return doc[\"run_start\"]",
       "        await self.reset_checkpoint_state_coro()\n        return doc[\"run_start\"]")],
     "C01.D2"),
    ("close_run of a closed run emits a second stop",
     [(BU, "        if not self.run_is_open:\n            raise IllegalMessageSequence(\n                \"A 'close_run' message was received but there is no run \"",
       "        if not self.run_is_open and self._md is None:\n            raise IllegalMessageSequence(\n                \"A 'close_run' message was received but there is no run \"")],
     "C01.D2"),
    ("RunEngine._close_run keeps the closed bundler registered",
     [(RE, "        ret = await current_run.close_run(msg)\n        del self._run_bundlers[run_key]\n", "        ret = await current_run.close_run(msg)\n")],
     "C01.D2"),
    ("open_run marks the run open only after emitting start",
     [(BU, "        self.run_is_open = True\n        self._run_start_uid = new_uid()", "        self._run_start_uid = new_uid()"),
      (BU, "        await self.emit(DocumentNames.start, doc)\n", "        await self.emit(DocumentNames.start, doc)\n        self.run_is_open = True\n")],
     "C01.D2"),
    ("save emits a hand-built event",
     [(BU, "        event_doc = compose_event(\n            data=data,\n            timestamps=timestamps,\n            filled=filled,\n        )",
       "        event_doc = dict(\n            data=data,\n            timestamps=timestamps,\n            filled=filled,\n        )")],
     "C01.D4"),
    ("stop document composed with validation switched off",
     [(BU, "        doc = self._compose_stop(\n            exit_status=exit_status,\n            reason=reason,\n        )",
       "        doc = self._compose_stop(\n            exit_status=exit_status,\n            reason=reason,\n            validate=False,\n        )")],
     "C01.D4"),
    ("run_is_open toggled by the engine",
     [(RE, "        ret = await current_run.close_run(msg)\n", "        ret = await current_run.close_run(msg)\n        current_run.run_is_open = True\n")],
     "C01.D2"),
    ("monitor events built from the raw readings",
     [(BU, "            doc = compose_event(\n                data=data,\n                timestamps=timestamps,\n            )\n            self.emit_sync(DocumentNames.event, doc)",
       "            doc = {\"data\": data, \"timestamps\": timestamps}\n            self.emit_sync(DocumentNames.event, doc)")],
     "C01.D4"),
]
BENIGN = [
    ("new control exception with a legal status", [("utils/__init__.py", "class RunEngineInterrupted(Exception):\n    pass\n", "class RequestFail(RunEngineControlException):\n    exit_status = \"fail\"\n\n\nclass RequestFail2(RequestFail):\n    pass\n\n\nclass RunEngineInterrupted(Exception):\n    pass\n")]),
    ("membership test instead of the sentinel lookup in _save",
     [(RE, '        if (\n            current_run := self._run_bundlers.get(run_key, key_absence_sentinel := object())\n        ) is key_absence_sentinel:\n            # sanity check',
       '        if run_key not in self._run_bundlers:\n            # sanity check'),
      (RE, "        else:\n            await current_run.save(msg)", "        else:\n            current_run = self._run_bundlers[run_key]\n            await current_run.save(msg)")]),
    ("rename the stop document local",
     [(BU, "        doc = self._compose_stop(\n            exit_status=exit_status,\n            reason=reason,\n        )\n        await self.emit(DocumentNames.stop, doc)",
       "        stop_doc = self._compose_stop(\n            exit_status=exit_status,\n            reason=reason,\n        )\n        await self.emit(DocumentNames.stop, stop_doc)"),
      (BU, '        self.run_is_open = False\n        return doc["run_start"]', '        self.run_is_open = False\n        return stop_doc["run_start"]')]),
    ("logging added to the closing loop",
     [(RE, "            for key, current_run in self._run_bundlers.items():\n                if current_run.run_is_open:",
       "            for key, current_run in self._run_bundlers.items():\n                self.log.debug(\"closing %r\", key)\n                if current_run.run_is_open:")]),
]
