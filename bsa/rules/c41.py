"""C41 - monitors report only while their run is open and running."""

from __future__ import annotations

import ast

from .. import astutil as A
from .. import cfg as C
from .. import q
from ..bidioms import broadcast_loops
from ..idioms import cname, where
from ..re_model import BCLS, BMOD, CLS, MOD, REModel
from . import c05


def suspend_depth_protocol(ctx, rm: REModel, rule):
    """Interruptions nest (a pause inside a suspension, two suspenders): monitors must stay unsubscribed until the LAST
    enclosing interruption is over and be re-subscribed exactly once.  Reference: n = number of open interruptions
    (suspend: n+1, restore: n-1, restore at 0 is a no-op); subscribed iff n == 0.  The two methods are interpreted
    (bsa/miniexec.py) from every attribute valuation reached, over all words of suspend / restore calls up to length 6."""
    import itertools

    from .. import miniexec
    from ..idioms import self_attr_writes

    sm, rs = rm.b("suspend_monitors"), rm.b("restore_monitors")
    attrs = sorted({a for f in (sm, rs) for s, a, k in self_attr_writes(f.node)})
    init = {}
    cls_funcs = [f for f in rm.repo.funcs_in("bluesky.bundlers") if f.qualname.startswith("RunBundler.")]
    for a in attrs:
        vals = {s.value.value for f in cls_funcs if f.qualname.split(".")[-1] in ("__init__", "open_run") for s in A.walk_stmts(f.node.body)
                if isinstance(s, ast.Assign) and A.chain(s.targets[0]) == f"self.{a}" and isinstance(s.value, ast.Constant)}
        if len(vals) == 1:
            init[a] = vals.pop()  # attributes without a constant scalar initial value (collections) are not part of the counter state
    bad = None
    n_words = 0
    for length in range(1, 7):
        for word in itertools.product("SR", repeat=length):
            n_words += 1
            state, n, sub = dict(init), 0, True
            for i, w in enumerate(word):
                eff = miniexec.run_method((sm if w == "S" else rs).node, state, ("clear_sub", "subscribe"))
                n = n + 1 if w == "S" else max(n - 1, 0)
                for e in eff:
                    if e == "clear_sub":
                        sub = False
                    elif e == "subscribe":
                        if sub and bad is None:
                            bad = ("".join(word[: i + 1]), "monitors are subscribed a second time", dict(state))
                        sub = True
                if bad is None and sub != (n == 0):
                    bad = ("".join(word[: i + 1]), f"after this call sequence {n} interruption(s) are still open but the monitors are "
                           f"{'subscribed' if sub else 'not subscribed'}", dict(state))
            if bad:
                break
        if bad:
            break
    ok = bad is None
    ctx.ob(rule, cname(sm, None, f"suspend / restore count nested interruptions (all {n_words} call words up to length 6)"), ok,
           "" if ok else f"call word {bad[0]} (S = suspend_monitors, R = restore_monitors): {bad[1]}; attributes then {bad[2]}",
           nontrivial=True, witness=None if ok else [f"word {bad[0]}", bad[1], f"state {bad[2]}"], where=where(sm, sm.node))


def d1_suspend_restore_pairing(ctx, rm: REModel, rule="C41.D1-suspend-restore-paired"):
    repo = rm.repo
    run = rm.run
    # (a) pause path: inside the pause block, suspend before 'paused', restore after the permit wait
    pb = rm.pause_block
    seq = list(A.walk_stmts(pb.body))
    i_sus = next((i for i, s in enumerate(seq) if s in broadcast_loops(ast.Module(body=pb.body, type_ignores=[]), "suspend_monitors")), None)
    i_paused = next((i for i, s in enumerate(seq) if rm.is_state_write(s, "paused")), None)
    i_wait = next((i for i, s in enumerate(seq) if A.find_calls(s, "self._run_permit.wait") and not isinstance(s, (ast.If, ast.For))), None)
    i_res = next((i for i, s in enumerate(seq) if s in broadcast_loops(ast.Module(body=pb.body, type_ignores=[]), "restore_monitors")), None)
    ok = None not in (i_sus, i_paused, i_wait, i_res) and i_sus < i_paused < i_wait < i_res
    ctx.ob(rule, cname(run, None, "pause block: suspend every run's monitors before 'paused', restore them after the wait"), ok,
           "" if ok else "monitors keep reporting while paused, or are not re-instated after the pause", nontrivial=True, where=where(run, pb))
    # (b) suspension path: _start_suspender suspends; the helper plan it pushes sends '_resume_from_suspender' whose handler restores
    ss = rm.handler("_start_suspender")
    sus = broadcast_loops(ss.node, "suspend_monitors")
    ctx.ob(rule, cname(ss, None, "suspension: every run's monitors suspended when the suspension starts"), bool(sus),
           "" if sus else "monitors keep reporting during a suspension and are subscribed a second time when it is released", nontrivial=True, where=where(ss, ss.node))
    if sus:
        seq = list(A.walk_stmts(ss.node.body))
        i_sus = seq.index(sus[0])
        i_push = next((i for i, s in enumerate(seq) if A.find_calls(s, "self._plan_stack.append") and not isinstance(s, (ast.If, ast.For, ast.FunctionDef))), None)
        ok = i_push is not None and i_sus < i_push
        ctx.ob(rule, cname(ss, None, "suspended before the helper plan is pushed"), ok, "" if ok else "the helper plan can run before monitors are suspended", where=where(ss, ss.node))
    rh = rm.handler("_resume_from_suspender")
    res = broadcast_loops(rh.node, "restore_monitors")
    ctx.ob(rule, cname(rh, None, "release: every run's monitors restored"), bool(res), "" if res else "monitors are not re-instated after a suspension", where=where(rh, rh.node))
    helper = repo.func(MOD, f"{CLS}._start_suspender.suspender_helper_inner_plan")
    cmds = A.yielded_commands(helper.node)
    ok = "_resume_from_suspender" in cmds and "wait_for" in cmds and cmds.index("wait_for") < cmds.index("_resume_from_suspender")
    ctx.ob(rule, cname(helper, None, "restore happens after the suspension wait"), ok, "" if ok else f"helper commands {cmds}", where=where(helper, helper.node))
    # (c) no other call sites
    n_s = n_r = 0
    for f in repo.funcs_in(MOD):
        for c in A.calls_in(f.node):
            if isinstance(c.func, ast.Attribute) and c.func.attr == "suspend_monitors":
                n_s += 1
                ok = f.qualname in (f"{CLS}._run", f"{CLS}._start_suspender")
                ctx.ob(rule, cname(f, c), ok, "" if ok else "unpaired suspend_monitors call site", where=where(f, c))
            if isinstance(c.func, ast.Attribute) and c.func.attr == "restore_monitors":
                n_r += 1
                ok = f.qualname in (f"{CLS}._run", f"{CLS}._resume")
                ctx.ob(rule, cname(f, c), ok, "" if ok else "unpaired restore_monitors call site", where=where(f, c))
    ctx.ob(rule, f"{MOD}:suspend/restore call sites balance", n_s == n_r,
           f"{n_s} suspend sites, {n_r} restore sites" , where="")
    # (d) the bundler never subscribes on restore without a matching suspend (nested interruptions)
    sm, rs = rm.b("suspend_monitors"), rm.b("restore_monitors")
    written = {a for s, a, k in __import__("bsa.idioms", fromlist=["x"]).self_attr_writes(sm.node)}
    subs = [s for s in A.walk_stmts(rs.node.body) if isinstance(s, (ast.For, ast.AsyncFor)) and A.method_calls(s, "subscribe")]
    ok = False
    if subs:
        g = q.cfg(rs, q.quiet_policy(repo))
        tests = [q.expand_at(g, n.id, n.ast) for n in g.nodes if n.kind == "test"]  # locals followed back to the attribute they were read from
        guards = {a for t in tests for a in written if f"self.{a}" in A.norm(t)}
        ok = bool(guards)
    ctx.ob(rule, cname(rs, None, "re-subscription guarded by state that suspend_monitors records"), ok,
           "" if ok else "restore_monitors subscribes unconditionally: a restore that is not preceded by a suspend (or nested interruptions) "
           "duplicates every monitor subscription", nontrivial=True, where=where(rs, rs.node))
    # (e) the suspend / restore pair counts nesting: evaluated exactly on every call word up to length 6
    suspend_depth_protocol(ctx, rm, rule)
    clears = [s for s in A.walk_stmts(sm.node.body) if isinstance(s, (ast.For, ast.AsyncFor)) and A.method_calls(s, "clear_sub") and "self._monitor_params" in A.norm(s.iter)]
    keeps = not any(isinstance(s, ast.Delete) for s in A.walk_stmts(sm.node.body))
    ctx.ob(rule, cname(sm, None, "clears every subscription but keeps the parameters"), bool(clears) and keeps,
           "" if (clears and keeps) else "suspend_monitors no longer removes the callbacks / forgets them", where=where(sm, sm.node))
    ok = bool(subs) and "self._monitor_params" in A.norm(subs[0].iter)
    ctx.ob(rule, cname(rs, None, "re-subscribes exactly the kept entries"), ok, "" if ok else "restore does not re-subscribe the kept monitors", where=where(rs, rs.node))


def _forgets_monitor(n) -> bool:
    """a CFG node whose statement removes entries from self._monitor_params"""
    s = n.stmt
    if s is None or n.kind != "stmt":
        return False
    if isinstance(s, ast.Delete) and any(isinstance(t, ast.Subscript) and A.chain(t.value) == "self._monitor_params" for t in s.targets):
        return True
    return any(isinstance(c.func, ast.Attribute) and c.func.attr in ("pop", "popitem", "clear") and A.chain(c.func.value) == "self._monitor_params"
               for c in A.calls_in(s))


def monitor_forgotten_only_after_unsubscribed(ctx, rm: REModel, rule: str):
    """_monitor_params is the only record of the subscriptions the engine still owes the devices.  In every function that
    removes entries (unmonitor, close_run, clear_monitors):  (1) an entry is removed only after clear_sub on that path returned
    normally - if clear_sub raises, the entry must still be there for the later cleanup to retry;  (2) in close_run a clear_sub
    failure must leave the function before the stop document is composed (not be swallowed): otherwise the run is closed while
    a monitor can still emit events into it."""
    pol = rm.policy().for_class(BMOD, BCLS)
    for nm in ("unmonitor", "close_run", "clear_monitors"):
        f = rm.b(nm)
        g = C.build(f, pol)
        forget = [n for n in g.nodes if _forgets_monitor(n)]
        delegated = [n for n in g.nodes if n.stmt is not None and n.kind == "stmt" and nm != "clear_monitors" and A.find_calls(n.stmt, "self.clear_monitors")]
        ok = bool(forget) or bool(delegated)
        ctx.ob(rule, cname(f, None, "forgets the entries it unsubscribed"), ok,
               "" if ok else "the entry is never removed: the bundler keeps re-instating the subscription", where=where(f, f.node))
        def is_unsub(n):
            return n.stmt is not None and n.kind == "stmt" and bool(A.method_calls(n.stmt, "clear_sub"))
        for n in forget:
            # (1a) not reachable from the entry without a clear_sub
            seen = g.reachable([g.entry], avoid=is_unsub)
            early = n.id in seen
            # (1b) not reachable from an exceptional exit of clear_sub without another (successful) clear_sub
            exc_succ = [v for u in g.nodes if is_unsub(u) for v, lab in g.succ[u.id] if isinstance(lab, tuple)]
            seen2 = g.reachable(exc_succ, avoid=is_unsub) if exc_succ else {}
            after_failure = n.id in seen2 and not (isinstance(n.stmt, ast.Delete) and is_unsub(n))
            ok = not early and not after_failure
            ctx.ob(rule, cname(f, n.stmt), ok,
                   "" if ok else ("the entry is forgotten before clear_sub was called" if early else "the entry is forgotten although clear_sub failed")
                   + ": if the device's clear_sub raises, nothing is left for the engine's cleanup to retry and the device keeps the subscription",
                   nontrivial=True, where=where(f, n.stmt))
    # (2) close_run: a failing clear_sub leaves close_run before the stop is composed
    cr = rm.b("close_run")
    g = C.build(cr, pol)
    unsub = [n for n in g.nodes if n.stmt is not None and n.kind == "stmt" and (A.method_calls(n.stmt, "clear_sub") or A.find_calls(n.stmt, "self.clear_monitors"))
             and not isinstance(n.stmt, (ast.For, ast.If, ast.While, ast.Try, ast.With))]
    ok = bool(unsub)
    ctx.ob(rule, cname(cr, None, "close_run unsubscribes the run's monitors"), ok, "" if ok else "monitors outlive the run", where=where(cr, cr.node))
    stop_nodes = [n.id for n in g.nodes if n.stmt is not None and n.kind == "stmt" and A.find_calls(n.stmt, "_compose_stop")]
    ctx.require(stop_nodes, "anchor vanished: _compose_stop call in RunBundler.close_run")
    for n in unsub:
        escapes = False
        for v, lab in g.succ[n.id]:
            if isinstance(lab, tuple) and lab[0] == "exc" and lab[1] in ("Exception", "BaseException"):
                seen = g.reachable([v], avoid=lambda x: x.id in stop_nodes)
                if g.raise_exit in seen or v == g.raise_exit:
                    escapes = True
        ctx.ob(rule, cname(cr, n.stmt) + " failure leaves close_run", escapes,
               "" if escapes else "a failing clear_sub is swallowed: the stop document is composed and the bundler dropped while the device still holds the "
               "monitor callback - it keeps emitting events into the closed run", nontrivial=True, where=where(cr, n.stmt))
    # and every path to the stop passed the unsubscription
    w = g.must_pass([g.entry], lambda x: any(x.id == u.id for u in unsub) or (x.stmt is not None and isinstance(x.stmt, ast.For) and bool(A.method_calls(x.stmt, "clear_sub"))),
                    exits=stop_nodes)
    ctx.ob(rule, cname(cr, None, "monitors removed before the stop document is composed"), w is None,
           "" if w is None else "a monitor can emit an event after the RunStop was composed (num_events would miss it)", witness=w[-6:] if w else None, where=where(cr, cr.node))


def d2_removal_sites(ctx, rm: REModel):
    monitor_forgotten_only_after_unsubscribed(ctx, rm, "C41.D2-subscription-removed")
    um = rm.b("unmonitor")
    # membership test, or a `.get(obj)` looked up once and compared with None
    g = []
    for s in A.walk_stmts(um.node.body):
        if isinstance(s, ast.If) and any(isinstance(x, ast.Raise) for x in s.body):
            t = A.norm(q.expand(um.node, s.test, keep=("obj",)))
            if "not in self._monitor_params" in t or t in ("self._monitor_params.get(obj) is None", "self._monitor_params.get(obj, None) is None"):
                g.append(s)
    ctx.ob("C41.D2-subscription-removed", cname(um, None, "unmonitor of an unmonitored object is rejected"), bool(g), "" if g else "guard missing", where=where(um, um.node))
    mon = rm.b("monitor")
    g = [s for s in A.walk_stmts(mon.node.body) if isinstance(s, ast.If) and "in self._monitor_params" in A.norm(s.test) and any(isinstance(x, ast.Raise) for x in s.body)]
    ctx.ob("C41.D2-subscription-removed", cname(mon, None, "double monitor is rejected"), bool(g),
           "" if g else "monitoring an object twice overwrites the recorded callback: the first subscription can never be removed", where=where(mon, mon.node))
    q.check_writers(ctx, "C41.D2-monitor-params-writers", rm.repo, "_monitor_params",
                    {f"{BCLS}.__init__": "created", f"{BCLS}.monitor": "record", f"{BCLS}.unmonitor": "forget", f"{BCLS}.close_run": "forget",
                     f"{BCLS}.clear_monitors": "forget"}, modules=[BMOD], min_instances=4)
    # the engine calls the bundler on unmonitor / in cleanup (C06.D1 decides that the cleanup is reached)
    h = rm.handler("unmonitor")
    ok = bool(A.find_calls(h.node, "current_run.unmonitor"))
    ctx.ob("C41.D2-subscription-removed", cname(h, None, "delegates to the run's bundler"), ok, "" if ok else "unmonitor no longer reaches the bundler", where=where(h, h.node))
    # (ordering against the stop document: decided in monitor_forgotten_only_after_unsubscribed)

def run(ctx):
    rm = REModel(ctx.repo)
    ctx.explanation = (
        "Decided: D1 every restore of monitors is paired with a suspend on the same interruption path (pause block ordering; "
        "suspension start / release handlers and the helper plan), call sites balance, and the bundler's re-subscription is guarded by "
        "state recorded at suspension (no double subscription under nested interruptions); D2 unmonitor, close_run and the cleanup "
        "clear the device subscription and forget the entry, double monitor / unmonitor of unknown objects are rejected, monitors are "
        "removed before the stop is composed; D3 monitor streams keep their numbering across rewinds (C05.D1). "
        "Not decided: device callback delivery, thread timing of updates.")
    d1_suspend_restore_pairing(ctx, rm)
    d2_removal_sites(ctx, rm)
    c05.d1_unreplayed_streams_keep_numbers(ctx, rm, streams=("monitor",), rule="C41.D3-monitor-streams-keep-counters")


CLAIM = {
    "text": "Decides the pairing discipline behind 'monitors report only while the run is open and running': suspend/restore are paired on the "
            "pause path and on the suspension path and the bundler cannot double-subscribe; every removal site clears the device "
            "subscription and forgets the entry before the stop document is composed; monitor streams keep their numbering across rewinds. "
            "Delivery of device callbacks and thread timing are not decided.",
    "technique": "acquire/release pairing over call sites and statement order; guard provenance; ownership table",
}

RE = "run_engine.py"
BU = "bundlers.py"
MUTANTS = [
    ("suspend depth saturates at one (seed C41-a)", [("bundlers.py", "        self._monitor_suspend_depth += 1\n        if self._monitor_suspend_depth > 1:\n            # already suspended by an enclosing interruption\n            return", "        if self._monitor_suspend_depth > 0:\n            # already suspended by an enclosing interruption\n            return\n        self._monitor_suspend_depth += 1")], "C41.D1"),
    ("restore re-subscribes while an outer interruption is open", [("bundlers.py", "        self._monitor_suspend_depth -= 1\n        if self._monitor_suspend_depth > 0:\n            return\n", "        self._monitor_suspend_depth -= 1\n")], "C41.D1"),

    ("suspension no longer suspends monitors (revert of the F-4 fix)",
     [(RE, "        for current_run in self._run_bundlers.values():\n            await current_run.suspend_monitors()\n        # During suspend, all motors should be stopped.", "        # During suspend, all motors should be stopped.")], "C41.D1"),
    ("restore subscribes unconditionally (revert of the depth guard)",
     [(BU, "        if self._monitor_suspend_depth == 0:\n            # nothing was suspended; subscribing again would duplicate the callbacks\n            return\n        self._monitor_suspend_depth -= 1\n        if self._monitor_suspend_depth > 0:\n            return\n", "")], "C41.D1"),
    ("pause block restores before waiting",
     [(RE, "                    await self._run_permit.wait()\n                    # Restore any monitors\n                    for current_run in self._run_bundlers.values():\n                        await current_run.restore_monitors()\n",
       "                    # Restore any monitors\n                    for current_run in self._run_bundlers.values():\n                        await current_run.restore_monitors()\n                    await self._run_permit.wait()\n")], "C41.D1"),
    ("unmonitor forgets to clear the device subscription",
     [(BU, "        cb, kwargs = self._monitor_params[obj]\n        obj.clear_sub(cb)\n        del self._monitor_params[obj]", "        cb, kwargs = self._monitor_params[obj]\n        del self._monitor_params[obj]")], "C41.D2"),
    ("close_run keeps the monitor entries",
     [(BU, "            obj.clear_sub(cb)\n            del self._monitor_params[obj]\n        reason = msg.kwargs.get(\"reason\", None)", "            obj.clear_sub(cb)\n        reason = msg.kwargs.get(\"reason\", None)")], "C41.D2"),
    ("double monitor silently replaces the callback",
     [(BU, "        if obj in self._monitor_params:\n            raise IllegalMessageSequence(f\"A 'monitor' message was sent for {obj} which is already monitored\")\n", "")], "C41.D2"),
    ("monitor stream rolled back on rewind", [(BU, "        self._unreplayed_streams.add(name)\n", "")], "C41.D3"),
    ("release restores only the first run",
     [(RE, "        # Re-instate monitoring callbacks.\n        for current_run in self._run_bundlers.values():\n            await current_run.restore_monitors()", "        # Re-instate monitoring callbacks.\n        for current_run in list(self._run_bundlers.values())[:1]:\n            await current_run.restore_monitors()")], "C41.D1"),
    ("suspend_monitors drops the parameters",
     [(BU, "        for obj, (cb, kwargs) in self._monitor_params.items():  # noqa: B007\n            obj.clear_sub(cb)\n\n    async def restore_monitors", "        for obj, (cb, kwargs) in list(self._monitor_params.items()):  # noqa: B007\n            obj.clear_sub(cb)\n            del self._monitor_params[obj]\n\n    async def restore_monitors")], ["C41.D1", "C41.D2"]),
    ("stop composed before monitors are removed",
     [(BU, "        # Clear any uncleared monitoring callbacks.\n        for obj, (cb, kwargs) in list(self._monitor_params.items()):  # noqa: B007\n            obj.clear_sub(cb)\n            del self._monitor_params[obj]\n        reason = msg.kwargs.get(\"reason\", None)", "        reason = msg.kwargs.get(\"reason\", None)"),
      (BU, "        await self.emit(DocumentNames.stop, doc)\n", "        await self.emit(DocumentNames.stop, doc)\n        for obj, (cb, kwargs) in list(self._monitor_params.items()):  # noqa: B007\n            obj.clear_sub(cb)\n            del self._monitor_params[obj]\n")], "C41.D2"),
]
MUTANTS += [
    # was listed as benign until seed C41-a showed that interruptions nest (a pause inside a suspension): with a flag the inner
    # resume re-subscribes the monitors while the outer suspension is still open
    ("boolean flag instead of a depth counter",
     [(BU, "        self._monitor_suspend_depth += 1\n        if self._monitor_suspend_depth > 1:\n            # already suspended by an enclosing interruption\n            return\n", "        if self._monitor_suspend_depth:\n            return\n        self._monitor_suspend_depth = 1\n"),
      (BU, "        self._monitor_suspend_depth -= 1\n        if self._monitor_suspend_depth > 0:\n            return\n", "        self._monitor_suspend_depth = 0\n")], "C41.D1"),
]
BENIGN = [
    ("depth counter written with explicit comparisons",
     [(BU, "        self._monitor_suspend_depth += 1\n        if self._monitor_suspend_depth > 1:\n            # already suspended by an enclosing interruption\n            return\n", "        self._monitor_suspend_depth = self._monitor_suspend_depth + 1\n        if self._monitor_suspend_depth != 1:\n            return\n"),
      (BU, "        self._monitor_suspend_depth -= 1\n        if self._monitor_suspend_depth > 0:\n            return\n", "        self._monitor_suspend_depth -= 1\n        if not self._monitor_suspend_depth == 0:\n            return\n")]),
]
