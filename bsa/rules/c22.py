"""C22 - cleanup wrappers run their cleanup exactly once on every exit path."""

from __future__ import annotations

import ast

from .. import astutil as A
from .. import q
from ..idioms import cname, where
from ..wrappers import WrapperModel

PP = "bluesky.preprocessors"

WRAPPERS = [
    ("finalize_wrapper", {"plan": "plan", "final": {"final_plan_instance"}}, ["pause_for_debug"]),
    ("finalize_decorator.dec.dec_inner", {"plan": "plan", "final": {"final_plan_instance"}}, []),
    ("contingency_wrapper", {"plan": "plan", "except": "except_plan", "else": "else_plan", "final": {"final_plan"}},
     ["pause_for_debug", "except_plan", "else_plan", "final_plan", "auto_raise"]),
]


def check_wrapper(ctx, repo, qual, roles, bool_params, rule_prefix="C22"):
    f = repo.func(PP, qual)
    m = WrapperModel(repo, q.hier(repo), f, roles, bool_params)
    kinds = sorted(set(m.atoms.values()))
    ctx.ob(f"{rule_prefix}.D1-atoms-recognised", cname(f, None, "wrapped plan and final plan atoms"), "PLAN" in kinds and "FINAL" in kinds,
           f"atoms: {kinds}" if ("PLAN" in kinds and "FINAL" in kinds) else f"the wrapper no longer delegates to the wrapped plan / final plan (atoms {kinds})",
           where=where(f, f.node))
    n_states = 0
    for params, exits, before_final in m.run():
        has_final = params.get("final_plan", True)
        has_exc = "except" in roles and params.get("except_plan", True)
        has_else = "else" in roles and params.get("else_plan", True)
        auto_raise = params.get("auto_raise", True)
        ptxt = ",".join(f"{k}={v}" for k, v in sorted(params.items())) or "-"
        for kind, node, s in exits:
            n_states += 1
            exp_final = 1 if has_final else 0
            problems = []
            if s.hexc:
                # an Exception left the except / else plan: Python's try statement would still run the finally clause, once
                if s.final != exp_final:
                    problems.append(f"cleanup ran {s.final} time(s) although an exception escaped the {'except' if s.outcome == 'Exception' else 'else'} plan "
                                    f"(thrown in by a stop / abort, or raised by that plan), expected {exp_final}")
                if kind != ("raise", "Exception"):
                    problems.append(f"the exception that escaped the handler plan is not propagated (wrapper ends with {kind})")
            elif s.outcome == "GeneratorExit":
                if kind != ("raise", "GeneratorExit"):
                    problems.append(f"a closed wrapper ends with {kind} instead of re-raising GeneratorExit")
                if s.final or s.exc or s.els or s.pause:
                    problems.append("a plan is yielded from while the wrapper is being closed (final/except/else/pause atom executed)")
            elif s.outcome == "returned":
                if kind != "return":
                    problems.append(f"normal completion of the wrapped plan ends with {kind}")
                if s.final != exp_final:
                    problems.append(f"cleanup ran {s.final} time(s) after normal completion, expected {exp_final}")
                if s.exc:
                    problems.append("the except plan ran although the wrapped plan did not raise")
                if s.els != (1 if has_else else 0):
                    problems.append(f"the else plan ran {s.els} time(s) after normal completion")
            elif s.outcome == "Exception":
                if s.final != exp_final:
                    problems.append(f"cleanup ran {s.final} time(s) after an exception, expected {exp_final}")
                if s.exc != (1 if has_exc else 0):
                    problems.append(f"the except plan ran {s.exc} time(s) for an Exception")
                if s.els:
                    problems.append("the else plan ran although the wrapped plan raised")
                want = "return" if (has_exc and not auto_raise) else ("raise", "Exception")
                if kind != want:
                    problems.append(f"after an Exception the wrapper ends with {kind}, expected {want}")
            elif s.outcome == "KeyboardInterrupt":
                if s.final != exp_final:
                    problems.append(f"cleanup ran {s.final} time(s) after a non-Exception BaseException, expected {exp_final}")
                if s.exc or s.els:
                    problems.append("except/else plan ran for a BaseException that is not an Exception")
                if kind != ("raise", "KeyboardInterrupt"):
                    problems.append(f"a BaseException is not propagated (wrapper ends with {kind})")
            else:  # the wrapped plan never started
                if s.final or s.exc or s.els:
                    problems.append("cleanup / except / else ran although the wrapped plan never started")
            ctx.ob(f"{rule_prefix}.D1-exit-obligations", f"{f.key}:[{ptxt}] plan->{s.outcome}{' handler-plan->Exception' if s.hexc else ''} exit {kind if isinstance(kind, str) else kind[1]}",
                   not problems, "; ".join(problems), nontrivial=True, where=where(f, node.stmt if node.stmt is not None else f.node))
        for s in before_final:
            problems = []
            if s.final:
                problems.append("the final plan is started a second time")
            if s.outcome == "Exception" and has_exc and s.exc != 1:
                problems.append("the final plan starts before the except plan ran")
            if s.outcome == "returned" and has_else and s.els != 1:
                problems.append("the final plan starts before the else plan ran")
            if s.outcome == "none":
                problems.append("the final plan starts before the wrapped plan")
            ctx.ob(f"{rule_prefix}.D1-final-last", f"{f.key}:[{ptxt}] plan->{s.outcome} at the final atom", not problems, "; ".join(problems),
                   nontrivial=True, where=where(f, f.node))
    # return value preservation
    rets = [s for s in A.walk_stmts(f.node.body) if isinstance(s, ast.Return)]
    ret_names = {A.norm(r.value) for r in rets if r.value is not None}
    ok = ret_names == {"ret"}
    ctx.ob(f"{rule_prefix}.D1-return-value", cname(f, None, "returns `ret`"), ok, "" if ok else f"returns {sorted(ret_names)}", where=where(f, f.node))
    for s in A.walk_stmts(f.node.body):
        if isinstance(s, ast.Assign) and A.norm(s.targets[0]) == "ret":
            a = [n for n in A.walk_local(s.value) if isinstance(n, ast.YieldFrom)]
            src = A.norm(a[0].value) if a else A.norm(s.value)
            ok = bool(a) and (src == roles["plan"] or src.startswith(str(roles.get("except")) + "("))
            ctx.ob(f"{rule_prefix}.D1-return-value", cname(f, s), ok, "" if ok else "`ret` is assigned from something other than the wrapped plan / except plan", where=where(f, s))
    # the original exception is re-raised with a bare raise
    for s in A.walk_stmts(f.node.body):
        if isinstance(s, ast.Raise) and s.exc is not None and not (isinstance(s.exc, ast.Call) and A.call_name(s.exc) == "TypeError"):
            ctx.ob(f"{rule_prefix}.D1-exception-preserved", cname(f, s), False, "an exception other than the original one is raised", where=where(f, s))
    ctx.ob(f"{rule_prefix}.D1-exception-preserved", cname(f, None, "handlers re-raise with a bare raise"), True, "")
    return n_states


def run(ctx):
    repo = ctx.repo
    ctx.explanation = (
        "Decided for the finite model stated in the rule: finalize_wrapper, finalize_decorator and contingency_wrapper are interpreted "
        "on their CFG for every combination of their boolean parameters and every way the wrapped plan can end (returns; raises "
        "GeneratorExit = closed; raises an Exception; raises another BaseException). At every exit: cleanup ran exactly once unless the "
        "wrapper was closed (then no plan is yielded from at all), except/else plans ran exactly when Python's try statement would run "
        "them and before the final plan, the exit kind equals the outcome (respecting auto_raise), `ret` comes from the wrapped plan "
        "(or the except plan when not re-raising). An Exception escaping the except / else plan (a stop or abort thrown in, or the handler plan failing) still runs the cleanup once and is propagated. "
        "Not decided: behaviour of the wrapped generators; closing the wrapper while its "
        "except/else/final plan runs (observation O-6).")
    total = 0
    for qual, roles, params in WRAPPERS:
        total += check_wrapper(ctx, repo, qual, roles, params)
    ctx.expect("C22.D1-exit-obligations", 40)
    ctx.extra["exit_states_checked"] = total
    ctx.extra["exhaustive"] = True
    ctx.trusted_base = ["CPython ast parser", "bsa CFG builder (try/except/else/finally lowering with per-completion copies of finally)",
                        "Python generator semantics: yield from propagates throw()/close() into the delegate"]


CLAIM = {
    "level": "proof",
    "text": "For the finite model (all boolean parameter combinations x the four ways the wrapped plan can end, injected at the wrapped plan's yield "
            "from) every exit of finalize_wrapper, finalize_decorator and contingency_wrapper satisfies the try/except/else/finally contract: "
            "cleanup exactly once unless closed, nothing yielded when closed, except/else exactly when Python would and before the final plan, "
            "exit kind and return value preserved (respecting auto_raise). All obligations are enumerated and discharged by exhaustive abstract "
            "interpretation of the wrapper's CFG. The behaviour of the wrapped generators themselves is outside the model.",
    "technique": "path-sensitive typestate by exhaustive abstract interpretation over the CFG (finally copied per pending completion)",
    "note": "Model: exceptions are injected only at the wrapped plan's `yield from`; except/else/final/pause plans complete normally.",
}

P = "preprocessors.py"
MUTANTS = [
    ("cleanup disabled while the except plan runs (seed C22-b)",
     [(P, "        if except_plan:\n            # it might be better to throw this in, but this is simpler\n            # to implement for now\n            ret = yield from except_plan(e)\n", "        if except_plan:\n            cleanup = False\n            ret = yield from except_plan(e)\n            cleanup = True\n")], "C22.D1"),
    ("finalize_wrapper runs cleanup when closed",
     [(P, "    cleanup = True\n    try:\n        ret = yield from plan\n    except GeneratorExit:\n        cleanup = False\n        raise\n    except BaseException:\n        if pause_for_debug:",
       "    cleanup = True\n    try:\n        ret = yield from plan\n    except GeneratorExit:\n        raise\n    except BaseException:\n        if pause_for_debug:")], "C22.D1"),
    ("contingency final plan moved into else",
     [(P, "    else:\n        if else_plan:\n            yield from else_plan()\n    finally:", "    else:\n        if else_plan:\n            yield from else_plan()\n        if final_plan:\n            yield from final_plan()\n    finally:")], "C22.D1"),
    ("contingency catches BaseException",
     [(P, "    except Exception as e:\n        if pause_for_debug:\n            yield from pause()\n        if except_plan:", "    except BaseException as e:\n        if pause_for_debug:\n            yield from pause()\n        if except_plan:")], "C22.D1"),
    ("auto_raise ignored",
     [(P, "            if auto_raise:\n                raise\n            else:\n                return ret", "            raise")], "C22.D1"),
    ("decorator runs the final plan twice on error",
     [(P, "            except GeneratorExit:\n                cleanup = False\n                raise\n            finally:\n                # if the exception raised in `GeneratorExit` that means\n                # someone called `gen.close()` on this generator.  In those",
       "            except GeneratorExit:\n                cleanup = False\n                raise\n            except Exception:\n                yield from ensure_generator(final_plan_instance)\n                raise\n            finally:\n                # if the exception raised in `GeneratorExit` that means\n                # someone called `gen.close()` on this generator.  In those")], "C22.D1"),
    ("else plan runs after an exception when not re-raising",
     [(P, "            if auto_raise:\n                raise\n            else:\n                return ret", "            if auto_raise:\n                raise\n            else:\n                if else_plan:\n                    yield from else_plan()\n                return ret")], "C22.D1"),
    ("finalize_wrapper returns None",
     [(P, "        if cleanup:\n            yield from ensure_generator(final_plan_instance)\n    return ret\n\n\ndef contingency_wrapper", "        if cleanup:\n            yield from ensure_generator(final_plan_instance)\n    return None\n\n\ndef contingency_wrapper")], "C22.D1"),
    ("contingency converts the error",
     [(P, "        else:\n            raise\n    else:\n        if else_plan:", "        else:\n            raise RuntimeError(\"plan failed\") from e\n    else:\n        if else_plan:")], "C22.D1"),
    ("cleanup skipped on BaseException",
     [(P, "    except BaseException:\n        if pause_for_debug:\n            yield from pause()\n        raise", "    except Exception:\n        if pause_for_debug:\n            yield from pause()\n        raise\n    except BaseException:\n        cleanup = False\n        raise")], "C22.D1"),
    ("except plan skipped when pausing for debug",
     [(P, "        if pause_for_debug:\n            yield from pause()\n        if except_plan:", "        if pause_for_debug:\n            yield from pause()\n        elif except_plan:")], "C22.D1"),
]
BENIGN = [
    ("cleanup flag renamed? no - flag inverted in place", [(P, "        # https://docs.python.org/3/reference/expressions.html?#generator.close\n        if cleanup and final_plan:\n            yield from final_plan()", "        # https://docs.python.org/3/reference/expressions.html?#generator.close\n        if final_plan and cleanup:\n            yield from final_plan()")]),
]
