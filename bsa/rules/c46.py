"""C46 - TiledWriter stores exactly the run it was given (must-drain clauses)."""

from __future__ import annotations

import ast

from .. import astutil as A
from .. import q
from ..idioms import cname, self_attr_writes, where

TW = "bluesky.callbacks.tiled_writer"
CL = "_RunWriter"


def run(ctx):
    repo = ctx.repo
    ctx.explanation = (
        "Decided: D1 must-drain: in _RunWriter.stop every per-run cache that event / stream_datum fill (_internal_data_cache, "
        "_external_data_cache) is drained - every non-empty internal cache written and every cached stream datum written - before the stop "
        "metadata is written; D2 threshold branches write the whole cache then clear it (event) / write the concatenated datum (stream_datum); "
        "one row per event with seq_num, time, data and ts_ columns; D3 when concatenation fails both the cached and the new document are "
        "written, cached first; batch size <= 1 writes immediately; D4 TiledWriter routes documents per run through normalizer -> writer and "
        "wraps with the backup when configured. Not decided: what Tiled stores.")
    st = repo.func(TW, f"{CL}.stop")
    g = q.cfg(st, q.quiet_policy(repo))
    meta = [s for s in st.node.body if isinstance(s, ast.Expr) and "self.root_node.update_metadata(" in A.norm(s) and "'stop': doc" in A.norm(s)]
    ctx.ob("C46.D1-caches-drained-at-stop", cname(st, None, "stop metadata written"), bool(meta), "" if meta else "stop metadata not written", where=where(st, st.node))
    loops_i = [s for s in st.node.body if isinstance(s, ast.For) and A.norm(s.iter) == "self._internal_data_cache.items()"]
    ok = False
    if loops_i:
        lp = loops_i[0]
        ifs = [x for x in lp.body if isinstance(x, ast.If) and A.norm(x.test) == "data_cache"]
        ok = bool(ifs) and any("self._write_internal_data(data_cache, desc_node=self._desc_nodes[desc_name])" in A.norm(x) for x in ifs[0].body) and not any(
            isinstance(x, (ast.Break, ast.Return)) for x in A.walk_stmts(lp.body))
    ctx.ob("C46.D1-caches-drained-at-stop", cname(st, None, "every non-empty internal cache is written"), ok,
           "" if ok else "events still cached when the run stops are lost", nontrivial=True, where=where(st, st.node))
    loops_e = [s for s in st.node.body if isinstance(s, ast.For) and A.norm(s.iter) == "self._external_data_cache.values()"]
    ok = bool(loops_e) and [A.norm(x) for x in loops_e[0].body] == [f"self._write_external_data({A.norm(loops_e[0].target)})"]
    ctx.ob("C46.D1-caches-drained-at-stop", cname(st, None, "every cached stream datum is written"), ok,
           "" if ok else "stream datums still cached when the run stops are lost", nontrivial=True, where=where(st, st.node))
    if meta:
        for lp, what in ((loops_i[0] if loops_i else None, "internal"), (loops_e[0] if loops_e else None, "external")):
            if lp is None:
                continue
            w = q.dominated(g, meta[0], lambda n, lp=lp: n.kind == "for" and n.stmt is lp)
            ctx.ob("C46.D1-caches-drained-at-stop", cname(st, None, f"{what} drain precedes the stop metadata"), w is None,
                   "" if w is None else "the stop can be recorded before the data are flushed", nontrivial=True, witness=w, where=where(st, meta[0]))
    # which caches exist: every self.<cache> that event / stream_datum append to must be drained in stop
    filled = set()
    for m in ("event", "stream_datum"):
        f = repo.func(TW, f"{CL}.{m}")
        t = A.norm(f.node)
        for attr in ("_internal_data_cache", "_external_data_cache"):
            if f"self.{attr}" in t:
                filled.add(attr)
    drained = {a for a in ("_internal_data_cache", "_external_data_cache") if f"self.{a}" in A.norm(st.node)}
    ctx.ob("C46.D1-caches-drained-at-stop", f"{TW}:{CL}: caches filled by event / stream_datum are the caches drained by stop", filled == drained == {"_internal_data_cache", "_external_data_cache"},
           "" if filled == drained else f"filled {sorted(filled)} vs drained {sorted(drained)}")
    # D2 event
    ev = repo.func(TW, f"{CL}.event")
    t = A.norm(ev.node)
    ts_update = "row.update({f'ts_{k}': v for k, v in doc['timestamps'].items()})" in t or any(
        isinstance(s_, ast.For) and A.norm(s_.iter) == "doc['timestamps'].items()" and isinstance(s_.target, ast.Tuple) and len(s_.target.elts) == 2
        and [A.norm(x) for x in A.body(s_.body)] == [f"row[f'ts_{{{A.norm(s_.target.elts[0])}}}'] = {A.norm(s_.target.elts[1])}"] for s_ in ev.node.body)
    ok = "row = {'seq_num': doc['seq_num'], 'time': doc['time'], **doc['data']}" in t and ts_update and "data_cache.append(row)" in t
    ctx.ob("C46.D2-batch-write-then-clear", cname(ev, None, "one row per event: seq_num, time, data, ts_ columns"), ok, "" if ok else "row construction changed", where=where(ev, ev.node))
    # the write and the clear, in that order, exactly when the batch is full: `if len >= size: write; clear` or the guard form
    # `if len < size: return` + write; clear (len() is an int, the batch size a number: the two tests are complementary)
    ge = q.cfg(ev, q.quiet_policy(repo))
    def _x(e):
        return A.norm(q.expand(ev.node, e, keep=("data_cache", "doc")))
    wr = [s_ for s_ in A.walk_stmts(ev.node.body) if isinstance(s_, ast.Expr) and isinstance(s_.value, ast.Call) and A.call_name(s_.value) == "self._write_internal_data"
          and _x(s_.value) == "self._write_internal_data(data_cache, desc_node=self._desc_nodes[doc['descriptor']])"]
    cl = [s_ for s_ in A.walk_stmts(ev.node.body) if A.norm(s_) == "data_cache.clear()"]
    ok = len(wr) == 1 and len(cl) == 1

    def full_only(st_):
        seen_ = ge.reachable([ge.entry], edge_ok=lambda u, v, lab: not (ge.nodes[u].kind == "test" and (
            (A.norm(ge.nodes[u].ast) in ("len(data_cache) >= self._batch_size", "self._batch_size <= len(data_cache)") and lab == "T") or
            (A.norm(ge.nodes[u].ast) in ("len(data_cache) < self._batch_size", "self._batch_size > len(data_cache)") and lab == "F"))))
        return not any(i in seen_ for i in ge.nodes_of(st_))
    if ok:
        pm_ = A.parents(ev.node)
        blk = pm_.get(wr[0])
        sib = getattr(blk, "body", []) if wr[0] in getattr(blk, "body", []) else getattr(blk, "orelse", [])
        ok = full_only(wr[0]) and full_only(cl[0]) and cl[0] in sib and sib.index(cl[0]) == sib.index(wr[0]) + 1
        # and a full batch always reaches them: no other branching between the append and the write
        app_ = [s_ for s_ in ev.node.body if A.norm(s_) == "data_cache.append(row)"]
        after_ = ev.node.body[ev.node.body.index(app_[0]) + 1:] if app_ else []
        ok = ok and bool(app_) and sum(1 for s_ in A.walk_stmts(after_) if isinstance(s_, (ast.If, ast.Try, ast.While, ast.For))) == 1
    ctx.ob("C46.D2-batch-write-then-clear", cname(ev, None, "full batch: write the cache, then clear it"), ok,
           "" if ok else "rows are written twice / dropped at the batch boundary", nontrivial=True, where=where(ev, ev.node))
    dc_ = [s_ for s_ in ev.node.body if isinstance(s_, ast.Assign) and A.norm(s_.targets[0]) == "data_cache"]
    ok = len(dc_) == 1 and _x(dc_[0].value) == "self._internal_data_cache[self._desc_nodes[doc['descriptor']].item['id']]"
    ctx.ob("C46.D2-batch-write-then-clear", cname(ev, None, "rows cached per stream (keyed by the stream's name, not by the descriptor uid)"), ok,
           "" if ok else "the batch cache is no longer keyed by the stream name: a stream with two descriptors gets two caches which are flushed independently, "
           "so the table is no longer in seq_num order", nontrivial=True, where=where(ev, ev.node))
    stp = [x for x in (loops_i[0].body if loops_i else []) if isinstance(x, ast.If)]
    ok = bool(stp) and any(A.norm(x) == "data_cache.clear()" for x in stp[0].body)
    ctx.ob("C46.D2-batch-write-then-clear", cname(st, None, "stop clears what it wrote"), ok, "" if ok else "a second stop would write the rows again", where=where(st, st.node))
    wi = repo.func(TW, f"{CL}._write_internal_data")
    ok = "df_client.append_partition(table, 0)" in A.norm(wi.node) and "table = pyarrow.Table.from_pylist(data_cache)" in A.norm(wi.node)
    ctx.ob("C46.D2-batch-write-then-clear", cname(wi, None, "the whole cache is appended as one partition, in order"), ok, "" if ok else "write changed", where=where(wi, wi.node))
    # D3 stream_datum
    sd = repo.func(TW, f"{CL}.stream_datum")
    first = [s for s in sd.node.body if isinstance(s, ast.If)][0] if [s for s in sd.node.body if isinstance(s, ast.If)] else None
    ok = first is not None and A.norm(first.test) == "self._batch_size <= 1" and [A.norm(x) for x in first.body] == ["self._write_external_data(doc)", "return"]
    ctx.ob("C46.D3-stream-datum-batching", cname(sd, None, "batch size <= 1: written immediately"), ok, "" if ok else "immediate mode changed", where=where(sd, sd.node))
    tries = [s for s in A.walk_stmts(sd.node.body) if isinstance(s, ast.Try)]
    ok = False
    if tries:
        tr = tries[0]
        hs = [h for h in tr.handlers if A.norm(h.type) == "ValueError"]
        ok = bool(hs) and [A.norm(x) for x in hs[0].body if not isinstance(x, ast.Expr) or not isinstance(x.value, ast.Constant)] == [
            "self._write_external_data(cached_stream_datum_doc)", "self._write_external_data(doc)"]
        tb = A.norm(ast.Module(body=tr.body, type_ignores=[]))
        ok = ok and "_doc = concatenate_stream_datums(cached_stream_datum_doc, doc)" in tb and "self._write_external_data(_doc)" in tb and "self._external_data_cache[sres_uid] = _doc" in tb
    ctx.ob("C46.D3-stream-datum-batching", cname(sd, None, "concatenate; full -> write, else keep; on failure write cached then new"), ok,
           "" if ok else "a stream datum can be lost or written out of order when concatenation fails / the batch fills", nontrivial=True, where=where(sd, sd.node))
    ok = "cached_stream_datum_doc := self._external_data_cache.pop(sres_uid, None)" in A.norm(sd.node) and any(
        isinstance(s, ast.If) and s.orelse and A.norm(s.orelse[-1]) == "self._external_data_cache[sres_uid] = doc" for s in sd.node.body)
    ctx.ob("C46.D3-stream-datum-batching", cname(sd, None, "first datum of a resource is cached; the cached one is popped before combining"), ok, "" if ok else "cache handling changed", where=where(sd, sd.node))
    we = repo.func(TW, f"{CL}._write_external_data")
    ok = "consolidator.consume_stream_datum(doc)" in A.norm(we.node) and "self._update_data_source_for_node(sres_node, consolidator.get_data_source())" in A.norm(we.node)
    ctx.ob("C46.D3-stream-datum-batching", cname(we, None, "consume the datum, then update the node's data source"), ok, "" if ok else "write changed", where=where(we, we.node))
    # D4 routing
    fa = repo.func(TW, "TiledWriter._factory")
    t = A.norm(fa.node)
    ok = "cb = run_writer = _RunWriter(self.client, batch_size=self._batch_size)" in t and "cb.subscribe(run_writer)" in t and "cb = _ConditionalBackup(cb, [JSONLinesWriter(self.backup_directory)])" in t \
        and "return ([cb], [])" in t
    ctx.ob("C46.D4-routing", cname(fa, None, "per run: normalizer -> writer, wrapped by the backup when configured"), ok, "" if ok else "routing changed", where=where(fa, fa.node))
    call = repo.func(TW, "TiledWriter.__call__")
    ok = [A.norm(s) for s in A.body(call.node)] == ["self._run_router(name, doc)"]
    ctx.ob("C46.D4-routing", cname(call, None, "every document goes to the run router"), ok, "" if ok else "documents filtered before routing", where=where(call, call.node))
    stt = repo.func(TW, f"{CL}.start")
    ok = "key=doc['uid']" in A.norm(stt.node) and "metadata={'start': truncate_json_overflow(dict(doc))}" in A.norm(stt.node)
    ctx.ob("C46.D4-routing", cname(stt, None, "container keyed by the run uid with the start metadata"), ok, "" if ok else "start handling changed", where=where(stt, stt.node))


CLAIM = {
    "text": "Decides the must-drain discipline of the per-run Tiled writer: every cache filled by event / stream_datum is drained by stop before the "
            "stop metadata is written, threshold branches write the whole cache and then clear it, a failed concatenation writes the cached and the "
            "new stream datum in order, immediate mode writes at once, and documents are routed per run through normalizer, writer and optional "
            "backup. What the Tiled server stores is not decided.",
    "technique": "must-drain (dominance) on the stop handler; write-then-clear pairing; handler-shape rules",
}

T = "callbacks/tiled_writer.py"
MUTANTS = [
    ("cached stream datums not flushed at stop", [(T, "        for stream_datum_doc in self._external_data_cache.values():\n            self._write_external_data(stream_datum_doc)\n", "")], "C46.D1"),
    ("stop metadata written before the flush",
     [(T, "        # Write the stop document to the metadata\n        self.root_node.update_metadata(metadata={\"stop\": doc, **dict(self.root_node.metadata)}, drop_revision=True)\n", ""),
      (T, "        # Write the cached internal data\n        for desc_name, data_cache in self._internal_data_cache.items():", "        self.root_node.update_metadata(metadata={\"stop\": doc, **dict(self.root_node.metadata)}, drop_revision=True)\n        # Write the cached internal data\n        for desc_name, data_cache in self._internal_data_cache.items():")], "C46.D1"),
    ("batch written but not cleared", [(T, "            self._write_internal_data(data_cache, desc_node=self._desc_nodes[desc_uid])\n            data_cache.clear()", "            self._write_internal_data(data_cache, desc_node=self._desc_nodes[desc_uid])")], "C46.D2"),
    ("failed concatenation drops the cached datum", [(T, "                self._write_external_data(cached_stream_datum_doc)\n                self._write_external_data(doc)", "                self._write_external_data(doc)")], "C46.D3"),
    ("only the first stream flushed at stop", [(T, "            if data_cache:\n                self._write_internal_data(data_cache, desc_node=self._desc_nodes[desc_name])\n                data_cache.clear()", "            if data_cache:\n                self._write_internal_data(data_cache, desc_node=self._desc_nodes[desc_name])\n                data_cache.clear()\n                break")], "C46.D1"),
    ("timestamps dropped from the rows", [(T, "        row.update({f\"ts_{k}\": v for k, v in doc[\"timestamps\"].items()})\n", "")], "C46.D2"),
    ("writer not subscribed to the normalizer", [(T, "            cb.subscribe(run_writer)\n", "")], "C46.D4"),
    ("full external batch kept instead of written", [(T, "                if _doc[\"indices\"][\"stop\"] - _doc[\"indices\"][\"start\"] >= self._batch_size:\n                    self._write_external_data(_doc)\n                else:\n                    self._external_data_cache[sres_uid] = _doc", "                self._external_data_cache[sres_uid] = _doc")], "C46.D3"),
]
BENIGN = []
