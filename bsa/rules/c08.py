"""C08 - RunEngineInterrupted means paused unless the plan was terminated."""

from __future__ import annotations

import ast

from .. import astutil as A
from .. import q
from ..idioms import cname, where
from ..re_model import CLS, MOD, REModel
from .. import typestate as T


def d1_raise_iff_interrupted(ctx, rm: REModel):
    for name in ("__call__", "resume"):
        f = rm.m(name)
        body = f.node.body
        i_task = next((i for i, s in enumerate(body) if A.find_calls(s, "self._resume_task")), None)
        ctx.require(i_task is not None, f"anchor vanished: call of _resume_task in RunEngine.{name}")
        nxt = body[i_task + 1] if i_task + 1 < len(body) else None
        ok = (isinstance(nxt, ast.If) and A.norm(nxt.test) == "self._interrupted" and len(nxt.body) == 1
              and isinstance(nxt.body[0], ast.Raise) and "RunEngineInterrupted" in A.norm(nxt.body[0]) and not nxt.orelse)
        ctx.ob("C08.D1-raise-iff-interrupted", cname(f, None, "if self._interrupted: raise RunEngineInterrupted right after the task ended"), ok,
               "" if ok else "the test of _interrupted no longer directly follows the end of the task / no longer raises RunEngineInterrupted",
               where=where(f, body[i_task]))
        # no other raise of RunEngineInterrupted
        others = [s for s in A.walk_stmts(body) if isinstance(s, ast.Raise) and "RunEngineInterrupted" in A.norm(s) and (nxt is None or s is not nxt.body[0])]
        ctx.ob("C08.D1-raise-iff-interrupted", cname(f, None, "single raise site"), not others,
               "" if not others else "RunEngineInterrupted is raised from a second site", where=where(f, f.node))
    # the flag is reset before each (re)start of the task
    for name, reset_pred, what in (
        ("resume", lambda s: isinstance(s, ast.Assign) and A.chain(s.targets[0]) == "self._interrupted" and isinstance(s.value, ast.Constant) and s.value.value is False,
         "self._interrupted = False"),
        ("__call__", lambda s: bool(A.find_calls(s, "self._clear_call_cache")), "self._clear_call_cache()"),
    ):
        f = rm.m(name)
        seq = list(A.walk_stmts(f.node.body))
        i_reset = next((i for i, s in enumerate(seq) if reset_pred(s)), None)
        i_task = next((i for i, s in enumerate(seq) if A.find_calls(s, "self._resume_task") and not isinstance(s, (ast.FunctionDef,))), None)
        ok = i_reset is not None and i_task is not None and i_reset < i_task
        ctx.ob("C08.D1-flag-reset-before-task", cname(f, None, f"{what} before the task is (re)started"), ok,
               "" if ok else "a stale _interrupted from the previous interruption makes a completed call raise RunEngineInterrupted",
               where=where(f, f.node))
    allowed = {
        f"{CLS}.__init__": "initial False", f"{CLS}._clear_call_cache": "reset at call start", f"{CLS}.resume": "reset before resuming",
        f"{CLS}._request_pause_coro": "hard pause accepted", f"{CLS}.request_suspend._request_suspend": "suspension in a non-resumable section",
        f"{CLS}._abort_coro": "abort", f"{CLS}._stop_coro": "stop", f"{CLS}._halt_coro": "halt",
        f"{CLS}._resume_task": "KeyboardInterrupt / during_task failure",
    }
    q.check_writers(ctx, "C08.D1-interrupted-writers", rm.repo, "_interrupted", allowed, modules=[MOD], min_instances=8)
    # values: True in the request paths, False in the resets
    for f, s, kind in q.attr_writers(rm.repo, "_interrupted", modules=[MOD]):
        v = getattr(s, "value", None)
        want = False if f.qualname in (f"{CLS}.__init__", f"{CLS}._clear_call_cache", f"{CLS}.resume") else True
        ok = isinstance(v, ast.Constant) and v.value is want
        ctx.ob("C08.D1-interrupted-values", cname(f, s), ok, "" if ok else f"expected the constant {want}", where=where(f, s))
    # the pause request sets the flag only on the accepting path (after the can_pause guard and not on the deferred branch)
    f = rm.m("_request_pause_coro")
    g = q.cfg(f, q.quiet_policy(rm.repo))
    w_stmt = q.one_stmt(f, lambda s: isinstance(s, ast.Assign) and A.chain(s.targets[0]) == "self._interrupted", "write of _interrupted")
    w = q.guard_true_dominates(g, w_stmt, lambda t: "can_pause" in A.norm(t), "F")
    w2 = q.guard_true_dominates(g, w_stmt, lambda t: A.norm(t) == "defer", "F")
    ctx.ob("C08.D1-interrupted-values", cname(f, None, "_interrupted set only when the hard pause is accepted"), w is None and w2 is None,
           "" if (w is None and w2 is None) else "the flag can be set on a rejected or deferred request", nontrivial=True, witness=w or w2,
           where=where(f, w_stmt))


def d2_d3_typestate(ctx, rm: REModel):
    eng = T.Engine(rm)
    for name, f in eng.req_funcs.items():
        if any(isinstance(n, ast.Await) for n in A.walk_local(f.node)):
            ctx.ob("C08.D2-accepted-pause-reaches-paused", cname(f, None, "request atomic"), False,
                   "request coroutine contains an await; the thread-modular model does not apply", where=where(f, f.node))
            return
    eng.run_main()
    g = eng.cfg
    run = rm.run
    # D2: the write self._state = 'paused' is only reached from 'pausing' with a resumable plan
    paused_w = [s for s, lit in rm.state_writes(run.node) if lit == "paused"]
    ctx.require(paused_w, "anchor vanished: self._state = 'paused' in _run")
    for s in paused_w:
        pre = eng.pre_states(s)
        ok = bool(pre) and all(x.state == "pausing" and x.resumable for x in pre)
        ctx.ob("C08.D2-accepted-pause-reaches-paused", cname(run, s), ok,
               f"pre-tuples {T.fmt(pre)}" if ok else f"'paused' is entered from {T.fmt(pre)}", nontrivial=True, where=where(run, s))
    # the blocking event (returning control to the caller) is set only after the state is 'paused'
    be = q.stmts(run, q.stmt_calls("self._blocking_event.set"))
    ctx.require(be, "anchor vanished: self._blocking_event.set() in _run")
    for s in be:
        pre = eng.pre_states(s)
        ok = bool(pre) and all(x.state == "paused" for x in pre)
        ctx.ob("C08.D2-caller-released-only-when-paused", cname(run, s), ok,
               f"pre-states {sorted({x.state for x in pre})}", nontrivial=True, where=where(run, s))
    # from every tuple produced by an accepted hard pause inside the loop, the 'paused' write or a tear-down is reached:
    # after the CancelledError handler's 'pausing' branch the permit is clear, and the pause block is the only consumer
    pb = rm.pause_block
    pre = set()
    for nid in g.nodes_of(pb):
        pre |= {st.g for st in eng.IN.get(nid, ())}
    pausing_pre = {x for x in pre if x.state == "pausing" and not x.permit}
    ok = bool(pausing_pre) and all(x.resumable for x in pausing_pre)
    ctx.ob("C08.D2-accepted-pause-reaches-paused", cname(run, None, "pause block entered only with a resumable plan"), ok,
           f"tuples at the pause-block test with the permit clear: {T.fmt(pausing_pre)}", nontrivial=True, where=where(run, pb))
    # D3: await windows after the message loop has been left: no await there may be reached while a pause
    # (or suspension) request would still be accepted
    loop = rm.loop
    in_loop = {id(s) for s in A.walk_stmts(loop.body)}
    n = 0
    pm = A.parents(run.node)
    for s in A.walk_stmts(run.node.body):
        if id(s) in in_loop or isinstance(s, (ast.Try, ast.While, ast.If, ast.For, ast.With)):
            continue
        if not A.has_await(s):
            continue
        # where is it? (role)
        role = "before the loop"
        p = pm.get(s)
        while p is not None and not isinstance(p, (ast.ExceptHandler, ast.AsyncFunctionDef)):
            p = pm.get(p)
        if isinstance(p, ast.ExceptHandler):
            role = "in " + A.head(p)
        elif any(s is x for x in A.walk_stmts(rm.outer_try.finalbody)):
            role = "in the finally"
        pre = eng.pre_states(s)
        if role == "before the loop":
            continue
        n += 1
        accepting = {x for x in pre if eng.legal(x.state, "pausing") and not x.cancel}
        ctx.ob("C08.D3-no-pause-window-after-loop", f"{run.key}:{A.head(s)} {role}", not accepting,
               "" if not accepting else "the plan is already over but a pause/suspension request landing on this await is still accepted "
               f"(tuples {T.fmt(accepting)}): RunEngineInterrupted is raised with the engine not paused",
               nontrivial=True, where=where(run, s))
    ctx.expect("C08.D3-no-pause-window-after-loop", 4)
    # D4: a pending interruption is never overridden by a later non-terminal request.  Once a hard pause was accepted
    # (_interrupted set, state 'pausing') the caller WILL get RunEngineInterrupted; the engine must then reach 'paused' or be
    # terminated.  So from 'pausing' (and from 'suspending') every request either leaves the state alone (rejected / no-op)
    # or moves to aborting / stopping / halting - evaluated on the request summaries computed from the request coroutines.
    n4 = 0
    for name, f in eng.req_funcs.items():
        for start in ("pausing", "suspending"):
            outs = set()
            for permit in (True, False):
                for res in (True, False):
                    for cancel in (True, False):
                        for kind, g2 in eng.summary(f, T.G(start, permit, res, cancel), env=name):
                            outs.add(g2.state)
            bad = sorted(o for o in outs if o not in (start, "aborting", "stopping", "halting"))
            n4 += 1
            ctx.ob("C08.D4-pending-interruption-not-overridden", f"{f.key}: request '{name}' arriving in state {start!r}", not bad,
                   f"leaves the engine in {sorted(outs)}" if not bad else
                   f"a '{name}' request arriving while the engine is {start!r} moves it to {bad}: the pending "
                   f"{'pause is dropped - the plan runs on, yet the caller still gets RunEngineInterrupted with the engine idle' if start == 'pausing' else 'suspension is replaced'}",
                   nontrivial=True, where=where(f, f.node))
    ctx.expect("C08.D4-pending-interruption-not-overridden", 10)
    ctx.extra["typestate"] = {"nodes_with_states": len(eng.IN), "summaries": eng.stats["summaries"]}


def run(ctx):
    rm = REModel(ctx.repo)
    ctx.explanation = (
        "Decided: D1 __call__/resume raise RunEngineInterrupted exactly when _interrupted is set, tested right after the task "
        "ended; closed-world writers and values of _interrupted; D2 (typestate) 'paused' is entered only from 'pausing' with a "
        "resumable plan and the caller is released only after the state is 'paused'; D3 no await of _run outside the message "
        "loop is reachable in a tuple from which a pause would still be accepted; D4 no request arriving in 'pausing' / "
        "'suspending' moves the engine anywhere but to a terminal state (a pending pause cannot be dropped). Not decided: real timing.")
    d1_raise_iff_interrupted(ctx, rm)
    # the typestate fixpoint starts every call from a resumable tuple: discharged here
    q.per_call_reset(ctx, rm, "C08.D2-call-starts-resumable", ["_msg_cache", "_interrupted"])
    d2_d3_typestate(ctx, rm)


CLAIM = {'text': "Decides that RunEngineInterrupted is raised exactly when the interruption flag is set (tested right after the task ended, flag reset before each start, closed set of writers with constant values), that 'paused' is entered only from 'pausing' with a resumable plan and the caller is released only after that (typestate fixpoint), and that no await of _run outside the message loop is reachable in a tuple from which a pause is still accepted. The last clause fails on today's tree at six awaits (F-1 known findings). It also decides, on the request summaries, that no request arriving while a pause or suspension is pending moves the engine to a non-terminal state. Real timing is not decided.", 'technique': 'typestate fixpoint queries; guard dominance; ownership table'}


RE = "run_engine.py"
MUTANTS = [
    ("a suspension may override a pending pause (seed C08-a)",
     [(RE, '            "pausing": ["paused", "idle", "halting", "aborting", "panicked"],', '            "pausing": ["paused", "idle", "halting", "aborting", "suspending", "panicked"],')],
     "C08.D4"),
    ("__call__ raises only when not idle",
     [(RE, "        plan_return = self._resume_task(init_func=_build_task)\n\n        if self._interrupted:", "        plan_return = self._resume_task(init_func=_build_task)\n\n        if self._interrupted and not self._state.is_idle:")],
     "C08.D1"),
    ("deferred pause request marks the call interrupted",
     [(RE, "        if defer:\n            self._deferred_pause_requested = True\n", "        if defer:\n            self._deferred_pause_requested = True\n            self._interrupted = True\n")],
     "C08.D1"),
    ("resume forgets to reset the flag",
     [(RE, "        self._interrupted = False\n        for current_run in self._run_bundlers.values():\n            current_run.record_interruption(\"resume\")", "        for current_run in self._run_bundlers.values():\n            current_run.record_interruption(\"resume\")")],
     "C08.D1"),
    ("caller released before the engine is paused",
     [(RE, "                    self._state = \"paused\"\n                    # Let RunEngine.__call__ return...\n                    self._blocking_event.set()", "                    # Let RunEngine.__call__ return...\n                    self._blocking_event.set()\n                    self._state = \"paused\"")],
     "C08.D2"),
    ("not-resumable check dropped: pause block entered without a checkpoint",
     [(RE, "                if self._state in (\"pausing\", \"suspending\"):\n                    if not self.resumable:", "                if self._state in (\"pausing\", \"suspending\"):\n                    if False:")],
     "C08.D2"),
    ("stop marks interruption with a typo'd constant",
     [(RE, "        print(\"Stopping: running cleanup and marking exit_status as 'success'...\")\n\n        self._interrupted = True", "        print(\"Stopping: running cleanup and marking exit_status as 'success'...\")\n\n        self._interrupted = False")],
     "C08.D1"),
    ("an extra await after the loop",
     [(RE, "            self._exit_status = \"fail\"  # Exception raises during 'running'\n            exit_reason = str(err)\n            self.log.exception(\"Run aborted\")\n            raise err",
       "            self._exit_status = \"fail\"  # Exception raises during 'running'\n            exit_reason = str(err)\n            await asyncio.sleep(0)\n            self.log.exception(\"Run aborted\")\n            raise err")],
     "C08.D3"),
]
BENIGN = [
    ("comment and blank line between the task end and the test",
     [(RE, "        plan_return = self._resume_task()\n        if self._interrupted:", "        plan_return = self._resume_task()\n\n        # interrupted?\n        if self._interrupted:")]),
]
