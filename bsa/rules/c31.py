"""C31 - installed suspenders gate plan start and removal releases waiters."""

from __future__ import annotations

import ast

from .. import astutil as A
from .. import q
from ..idioms import cname, where
from ..re_model import CLS, MOD, REModel

SU = "bluesky.suspenders"


def run(ctx):
    rm = REModel(ctx.repo)
    repo = rm.repo
    ctx.explanation = (
        "Decided: D1 RE.__call__ collects the futures of every installed suspender that is tripped and pushes a wait_for plan ABOVE the "
        "user's plan (with its None response) before the task is built, so the wait runs first; get_futures returns nothing unless "
        "tripped, and tripped is a latch (set under the suspend condition, cleared only under the resume condition); D2 SuspenderBase.__call__ returns before any effect when not installed; remove() unsubscribes from the signal, releases "
        "a pending event, then clears RE and the tripped flag (in that order, under the lock); install subscribes with run=True so an "
        "already bad value trips at once; D3 RunEngine.remove_suspender calls remove() only for an installed suspender and always discards; "
        "install adds then installs. Not decided: arbitrary install / trip histories at run time.")
    call = rm.m("__call__")
    seq = list(A.walk_stmts(call.node.body))
    loops = [s for s in call.node.body if isinstance(s, ast.For) and A.norm(s.iter) == "self.suspenders"]
    ok = bool(loops) and "sup.get_futures()" in A.norm(loops[0]) and "futs.extend(f_lst)" in A.norm(loops[0])
    ctx.ob("C31.D1-tripped-suspenders-gate-start", cname(call, None, "futures of every installed suspender are collected"), ok,
           "" if ok else "a suspender that is tripped at call time does not delay the plan", where=where(call, call.node))
    i_plan = next((i for i, s in enumerate(seq) if A.norm(s) == "self._plan_stack.append(gen)"), None)
    wait_if = [s for s in call.node.body if isinstance(s, ast.If) and A.norm(s.test) == "futs"]
    ok = False
    if wait_if and i_plan is not None:
        b = [A.norm(x) for x in wait_if[0].body]
        ok = b == ["self._plan_stack.append(single_gen(Msg('wait_for', None, futs)))", "self._response_stack.append(None)"] and seq.index(wait_if[0]) > i_plan
    ctx.ob("C31.D1-tripped-suspenders-gate-start", cname(call, None, "a wait_for plan is pushed above the user's plan (so it runs first)"), ok,
           "" if ok else "the wait is pushed below the plan / without its response / not at all", nontrivial=True, where=where(call, call.node))
    i_task = next((i for i, s in enumerate(seq) if A.find_calls(s, "self._resume_task") and not isinstance(s, ast.FunctionDef)), None)
    ok = wait_if and i_task is not None and seq.index(wait_if[0]) < i_task
    ctx.ob("C31.D1-tripped-suspenders-gate-start", cname(call, None, "pushed before the task is built"), bool(ok), "" if ok else "task starts before the wait is pushed", where=where(call, call.node))
    i_clear = next((i for i, s in enumerate(seq) if A.find_calls(s, "self._clear_call_cache")), None)
    ok = loops and i_clear is not None and seq.index(loops[0]) < i_clear < (seq.index(wait_if[0]) if wait_if else 10**9)
    ctx.ob("C31.D1-tripped-suspenders-gate-start", cname(call, None, "futures collected before, and pushed after, the stacks are reset"), bool(ok), "" if ok else "the reset of the stacks drops the wait", where=where(call, call.node))
    gf = repo.func(SU, "SuspenderBase.get_futures")
    t = A.norm(gf.node)
    ok = any(isinstance(s, ast.If) and A.norm(s.test) == "not self.tripped" and isinstance(s.body[0], ast.Return) and A.norm(s.body[0].value) == "([], '')" for s in gf.node.body) \
        and "[self.__make_event().wait]" in t.replace("_SuspenderBase", "")
    ctx.ob("C31.D1-tripped-suspenders-gate-start", cname(gf, None, "no futures unless tripped; otherwise the release event's wait"), ok, "" if ok else "get_futures changed", where=where(gf, gf.node))
    # the gate reads `tripped`: it must stay set from the trip until the documented resume condition releases it
    from . import c30

    c30.tripped_latch(ctx, repo, rule="C31.D1-tripped-latched-until-release")
    # D2
    sc = repo.func(SU, "SuspenderBase.__call__")
    withs = [s for s in sc.node.body if isinstance(s, ast.With)]
    first = withs[0].body[0] if withs else None
    ok = isinstance(first, ast.If) and A.norm(first.test) == "self.RE is None" and isinstance(first.body[0], ast.Return)
    ctx.ob("C31.D2-remove-releases", cname(sc, None, "a removed / not installed suspender ignores signal changes"), ok, "" if ok else "acts although not installed", where=where(sc, sc.node))
    rmv = repo.func(SU, "SuspenderBase.remove")
    seq = list(A.walk_stmts(rmv.node.body))
    names = [A.norm(s) for s in seq]
    i_unsub = next((i for i, t in enumerate(names) if t == "self._sig.clear_sub(self)"), None)
    i_rel = next((i for i, s in enumerate(seq) if isinstance(s, ast.If) and A.norm(s.test) == "self.RE is not None" and any("__set_event(self.RE._loop)" in A.norm(x) for x in s.body)), None)
    i_none = next((i for i, t in enumerate(names) if t == "self.RE = None"), None)
    i_trip = next((i for i, t in enumerate(names) if t == "self._tripped = False"), None)
    ok = None not in (i_unsub, i_rel, i_none, i_trip) and i_unsub < i_rel < i_none and i_rel < i_trip
    ctx.ob("C31.D2-remove-releases", cname(rmv, None, "unsubscribe, release a pending suspension, then forget the engine and the tripped state"), ok,
           "" if ok else "removal leaves the plan suspended / keeps reacting / forgets the engine before releasing", nontrivial=True, where=where(rmv, rmv.node))
    ok = any(isinstance(s, ast.With) and "self._lock" in A.norm(s.items[0].context_expr) for s in rmv.node.body)
    ctx.ob("C31.D2-remove-releases", cname(rmv, None, "under the suspender's lock"), ok, "" if ok else "unlocked", where=where(rmv, rmv.node))
    ins = repo.func(SU, "SuspenderBase.install")
    t = A.norm(ins.node)
    ok = "self.RE = RE" in t and "self._sig.subscribe(self, event_type=event_type, run=True)" in t
    ctx.ob("C31.D2-remove-releases", cname(ins, None, "install records the engine and subscribes with run=True"), ok, "" if ok else "install changed", where=where(ins, ins.node))
    se = repo.func(SU, "SuspenderBase.__set_event")
    # guarded by the pending event being there: `if self._ev:` / `if self._ev is not None:` / a local read from it
    ok = any(isinstance(s, ast.If) and A.norm(q.expand(se.node, s.test)) in ("self._ev", "self._ev is not None") for s in se.node.body)
    ctx.ob("C31.D2-remove-releases", cname(se, None, "releasing without a pending event is harmless"), ok, "" if ok else "double removal fails", where=where(se, se.node))
    # D3
    rs = rm.m("remove_suspender")
    b = A.body(rs.node)
    ok = len(b) == 2 and isinstance(b[0], ast.If) and A.norm(b[0].test) == "suspender in self._suspenders" and [A.norm(x) for x in A.body(b[0].body)] == ["suspender.remove()"] \
        and A.norm(b[1]) == "self._suspenders.discard(suspender)"
    ctx.ob("C31.D3-engine-side", cname(rs, None, "remove() only when installed; always discard (removing twice is harmless)"), ok,
           "" if ok else "remove_suspender changed", nontrivial=True, where=where(rs, rs.node))
    isp = rm.m("install_suspender")
    b = [A.norm(s) for s in A.body(isp.node)]
    ok = b == ["self._suspenders.add(suspender)", "suspender.install(self)"]
    ctx.ob("C31.D3-engine-side", cname(isp, None, "record, then install"), ok, "" if ok else f"{b}", where=where(isp, isp.node))
    cs = rm.m("clear_suspenders")
    ok = any(isinstance(s, ast.For) and A.norm(s.iter) == "self.suspenders" and "self.remove_suspender(" in A.norm(s) for s in cs.node.body)
    ctx.ob("C31.D3-engine-side", cname(cs, None, "iterates a snapshot (the property returns a tuple)"), ok, "" if ok else "clear_suspenders changed", where=where(cs, cs.node))
    sp = repo.func(MOD, f"{CLS}.suspenders")
    ok = any(isinstance(s, ast.Return) and A.norm(s.value) == "tuple(self._suspenders)" for s in sp.node.body)
    ctx.ob("C31.D3-engine-side", cname(sp, None, "suspenders property returns a copy"), ok, "" if ok else "live set exposed", where=where(sp, sp.node))
    q.check_writers(ctx, "C31.D3-suspender-set-writers", repo, "_suspenders",
                    {f"{CLS}.__init__": "created", f"{CLS}.install_suspender": "add", f"{CLS}.remove_suspender": "discard"}, modules=[MOD], min_instances=3)
    for cmd, meth in (("install_suspender", "self.install_suspender(suspender)"), ("remove_suspender", "self.remove_suspender(suspender)")):
        h = rm.handler(cmd)
        ok = any(A.norm(s) == meth for s in h.node.body) and "suspender = msg.args[0]" in A.norm(h.node)
        ctx.ob("C31.D3-engine-side", cname(h, None, f"message handler delegates to {cmd}"), ok, "" if ok else "delegation changed", where=where(h, h.node))


CLAIM = {
    "text": "Decides that RE.__call__ pushes a wait_for plan over the futures of every tripped installed suspender above the user's plan before the "
            "task starts, that the tripped latch these futures depend on is set on every exit of the suspend branch, that a not-installed suspender ignores its signal, that remove() unsubscribes, releases a pending suspension and only then "
            "forgets the engine, that install subscribes with run=True, and that the engine-side install / remove bookkeeping is idempotent with "
            "closed-world writers. Run-time histories are not decided.",
    "technique": "statement-order rules on the resolved methods; ownership table",
}

RE = "run_engine.py"
S = "suspenders.py"
MUTANTS = [
    ("the latch is set only after the event could be created (seeds C30-c / C31-c)",
     [(S, "                self._tripped = True\n                # this does dirty things with internal state\n", "                # this does dirty things with internal state\n"),
      (S, "                        raise RuntimeError(\"Could not create the \")\n", "                        raise RuntimeError(\"Could not create the \")\n                    self._tripped = True\n")], "C31.D1"),
    ("wait pushed below the plan", [(RE, "        self._plan_stack.append(gen)\n        self._response_stack.append(None)\n        if futs:\n            self._plan_stack.append(single_gen(Msg(\"wait_for\", None, futs)))\n            self._response_stack.append(None)",
                                      "        if futs:\n            self._plan_stack.append(single_gen(Msg(\"wait_for\", None, futs)))\n            self._response_stack.append(None)\n        self._plan_stack.append(gen)\n        self._response_stack.append(None)")], "C31.D1"),
    ("remove forgets the engine before releasing", [(S, "            if self.RE is not None:\n                self.__set_event(self.RE._loop)\n            self.RE = None", "            loop = self.RE._loop if self.RE is not None else None\n            self.RE = None\n            if self.RE is not None:\n                self.__set_event(loop)")], "C31.D2"),
    ("remove keeps the signal subscription", [(S, "        self._sig.clear_sub(self)\n        with self._lock:\n            if self.RE is not None:", "        with self._lock:\n            if self.RE is not None:")], "C31.D2"),
    ("remove_suspender removes unconditionally", [(RE, "        if suspender in self._suspenders:\n            suspender.remove()\n        self._suspenders.discard(suspender)", "        suspender.remove()\n        self._suspenders.remove(suspender)")], "C31.D3"),
    ("get_futures ignores the tripped flag", [(S, "        if not self.tripped:\n            return [], \"\"\n        with self._lock:", "        if self._ev is None:\n            return [], \"\"\n        with self._lock:")], "C31.D1"),
    ("install without the initial callback", [(S, "        self._sig.subscribe(self, event_type=event_type, run=True)", "        self._sig.subscribe(self, event_type=event_type, run=False)")], "C31.D2"),
    ("suspender keeps acting after removal", [(S, "            if self.RE is None:\n                return\n            loop = self.RE._loop", "            loop = self.RE._loop if self.RE is not None else None")], "C31.D2"),
]
BENIGN = []
