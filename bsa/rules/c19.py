"""C19 - callbacks see every document once, in order, and errors follow policy."""

from __future__ import annotations

import ast

from .. import astutil as A
from .. import q
from ..idioms import cname, where
from ..re_model import BMOD, CLS, MOD, REModel
from . import c02, c12

UT = "bluesky.utils"


def run(ctx):
    rm = REModel(ctx.repo)
    # a callback that has seen a run's start document sees its stop: the run counts as open from before its start is emitted, so that the
    # engine's cleanup closes it when a consumer raises on the start document (seeds C19-a, C19-c)
    from . import c01

    q.relabelled(ctx, "C01.D2", "C19.D4", c01.d2_run_is_open_typestate, rm)
    repo = rm.repo
    ctx.explanation = (
        "Decided: D1 the delivery chain emit -> emit_sync -> Dispatcher.process -> CallbackRegistry.process calls the next stage exactly "
        "once with the same (name, doc) and the registry calls each connected callable once per document, iterating a snapshot of the "
        "insertion-ordered map (subscription order); the bundler emits every document through emit / emit_sync in program order; D2 error "
        "discipline in CallbackRegistry.process: dead weak references are dropped, any other exception is appended when exceptions are "
        "ignored and otherwise re-raised with a bare raise; Dispatcher.process only warns about collected exceptions; D3 a raising "
        "callback reaches the plan as the response of the emitting message and an unhandled one fails the run (C12.D1, C02.D1). "
        "Not decided: emission from monitor threads, delivery counts for callables the registry de-duplicates.")
    # a callable that is subscribed again after having been unsubscribed really is connected again
    from . import c18

    c18.registry_connect_disconnect_inverse(ctx, rm.repo, "C19.D1-resubscription-takes-effect")
    # D1 chain
    em = rm.m("emit")
    ok = [A.norm(s) for s in A.body(em.node)] == ["self.emit_sync(name, doc)"]
    ctx.ob("C19.D1-delivery-chain", cname(em, None, "emit -> emit_sync(name, doc)"), ok, "" if ok else "emit does more / less than forwarding once", where=where(em, em.node))
    es = rm.m("emit_sync")
    calls = [c for c in A.calls_in(es.node) if A.call_name(c) == "self.dispatcher.process"]
    ok = len(calls) == 1 and [A.norm(a) for a in calls[0].args] == ["name", "doc"] and not any(isinstance(s, (ast.For, ast.While, ast.If)) for s in A.walk_stmts(es.node.body))
    ctx.ob("C19.D1-delivery-chain", cname(es, None, "emit_sync -> dispatcher.process(name, doc) exactly once"), ok, "" if ok else "documents are dispatched conditionally / repeatedly", where=where(es, es.node))
    dp = repo.func(MOD, "Dispatcher.process")
    calls = [c for c in A.calls_in(dp.node) if A.call_name(c) == "self.cb_registry.process"]
    ok = len(calls) == 1 and [A.norm(a) for a in calls[0].args] == ["name", "name.name", "doc"]
    ctx.ob("C19.D1-delivery-chain", cname(dp, None, "Dispatcher.process -> cb_registry.process(name, name.name, doc) once"), ok, "" if ok else "registry not called exactly once with the document", where=where(dp, dp.node))
    cp = repo.func(UT, "CallbackRegistry.process")
    loops = [s for s in A.walk_stmts(cp.node.body) if isinstance(s, ast.For)]
    SNAP = {"list(self.callbacks[sig].items())": 1, "tuple(self.callbacks[sig].items())": 1, "list(self.callbacks[sig].values())": None, "tuple(self.callbacks[sig].values())": None}
    ok = len(loops) == 1 and A.norm(loops[0].iter) in SNAP
    ctx.ob("C19.D1-delivery-chain", cname(cp, None, "iterates a snapshot of the insertion-ordered callbacks of this signal"), ok,
           "" if ok else "callbacks are no longer visited in subscription order over a snapshot", nontrivial=True, where=where(cp, cp.node))
    if loops:
        # the callable is the loop's value element (second of an items() pair, the target itself for values()), whatever it is called
        idx = SNAP.get(A.norm(loops[0].iter), 1)
        tgt = loops[0].target
        fname = tgt.elts[idx].id if (idx is not None and isinstance(tgt, ast.Tuple) and len(tgt.elts) == 2 and isinstance(tgt.elts[idx], ast.Name)) else \
            tgt.id if (idx is None and isinstance(tgt, ast.Name)) else "func"
        fcalls = [c for c in A.calls_in(loops[0]) if A.norm(c.func) == fname]
        ok = len(fcalls) == 1 and A.norm(fcalls[0]) == f"{fname}(*args, **kwargs)" and not any(isinstance(x, (ast.Break, ast.Return)) for x in A.walk_stmts(loops[0].body))
        ctx.ob("C19.D1-delivery-chain", cname(cp, None, "each callable called once with the document; no early exit"), ok, "" if ok else "a callable is called twice / the loop stops early", where=where(cp, loops[0]))
    con = repo.func(UT, "CallbackRegistry.connect")
    ok = "self.callbacks.setdefault(sig, dict())" in A.norm(con.node) and "self.callbacks[sig][cid] = proxy" in A.norm(con.node)
    ctx.ob("C19.D1-delivery-chain", cname(con, None, "callbacks kept in an insertion-ordered dict keyed by increasing id"), ok, "" if ok else "container changed", where=where(con, con.node))
    # bundler emits in program order through emit/emit_sync only
    n_direct = 0
    for f in repo.funcs_in(BMOD):
        for c in A.calls_in(f.node):
            cn = A.call_name(c) or ""
            if "dispatcher" in cn or cn.endswith("cb_registry.process"):
                n_direct += 1
    ctx.ob("C19.D1-delivery-chain", f"{BMOD}:documents leave the bundler only through emit / emit_sync", n_direct == 0, "" if n_direct == 0 else "direct dispatcher access", where="")
    opn = rm.handler("open_run")
    c = [c for c in A.calls_in(opn.node) if "RunBundler" in A.norm(c.func)]
    ok = bool(c) and [A.norm(a) for a in c[0].args[2:4]] == ["self.emit", "self.emit_sync"]
    ctx.ob("C19.D1-delivery-chain", cname(opn, None, "the bundler's emit functions are the engine's"), ok, "" if ok else "bundler wired to other emit functions", where=where(opn, opn.node))
    # D2 error discipline
    tries = [s for s in A.walk_stmts(cp.node.body) if isinstance(s, ast.Try)]
    ok = False
    if tries:
        hs = tries[0].handlers
        names = [A.norm(h.type) if h.type is not None else "BaseException" for h in hs]
        ok = names == ["ReferenceError", "Exception"]
        if ok:
            eh = hs[1]
            ifs = [x for x in eh.body if isinstance(x, ast.If)]
            ok = len(ifs) == 1 and A.norm(ifs[0].test) == "self.ignore_exceptions" and any("exceptions.append(" in A.norm(x) for x in ifs[0].body) \
                and ifs[0].orelse and isinstance(ifs[0].orelse[-1], ast.Raise) and ifs[0].orelse[-1].exc is None
    ctx.ob("C19.D2-error-policy", cname(cp, None, "ReferenceError: drop the dead proxy; Exception: collect if ignoring else re-raise"), ok,
           "" if ok else "a raising callback is swallowed when it should fail the run, or stops delivery when exceptions are ignored", nontrivial=True, where=where(cp, cp.node))
    ok = any(isinstance(s, ast.Return) and A.norm(s.value) == "exceptions" for s in cp.node.body)
    ctx.ob("C19.D2-error-policy", cname(cp, None, "collected exceptions returned"), ok, "" if ok else "collected exceptions lost", where=where(cp, cp.node))
    raises = [s for s in A.walk_stmts(dp.node.body) if isinstance(s, ast.Raise)]
    ctx.ob("C19.D2-error-policy", cname(dp, None, "Dispatcher.process never raises for ignored exceptions (it only warns)"), not raises, "" if not raises else "policy changed", where=where(dp, dp.node))
    ig = repo.func(MOD, "Dispatcher.ignore_exceptions.setter")
    ok = "self.cb_registry.ignore_exceptions = val" in A.norm(ig.node)
    ctx.ob("C19.D2-error-policy", cname(ig, None, "the policy flag reaches the registry"), ok, "" if ok else "flag not forwarded", where=where(ig, ig.node))
    reig = repo.func(MOD, f"{CLS}.ignore_callback_exceptions.setter")
    ok = "self.dispatcher.ignore_exceptions = val" in A.norm(reig.node)
    ctx.ob("C19.D2-error-policy", cname(reig, None, "RE.ignore_callback_exceptions forwards to the dispatcher"), ok, "" if ok else "flag not forwarded", where=where(reig, reig.node))
    # D3
    n0 = len(ctx.obligations)
    c12.d1_error_discipline(ctx, rm)
    for o in ctx.obligations[n0:]:
        o["rule"] = o["rule"].replace("C12.D1", "C19.D3")
    n0 = len(ctx.obligations)
    c02.d1_tables(ctx, rm)
    kept = [o for o in ctx.obligations[n0:] if o["rule"] in ("C02.D1-ladder", "C02.D1-fail-reason", "C02.D1-fail-reraise") and ("Exception" in o["construct"])]
    for o in kept:
        o["rule"] = o["rule"].replace("C02.D1", "C19.D3")
    ctx.obligations[n0:] = kept


CLAIM = {
    "text": "Decides the delivery chain and error policy of callbacks: each stage from emit to the registry forwards the document exactly once, the "
            "registry calls every connected callable once per document over a snapshot of the insertion-ordered map, documents leave the bundler "
            "only through emit / emit_sync, a raising callback is collected when exceptions are ignored and re-raised otherwise, and a re-raised "
            "exception becomes the response of the emitting message and fails the run when unhandled; a run counts as open before its start document is emitted (a consumer raising on it still sees the stop). Thread timing is not decided.",
    "technique": "call-multiplicity and handler-shape rules along the resolved delivery chain; error-discipline rule",
}

RE = "run_engine.py"
U = "utils/__init__.py"
MUTANTS = [
    ("raising callback swallowed", [(U, "                    if self.ignore_exceptions:\n                        exceptions.append((e, sys.exc_info()[2]))\n                    else:\n                        raise", "                    exceptions.append((e, sys.exc_info()[2]))")], "C19.D2"),
    ("delivery stops at the first ignored exception", [(U, "                    if self.ignore_exceptions:\n                        exceptions.append((e, sys.exc_info()[2]))\n                    else:\n                        raise", "                    if self.ignore_exceptions:\n                        exceptions.append((e, sys.exc_info()[2]))\n                        break\n                    else:\n                        raise")], "C19.D1"),
    ("callbacks visited in reverse", [(U, "            for cid, func in list(self.callbacks[sig].items()):  # noqa: B007", "            for cid, func in reversed(list(self.callbacks[sig].items())):  # noqa: B007")], "C19.D1"),
    ("emit dispatches twice", [(RE, "    async def emit(self, name, doc):\n        self.emit_sync(name, doc)", "    async def emit(self, name, doc):\n        self.emit_sync(name, doc)\n        self.emit_sync(name, doc)")], "C19.D1"),
    ("stop documents not dispatched while aborting", [(RE, "        # Process the doc, already validated against the schema in event-model\n        self.dispatcher.process(name, doc)", "        # Process the doc, already validated against the schema in event-model\n        if self._exit_status != \"abort\":\n            self.dispatcher.process(name, doc)")], "C19.D1"),
    ("ignore flag not forwarded", [(RE, "        self.dispatcher.ignore_exceptions = val", "        self.dispatcher._ignore = val")], "C19.D2"),
    ("callback error not sent to the plan", [(RE, "                    except Exception as e:\n                        new_response = e\n                        continue\n                    # normal use", "                    except Exception as e:\n                        self.log.exception(\"callback or device error\")\n                        continue\n                    # normal use")], "C19.D3"),
]
BENIGN = []
