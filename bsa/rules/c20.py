"""C20 - message mutators are transparent when they change nothing (structural clauses)."""

from __future__ import annotations

import ast

from .. import astutil as A
from .. import cfg as C
from .. import q
from ..idioms import cname, where

PP = "bluesky.preprocessors"
BIG = 2  # abstract value '2 or more'


class MutatorPolicy(C.Policy):
    """send/throw into a generator may end it (StopIteration) or raise; the single yield may be
    closed (GeneratorExit) or thrown into (Exception); msg_proc may raise."""

    def __init__(self, hier):
        super().__init__(hier, calls_raise=False, await_kinds=(), yield_kinds=("GeneratorExit", "Exception"))

    def raises(self, node):
        out = set()
        if node is None:
            return out
        for n in A.walk_local(node):
            if isinstance(n, (ast.Yield, ast.YieldFrom)):
                out.update(self.yield_kinds)
            if isinstance(n, ast.Call) and isinstance(n.func, ast.Attribute) and n.func.attr in ("send", "throw"):
                out.update(("StopIteration", "Exception"))
            if isinstance(n, ast.Call) and A.call_name(n) == "msg_proc":
                out.add("Exception")
        return out


def _dec(v):
    return {0: [], 1: [0], BIG: [1, BIG]}[v]


def _inc(v):
    return BIG if v >= 1 else 1


def stack_safety(ctx, repo, rule):
    """A3 on plan_mutator: abstract lengths of plan_stack / result_stack in {0, 1, >=2}; no pop / [-1] on an empty stack."""
    f = repo.func(PP, "plan_mutator")
    g = C.build(f, MutatorPolicy(q.hier(repo)))
    problems = {}

    def effect(stmt, st):
        p, r, x = st
        if isinstance(stmt, ast.Assign) and len(stmt.targets) == 1 and isinstance(stmt.targets[0], ast.Name) and stmt.targets[0].id == "exception":
            x = "None" if (isinstance(stmt.value, ast.Constant) and stmt.value.value is None) else "Some"
        # a stack (re)built by its constructor: deque() is empty, deque([a, b]) holds that many
        if isinstance(stmt, ast.Assign) and len(stmt.targets) == 1 and isinstance(stmt.targets[0], ast.Name) and stmt.targets[0].id in ("plan_stack", "result_stack") \
                and isinstance(stmt.value, ast.Call) and (A.call_name(stmt.value) or "").split(".")[-1] == "deque":
            a0 = stmt.value.args[0] if stmt.value.args else None
            k = 0 if a0 is None else (len(a0.elts) if isinstance(a0, (ast.List, ast.Tuple)) and not any(isinstance(e, ast.Starred) for e in a0.elts) else None)
            if k is not None:
                if stmt.targets[0].id == "plan_stack":
                    p = min(k, 2)
                else:
                    r = min(k, 2)
        outs = [(p, r)]
        calls = sorted(A.calls_in(stmt), key=lambda c: (getattr(c, "end_lineno", 0), getattr(c, "end_col_offset", 0)))
        for c in calls:
            cn = A.call_name(c) or ""
            nxt = []
            for (p, r) in outs:
                if cn == "plan_stack.append":
                    nxt.append((_inc(p), r))
                elif cn == "result_stack.append":
                    nxt.append((p, _inc(r)))
                elif cn == "plan_stack.pop":
                    if p == 0:
                        problems.setdefault(("plan_stack.pop() on an empty stack", A.head(stmt)), stmt)
                    nxt.extend((p2, r) for p2 in _dec(p))
                elif cn == "result_stack.pop":
                    if r == 0:
                        problems.setdefault(("result_stack.pop() on an empty stack", A.head(stmt)), stmt)
                    nxt.extend((p, r2) for r2 in _dec(r))
                else:
                    nxt.append((p, r))
            outs = nxt
        for n in A.walk_local(stmt):
            if isinstance(n, ast.Subscript) and A.chain(n.value) == "plan_stack" and A.norm(n.slice) == "-1":
                for (p, r) in list(outs):
                    if p == 0:
                        problems.setdefault(("plan_stack[-1] on an empty stack", A.head(stmt)), stmt)
        return [(p, r, x) for (p, r) in outs]

    def flow(node, st, label, dst):
        is_exc = isinstance(label, tuple) and label[0] == "exc"
        if node.kind == "test" and label in ("T", "F"):
            t = A.norm(node.ast)
            p, r, x = st
            if t == "exception is not None":
                return [st] if (x == "Some") == (label == "T") else []
            if t == "exception is None":
                return [st] if (x == "None") == (label == "T") else []
            if t in ("plan_stack", "len(plan_stack)", "len(plan_stack) > 0", "len(plan_stack) != 0"):
                if label == "T":
                    return [st] if p >= 1 else []
                return [st] if p == 0 else []
            if t in ("not plan_stack", "len(plan_stack) == 0"):
                if label == "F":
                    return [st] if p >= 1 else []
                return [st] if p == 0 else []
            return [st]
        if node.kind in ("stmt", "return") and node.ast is not None and isinstance(node.ast, ast.AST):
            if is_exc:
                # `x = plan_stack[-1].send(ret)` raising: the subscript was still evaluated
                for n in A.walk_local(node.ast):
                    if isinstance(n, ast.Subscript) and A.chain(n.value) == "plan_stack" and st[0] == 0:
                        problems.setdefault(("plan_stack[-1] on an empty stack", A.head(node.stmt)), node.stmt)
                return [st]
            return effect(node.ast, st)
        return [st]

    IN = C.solve(g, [(0, 0, "None")], flow)
    for (what, head), stmt in sorted(problems.items(), key=lambda kv: kv[0]):
        ctx.ob(rule, f"{f.key}:{head}", False, f"{what} is reachable (abstract lengths in {{0,1,>=2}})", nontrivial=True, where=where(f, stmt))
    n_sites = sum(1 for s in A.walk_stmts(f.node.body) for c in A.calls_in(s) if not isinstance(s, (ast.If, ast.While, ast.Try, ast.For)) and
                  (A.call_name(c) or "") in ("plan_stack.pop", "result_stack.pop"))
    ctx.ob(rule, f"{f.key}:all {n_sites} pop sites and every plan_stack[-1]", not problems,
           f"no underflow on any path ({len(IN)} CFG nodes with states; send/throw may raise StopIteration or Exception, the yield may be closed or thrown into)"
           if not problems else "", nontrivial=True)
    return g


def clones_agree(ctx, repo, rule):
    f = repo.func(PP, "plan_mutator")
    blocks = []
    for s in A.walk_stmts(f.node.body):
        if isinstance(s, ast.Try):
            for h in s.handlers:
                if h.type is not None and A.norm(h.type) == "StopIteration" and any("plan_stack.pop()" in A.norm(x) for x in h.body):
                    blocks.append(h)
    # one shared block (send and throw in the same try) agrees with itself; several copies must be identical
    texts = {A.norm(ast.Module(body=b.body, type_ignores=[])) for b in blocks}
    covers_both = True
    if len(blocks) == 1:
        tr = [s for s in A.walk_stmts(f.node.body) if isinstance(s, ast.Try) and blocks[0] in s.handlers][0]
        tb = A.norm(ast.Module(body=tr.body, type_ignores=[]))
        covers_both = ".throw(" in tb and ".send(" in tb
    ok = len(blocks) >= 1 and len(texts) == 1 and covers_both
    ctx.ob(rule, cname(f, None, "the send-branch and throw-branch StopIteration blocks agree"), ok,
           "" if ok else "the two copies of the generator-exhausted bookkeeping diverged (a plan ending while an exception is thrown is handled differently from one ending normally)",
           nontrivial=True, where=where(f, f.node))
    return blocks


def close_path(ctx, repo, rule):
    for qual, closer in (("plan_mutator", "p.close()"), ("msg_mutator", "plan.close()")):
        f = repo.func(PP, qual)
        hs = [h for s in A.walk_stmts(f.node.body) if isinstance(s, ast.Try) for h in s.handlers if h.type is not None and A.norm(h.type) == "GeneratorExit"]
        ok = len(hs) == 1
        if ok:
            h = hs[0]
            ok = not any(isinstance(n, (ast.Yield, ast.YieldFrom)) for x in h.body for n in A.walk_local(x)) and closer in A.norm(ast.Module(body=h.body, type_ignores=[])) \
                and isinstance(h.body[-1], ast.Raise) and h.body[-1].exc is None
        ctx.ob(rule, cname(f, None, "GeneratorExit: close the wrapped plan(s), yield nothing, re-raise"), ok,
               "" if ok else "closing the mutated plan early yields again / does not close the wrapped plan / swallows GeneratorExit", where=where(f, f.node))
        if ok and qual == "plan_mutator":
            loop = [x for x in hs[0].body if isinstance(x, ast.For)]
            ok2 = bool(loop) and A.norm(loop[0].iter) == "plan_stack"
            ctx.ob(rule, cname(f, None, "every stacked plan is closed"), ok2, "" if ok2 else "only some stacked plans are closed", where=where(f, f.node))
        # the GeneratorExit handler precedes broader handlers of the same try
        for s in A.walk_stmts(f.node.body):
            if isinstance(s, ast.Try) and any(h in s.handlers for h in hs):
                names = [A.norm(h.type) if h.type is not None else "BaseException" for h in s.handlers]
                gi = names.index("GeneratorExit")
                ok3 = all(n not in ("BaseException",) for n in names[:gi])
                ctx.ob(rule, cname(f, None, "GeneratorExit handled before broader handlers"), ok3, "" if ok3 else "a broader handler shadows GeneratorExit", where=where(f, s))


def single_yield_and_results(ctx, repo, rule):
    f = repo.func(PP, "plan_mutator")
    ys = [n for n in A.walk_local(f.node) if isinstance(n, (ast.Yield, ast.YieldFrom))]
    ok = len(ys) == 1 and isinstance(ys[0], ast.Yield) and A.norm(ys[0].value) == "msg"
    ctx.ob(rule, cname(f, None, "single yield site `yield msg`"), ok, "" if ok else f"{len(ys)} yield sites", where=where(f, f.node))
    t = [s for s in A.walk_stmts(f.node.body) if isinstance(s, ast.Try) and any(isinstance(x, ast.Assign) and isinstance(x.value, ast.Yield) for x in s.body)]
    nxt_ = q.after_success(f.node, t[0]) if t else []
    ok = bool(t) and bool(nxt_) and A.norm(nxt_[0]) == f"result_stack.append({A.norm(t[0].body[0].targets[0])})"
    ctx.ob(rule, cname(f, None, "the response to the yielded message is pushed as the next result"), ok, "" if ok else "the response is dropped / replaced", where=where(f, f.node))
    if t:
        hs = [h for h in t[0].handlers if h.type is not None and A.norm(h.type) == "Exception" and h.name]
        ok = bool(hs) and any(isinstance(x, ast.If) and A.norm(x.test) == "plan_stack" and any(A.norm(y) == f"exception = {hs[0].name}" for y in x.body) for x in hs[0].body)
        ctx.ob(rule, cname(f, None, "an exception thrown at the yield is passed to the top plan"), ok, "" if ok else "thrown exceptions are not forwarded", where=where(f, f.node))
    # send uses the popped result; throw uses the stashed exception
    txt = A.norm(f.node)
    ok = "ret = result_stack.pop()" in txt and "msg = plan_stack[-1].send(ret)" in txt and "msg = plan_stack[-1].throw(exception)" in txt
    ctx.ob(rule, cname(f, None, "send(popped result) / throw(stashed exception) into the top plan"), ok, "" if ok else "send / throw arguments changed", where=where(f, f.node))
    # exception cleared once a plan handled it
    thr = [s for s in A.walk_stmts(f.node.body) if isinstance(s, ast.Try) and any("plan_stack[-1].throw(exception)" in A.norm(x) for x in s.body)]
    nxt_ = q.after_success(f.node, thr[0]) if thr else []
    ok = bool(thr) and bool(nxt_) and A.norm(nxt_[0]) == "exception = None"
    ctx.ob(rule, cname(f, None, "the stashed exception is cleared when a plan handles it"), ok, "" if ok else "a handled exception is thrown again", where=where(f, f.node))
    # return value of the parent plan only
    for h in clones_agree.__wrapped__(repo) if hasattr(clones_agree, "__wrapped__") else []:
        pass
    blocks = [h for s in A.walk_stmts(f.node.body) if isinstance(s, ast.Try) for h in s.handlers if h.type is not None and A.norm(h.type) == "StopIteration" and h.name]
    for h in blocks:
        ok = any(isinstance(x, ast.If) and A.norm(x.test) == "exhausted_gen is parent_plan" and [A.norm(y) for y in x.body] == [f"ret_value = {h.name}.value"] for x in h.body)
        ctx.ob(rule, cname(f, h, "ret_value = e.value only for the parent plan"), ok, "" if ok else "the return value of an inserted plan replaces the host plan's", where=where(f, h))
        ok = any(isinstance(x, ast.If) and A.norm(x.test) == "plan_stack" and isinstance(x.body[0], ast.Continue) and x.orelse and A.norm(x.orelse[0]) == "return ret_value" for x in h.body)
        ctx.ob(rule, cname(f, h, "returns ret_value when the stack is empty"), ok, "" if ok else "return on exhaustion changed", where=where(f, h))
    ok = "parent_plan = plan" in txt and "ret_value = None" in txt
    ctx.ob(rule, cname(f, None, "parent_plan is the wrapped plan"), ok, "" if ok else "parent plan identity changed", where=where(f, f.node))
    # unhandled exception from the last plan is re-raised
    eh = [h for s in A.walk_stmts(f.node.body) if isinstance(s, ast.Try) for h in s.handlers if h.type is not None and A.norm(h.type) == "Exception" and any("plan_stack.pop()" in A.norm(x) for x in h.body)]
    for h in eh:
        ok = any(isinstance(x, ast.If) and A.norm(x.test) == "plan_stack" and x.orelse and isinstance(x.orelse[-1], ast.Raise) and
                 (x.orelse[-1].exc is None or A.norm(x.orelse[-1].exc) == h.name) for x in h.body)
        ctx.ob(rule, cname(f, h, "an exception the last plan did not handle is re-raised"), ok, "" if ok else "unhandled exception dropped", where=where(f, h))
    # processing: each new message once
    ifs = [s for s in A.walk_stmts(f.node.body) if isinstance(s, ast.If) and A.norm(s.test) == "id(msg) not in msgs_seen"]
    ok = bool(ifs) and any(A.norm(x) == "msgs_seen[id(msg)] = msg" for x in ifs[0].body) and sum(1 for c in A.calls_in(f.node) if A.call_name(c) == "msg_proc") == 1 \
        and any("msg_proc(msg)" in A.norm(x) for x in ifs[0].body)
    ctx.ob(rule, cname(f, None, "msg_proc is called once per message object not seen before (and the object is kept alive)"), ok,
           "" if ok else "messages are processed more than once / ids can be recycled", where=where(f, f.node))


def msg_mutator_shape(ctx, repo, rule):
    f = repo.func(PP, "msg_mutator")
    txt = A.norm(f.node)
    checks = [
        ("primes the plan with send(None)", "msg = plan.send(None)" in txt),
        ("processed message yielded, response kept", "_s = (yield msg)" in txt or "_s = yield msg" in txt),
        ("a deleted message (None) feeds None back", any(isinstance(s, ast.If) and A.norm(s.test) == "msg is None" and A.norm(s.body[0]) == "_s = None" for s in A.walk_stmts(f.node.body))),
        ("response sent back into the plan", "msg = plan.send(_s)" in txt),
        ("any thrown exception is thrown into the plan", "msg = plan.throw(_e)" in txt and any(h.type is not None and A.norm(h.type) == "BaseException" for s in A.walk_stmts(f.node.body) if isinstance(s, ast.Try) for h in s.handlers)),
        ("returns the plan's return value", sum(1 for s in A.walk_stmts(f.node.body) if A.norm(s) == "ret = _e.value") == 3 and any(isinstance(s, ast.Return) and A.norm(s.value) == "ret" for s in f.node.body)),
        ("msg_proc applied to every message exactly once per loop iteration", sum(1 for c in A.calls_in(f.node) if A.call_name(c) == "msg_proc") == 1),
    ]
    for what, ok in checks:
        ctx.ob(rule, cname(f, None, what), ok, "" if ok else f"msg_mutator no longer {what}", where=where(f, f.node))
    ys = [n for n in A.walk_local(f.node) if isinstance(n, (ast.Yield, ast.YieldFrom))]
    ctx.ob(rule, cname(f, None, "single yield site"), len(ys) == 1, "" if len(ys) == 1 else f"{len(ys)} yields", where=where(f, f.node))


def run(ctx):
    repo = ctx.repo
    ctx.explanation = (
        "Observational equivalence of generators is NOT decided. Decided necessary conditions: D1 stack-safety of plan_mutator's loop by "
        "abstract interpretation (no pop / [-1] on an empty stack on any path, with send/throw ending or raising and the yield being closed "
        "or thrown into); D2 the two duplicated generator-exhausted blocks agree; D3 on GeneratorExit both mutators close the wrapped "
        "plan(s), yield nothing and re-raise; D4 single yield site, responses / thrown exceptions / return value / unhandled exceptions "
        "are forwarded, each message object is processed once; msg_mutator's send/throw/return skeleton.")
    stack_safety(ctx, repo, "C20.D1-stack-safety")
    clones_agree(ctx, repo, "C20.D2-exhaustion-blocks-agree")
    close_path(ctx, repo, "C20.D3-close-path")
    single_yield_and_results(ctx, repo, "C20.D4-forwarding")
    msg_mutator_shape(ctx, repo, "C20.D4-msg-mutator-skeleton")


CLAIM = {
    "text": "Does not decide observational equivalence of the mutated generator. Decides structural necessary conditions: plan_mutator's two "
            "stacks never underflow on any path (finite abstract interpretation with exhaustion / raise / close / throw injected), its two "
            "duplicated exhaustion blocks agree, the close path closes every wrapped plan without yielding, responses, thrown exceptions, "
            "the host plan's return value and unhandled exceptions are forwarded, each message object is processed once, and msg_mutator "
            "keeps its send / throw / return skeleton.",
    "technique": "finite abstract interpretation of stack lengths on a CFG with generator exception edges; clone agreement; handler-shape rules",
}

P = "preprocessors.py"
MUTANTS = [
    ("response not pushed", [(P, "        else:\n            result_stack.append(inner_ret)", "        else:\n            pass")], "C20"),
    ("yield again while closing", [(P, "            for p in plan_stack:\n                p.close()\n            raise\n        except Exception as ex:\n            if plan_stack:", "            for p in plan_stack:\n                p.close()\n            yield msg\n            raise\n        except Exception as ex:\n            if plan_stack:")], "C20.D3"),
    ("stack not checked after a pop in the throw branch",
     [(P, "                plan_stack.pop()\n                if plan_stack:\n                    # stash the exception and go to the top\n                    exception = e\n                    continue\n                else:\n                    raise", "                plan_stack.pop()\n                exception = e\n                continue")], "C20.D1"),
    ("exhaustion blocks diverge",
     [(P, "                if exhausted_gen is parent_plan:\n                    ret_value = e.value\n\n                # if we just came out of a 'tail' generator,\n                # discard its return value and replace it with the\n                # cached one (from the last message in its paired\n                # 'new_gen')\n                if id(exhausted_gen) in tail_result_cache:\n                    ret = tail_result_cache.pop(id(exhausted_gen))\n\n                result_stack.append(ret)\n\n                if id(exhausted_gen) in tail_cache:\n                    gen = tail_cache.pop(id(exhausted_gen))\n                    if gen is not None:\n                        plan_stack.append(gen)\n                        saved_result = result_stack.pop()\n                        tail_result_cache[id(gen)] = saved_result\n                        # must use None to prime generator\n                        result_stack.append(None)\n\n                if plan_stack:\n                    continue\n                else:\n                    return ret_value\n            except Exception as e:",
       "                if exhausted_gen is parent_plan:\n                    ret_value = e.value\n\n                result_stack.append(ret)\n\n                if plan_stack:\n                    continue\n                else:\n                    return ret_value\n            except Exception as e:")], "C20.D2"),
    ("return value of any exhausted plan", [(P, "                if exhausted_gen is parent_plan:\n                    ret_value = e.value\n\n                # if we just came out of a 'tail' generator,\n                # discard its return value and replace it with the\n                # cached one (from the last message in its paired\n                # 'new_gen')\n                if id(exhausted_gen) in tail_result_cache:\n                    ret = tail_result_cache.pop(id(exhausted_gen))\n\n                result_stack.append(ret)\n\n                if id(exhausted_gen) in tail_cache:\n                    gen = tail_cache.pop(id(exhausted_gen))\n                    if gen is not None:\n                        plan_stack.append(gen)\n                        saved_result = result_stack.pop()\n                        tail_result_cache[id(gen)] = saved_result\n                        # must use None to prime generator\n                        result_stack.append(None)\n\n                if plan_stack:\n                    continue\n                else:\n                    return ret_value\n            except Exception as ex:",
       "                ret_value = e.value\n\n                # if we just came out of a 'tail' generator,\n                # discard its return value and replace it with the\n                # cached one (from the last message in its paired\n                # 'new_gen')\n                if id(exhausted_gen) in tail_result_cache:\n                    ret = tail_result_cache.pop(id(exhausted_gen))\n\n                result_stack.append(ret)\n\n                if id(exhausted_gen) in tail_cache:\n                    gen = tail_cache.pop(id(exhausted_gen))\n                    if gen is not None:\n                        plan_stack.append(gen)\n                        saved_result = result_stack.pop()\n                        tail_result_cache[id(gen)] = saved_result\n                        # must use None to prime generator\n                        result_stack.append(None)\n\n                if plan_stack:\n                    continue\n                else:\n                    return ret_value\n            except Exception as ex:")], "C20"),
    ("msg_mutator swallows close", [(P, "            except GeneratorExit:\n                plan.close()\n                raise\n            except BaseException as _e:", "            except GeneratorExit:\n                plan.close()\n                return None\n            except BaseException as _e:")], "C20.D3"),
    ("msg_mutator only forwards Exception", [(P, "            except BaseException as _e:\n                try:\n                    msg = plan.throw(_e)", "            except Exception as _e:\n                try:\n                    msg = plan.throw(_e)")], "C20.D4"),
    ("handled exception thrown again", [(P, "            else:\n                exception = None\n        else:\n            ret = result_stack.pop()", "            else:\n                pass\n        else:\n            ret = result_stack.pop()")], "C20.D4"),
    ("messages keyed by value instead of identity", [(P, "        if id(msg) not in msgs_seen:", "        if msg not in msgs_seen.values():")], "C20.D4"),
]
BENIGN = []
