"""C39 - a LiveDispatcher's re-emitted stream is a valid run (counter provenance)."""

from __future__ import annotations

import ast

from .. import astutil as A
from .. import q
from ..idioms import cname, self_attr_writes, where

ST = "bluesky.callbacks.stream"
CL = "LiveDispatcher"


def run(ctx):
    repo = ctx.repo
    ctx.explanation = (
        "Decided: D1 provenance of the numbers: the seq_num of a re-emitted event and the num_events of the re-emitted stop both derive "
        "from one per-stream counter that is incremented exactly once per emitted event, under the emitted event's stream name, before the "
        "event is emitted; num_events is a copy of that counter map (not the number of descriptors); the counters are reset at stop; "
        "D2 every re-emitted document goes through emit(), which validates it; the descriptor of a stream is emitted before its first "
        "event and re-emitted documents reference the new start uid. Not decided: contents of transformed events in subclasses.")
    pe = repo.func(ST, f"{CL}.process_event")
    st = repo.func(ST, f"{CL}.stop")
    # the dict literal of the emitted event
    evt_dict = None
    for n in A.walk_local(pe.node):
        if isinstance(n, ast.Dict) and any(A.const_str(k) == "seq_num" for k in n.keys):
            evt_dict = n
    ctx.require(evt_dict is not None, "anchor vanished: the re-emitted event in process_event")
    seq_expr = [v for k, v in zip(evt_dict.keys, evt_dict.values) if A.const_str(k) == "seq_num"][0]
    counter = None
    if isinstance(seq_expr, ast.Subscript) and (A.chain(seq_expr.value) or "").startswith("self.") and A.norm(seq_expr.slice) == "stream_name":
        counter = A.chain(seq_expr.value)[5:]
    elif isinstance(seq_expr, ast.Name):
        # a local that holds the freshly incremented per-stream count: N = self.<c>.get(stream_name, 0) + 1 (or self.<c>[stream_name] + 1)
        # and self.<c>[stream_name] = N, both before the event is built
        gpe = q.cfg(pe, q.quiet_policy(repo))
        st_evt = A.enclosing_stmt(evt_dict, A.parents(pe.node))
        ids_ = gpe.nodes_of(st_evt) if st_evt is not None else []
        defs = q.reaching_defs(gpe, ids_[0], seq_expr.id) if ids_ else []
        if len(defs) == 2 and all(d[0] == "assign" and d[1] is not None for d in defs):
            # `if stream_name in self.<c>: N = self.<c>[stream_name] + 1 else: N = 1` (the dict.get(..., 0) + 1 spelled out)
            one = [d for d in defs if A.norm(d[1]) == "1"]
            inc = [d for d in defs if A.norm(d[1]) != "1"]
            if len(one) == 1 and len(inc) == 1 and isinstance(inc[0][1], ast.BinOp) and isinstance(inc[0][1].left, ast.Subscript) and A.norm(inc[0][1].right) == "1" \
                    and A.norm(inc[0][1].left.slice) == "stream_name":
                c = A.chain(inc[0][1].left.value)
                first_only = q.guard_true_dominates(gpe, one[0][2].stmt, lambda t: A.norm(t) == f"stream_name in {c}", "F") is None or \
                    q.guard_true_dominates(gpe, one[0][2].stmt, lambda t: A.norm(t) == f"stream_name not in {c}", "T") is None
                if c and c.startswith("self.") and first_only and any(A.norm(s_) == f"{c}[stream_name] = {seq_expr.id}" for s_ in A.walk_stmts(pe.node.body)):
                    counter = c[5:]
        if len(defs) == 1 and defs[0][0] == "assign" and defs[0][1] is not None:
            v = defs[0][1]
            if isinstance(v, ast.BinOp) and isinstance(v.op, ast.Add) and A.norm(v.right) == "1":
                base = v.left
                c = None
                if isinstance(base, ast.Call) and isinstance(base.func, ast.Attribute) and base.func.attr == "get" and len(base.args) == 2 \
                        and A.norm(base.args[0]) == "stream_name" and A.norm(base.args[1]) == "0":
                    c = A.chain(base.func.value)
                elif isinstance(base, ast.Subscript) and A.norm(base.slice) == "stream_name":
                    c = A.chain(base.value)
                if c and c.startswith("self.") and any(A.norm(s_) == f"{c}[stream_name] = {seq_expr.id}" for s_ in A.walk_stmts(pe.node.body)):
                    counter = c[5:]
    ctx.ob("C39.D1-per-stream-counter", cname(pe, None, "seq_num = self.<counter>[stream_name]"), counter is not None,
           "" if counter else f"seq_num is `{A.norm(seq_expr)}`: not a per-stream counter (events of different streams share numbers)", nontrivial=True, where=where(pe, pe.node))
    if counter is None:
        return
    incs = [s for s in A.walk_stmts(pe.node.body) if isinstance(s, (ast.Assign, ast.AugAssign)) and any(
        isinstance(t, ast.Subscript) and A.chain(t.value) == f"self.{counter}" and A.norm(t.slice) == "stream_name" for t in A.targets_of(s))]
    ok = len(incs) == 1 and (("+ 1" in A.norm(incs[0])) or (isinstance(incs[0], ast.AugAssign) and A.norm(incs[0].value) == "1")
                             or (isinstance(seq_expr, ast.Name) and A.norm(incs[0].value) == seq_expr.id))
    ctx.ob("C39.D1-per-stream-counter", cname(pe, None, "the stream's counter is incremented exactly once per event"), ok,
           "" if ok else f"{len(incs)} increment sites", nontrivial=True, where=where(pe, pe.node))
    emits = [s for s in pe.node.body if isinstance(s, ast.Expr) and "self.emit(DocumentNames.event" in A.norm(s)]
    if incs and emits:
        top = pe.node.body
        ok = incs[0] in top and top.index(incs[0]) < top.index(emits[0])
        ctx.ob("C39.D1-per-stream-counter", cname(pe, None, "incremented unconditionally, before the event is built and emitted"), ok,
               "" if ok else "the increment is conditional / after the emission (first event numbered 0 or numbers repeat)", where=where(pe, incs[0]))
    ctx.ob("C39.D1-per-stream-counter", cname(pe, None, "exactly one event emitted per call"), len(emits) == 1, "" if len(emits) == 1 else f"{len(emits)} event emissions", where=where(pe, pe.node))
    # stop: num_events from the same counter
    ne = [s for s in st.node.body if isinstance(s, ast.Assign) and A.norm(s.targets[0]) == "num_events"]
    ok = len(ne) == 1 and f"self.{counter}" in A.norm(ne[0].value) and "self._descriptors" not in A.norm(ne[0].value)
    ctx.ob("C39.D1-num-events-from-counter", cname(st, None, f"num_events derives from self.{counter}"), ok,
           "" if ok else f"num_events is `{A.norm(ne[0].value) if ne else '?'}`: it does not count the events emitted per stream", nontrivial=True, where=where(st, st.node))
    stop_docs = [d for d in (A.dict_items(n) for n in A.walk_local(st.node)) if d and "num_events" in d and "run_start" in d]
    used = [d for d in stop_docs if A.norm(d["num_events"]) == "num_events"]
    ctx.ob("C39.D1-num-events-from-counter", cname(st, None, "that value is what the stop document carries"), bool(used), "" if used else "num_events not placed in the stop document", where=where(st, st.node))
    seq = [A.norm(s) for s in st.node.body]
    i_emit = next((i for i, t in enumerate(seq) if "self.emit(DocumentNames.stop" in t), None)
    i_clear = next((i for i, t in enumerate(seq) if t == f"self.{counter}.clear()"), None)
    ok = None not in (i_emit, i_clear) and i_emit < i_clear
    ctx.ob("C39.D1-num-events-from-counter", cname(st, None, "counters reset after the stop is emitted (next run starts at 1)"), ok, "" if ok else "counters not reset / reset before being reported", where=where(st, st.node))
    # writers of the counter
    for f in repo.funcs_in(ST):
        for s, attr, kind in self_attr_writes(f.node, counter):
            ok = f.qualname in (f"{CL}.__init__", f"{CL}.process_event", f"{CL}.stop")
            ctx.ob("C39.D1-per-stream-counter", cname(f, s), ok, "" if ok else "the counter is written elsewhere", where=where(f, s))
    # D2
    em = repo.func(ST, f"{CL}.emit")
    b = [A.norm(s) for s in A.body(em.node)]
    ok = b == ["schema_validators[name].validate(doc)", "self.dispatcher.process(name, doc)"]
    ctx.ob("C39.D2-validated-and-ordered", cname(em, None, "validate, then dispatch"), ok, "" if ok else f"{b}", where=where(em, em.node))
    n_direct = sum(1 for k, f in repo.funcs.items() if k.startswith(f"{ST}:{CL}.") and f.key != em.key for c in A.calls_in(f.node) if (A.call_name(c) or "").endswith("dispatcher.process"))
    ctx.ob("C39.D2-validated-and-ordered", f"{ST}:{CL}: emit is the only caller of dispatcher.process", n_direct == 0, "" if n_direct == 0 else "documents bypass validation")
    desc_if = [s for s in pe.node.body if isinstance(s, ast.If) and any("self.emit(DocumentNames.descriptor" in A.norm(x) for x in A.walk_stmts(s.body))]
    ok = bool(desc_if) and any("self.emit(DocumentNames.descriptor" in A.norm(x) for x in A.walk_stmts(desc_if[0].body)) and emits and pe.node.body.index(desc_if[0]) < pe.node.body.index(emits[0])
    ctx.ob("C39.D2-validated-and-ordered", cname(pe, None, "a stream's descriptor is emitted before its first event"), ok, "" if ok else "event may precede its descriptor", where=where(pe, pe.node))
    t = A.norm(pe.node)
    ok = "'run_start': self._stream_start_uid" in t and "'descriptor': desc_uid" in t and "desc_uid = self._descriptors[stream_name][desc_id]['uid']" in t
    ctx.ob("C39.D2-validated-and-ordered", cname(pe, None, "descriptor -> new start uid; event -> its stream's new descriptor uid"), ok, "" if ok else "references changed", where=where(pe, pe.node))
    ok = bool(stop_docs) and all(A.norm(d["run_start"]) == "self._stream_start_uid" for d in stop_docs)
    ctx.ob("C39.D2-validated-and-ordered", cname(st, None, "stop -> new start uid"), ok, "" if ok else "stop references another run", where=where(st, st.node))


CLAIM = {
    "text": "Decides the provenance of the numbers a LiveDispatcher re-emits: seq_num and num_events derive from one per-stream counter incremented "
            "once per emitted event before it is emitted (the descriptor-count / shared-counter defect fixed in /repo as F-7 would be reported "
            "again), the counters are reset after the stop, every document goes through the validating emit, descriptors precede their events and "
            "references point to the re-emitted start. Contents of transformed events are not decided.",
    "technique": "provenance (def-use) of seq_num / num_events to a per-stream counter; ownership; statement order",
}

S = "callbacks/stream.py"
MUTANTS = [
    ("num_events counts descriptors (revert of F-7)", [(S, "        num_events = dict(self._stream_seq_counts)", "        num_events = dict((stream, len(self._descriptors[stream])) for stream in self._descriptors.keys())")], "C39.D1"),
    ("one counter for all streams (revert of F-7)", [(S, '                "seq_num": self._stream_seq_counts[stream_name],', '                "seq_num": self.seq_count,')], "C39.D1"),
    ("counter incremented after the event", [(S, "        self._stream_seq_counts[stream_name] = self._stream_seq_counts.get(stream_name, 0) + 1\n", ""),
                                             (S, "        # Emit the event document\n        self.emit(DocumentNames.event, dict(evt))", "        # Emit the event document\n        self.emit(DocumentNames.event, dict(evt))\n        self._stream_seq_counts[stream_name] = self._stream_seq_counts.get(stream_name, 0) + 1")], "C39.D1"),
    ("counters survive the run", [(S, "        self._stream_seq_counts.clear()\n", "")], "C39.D1"),
    ("events bypass validation", [(S, "        # Emit the event document\n        self.emit(DocumentNames.event, dict(evt))", "        # Emit the event document\n        self.dispatcher.process(DocumentNames.event, dict(evt))")], ["C39.D2", "C39.D1"]),
    ("counter keyed by descriptor id", [(S, "        self._stream_seq_counts[stream_name] = self._stream_seq_counts.get(stream_name, 0) + 1", "        self._stream_seq_counts[desc_id] = self._stream_seq_counts.get(desc_id, 0) + 1")], "C39.D1"),
]
BENIGN = []
