"""C43 - PersistentDict keeps what was last written (write-through pairing)."""

from __future__ import annotations

import ast

from .. import astutil as A
from .. import q
from ..idioms import cname, self_attr_writes, where

UT = "bluesky.utils"
CL = "PersistentDict"


def run(ctx):
    repo = ctx.repo
    ctx.explanation = (
        "Decided: D1 write-through pairing: every method of PersistentDict that mutates the in-memory cache applies the same mutation, "
        "with the same key, to the persistent mapping (`__setitem__`, `__delitem__`, `popitem`); no other method mutates the cache; the "
        "class inherits the remaining mutators from MutableMapping, which go through those three; flush rewrites every item; reads come "
        "from the cache, which is loaded from the persistent mapping on construction; D2 dump / load are inverse msgpack calls with the "
        "numpy hooks. Not decided: msgpack round trips of arbitrary values, crash points (observation O-4: reload() rebinds the cache "
        "while the finalizer keeps the old dict).")
    c = repo.cls(UT, CL)
    ok = any("MutableMapping" in b for b in c.base_names)
    ctx.ob("C43.D1-write-through", f"{UT}:{CL} bases", ok, "" if ok else "no longer a MutableMapping: update / pop / clear / setdefault would not write through")
    meths = repo.methods_of(UT, CL)
    overridden = [m for m in ("update", "pop", "clear", "setdefault") if m in meths]
    ctx.ob("C43.D1-write-through", f"{UT}:{CL} inherited mutators", not overridden, "" if not overridden else f"{overridden} overridden: must be checked separately")
    pairs = {
        "__setitem__": (["self._cache[key] = value"], ["self._func[key] = value"]),
        "__delitem__": (["del self._cache[key]"], ["del self._func[key]"]),
    }
    for m, (cache_ops, store_ops) in pairs.items():
        f = repo.func(UT, f"{CL}.{m}")
        body = [A.norm(s) for s in A.body(f.node)]
        ok = all(o in body for o in cache_ops + store_ops) and len(body) == 2
        ctx.ob("C43.D1-write-through", cname(f, None, f"{cache_ops[0]} and {store_ops[0]}"), ok,
               "" if ok else f"body is {body}: the cache and the persistent mapping diverge", nontrivial=True, where=where(f, f.node))
    f = repo.func(UT, f"{CL}.popitem")
    body = [A.norm(s) for s in A.body(f.node)]
    # the pair popped from the cache: its key is deleted from the persistent mapping, and the pair is returned - by unpacking or indexing
    stm_ = A.body(f.node)
    ok = False
    if len(stm_) == 3 and isinstance(stm_[0], ast.Assign) and A.norm(stm_[0].value) == "self._cache.popitem()" and isinstance(stm_[2], ast.Return):
        tg_ = stm_[0].targets[0]
        if isinstance(tg_, ast.Tuple) and len(tg_.elts) == 2:
            k_, v_ = A.norm(tg_.elts[0]), A.norm(tg_.elts[1])
        elif isinstance(tg_, ast.Name):
            k_, v_ = f"{tg_.id}[0]", f"{tg_.id}[1]"
        else:
            k_ = v_ = None
        ok = k_ is not None and A.norm(stm_[1]) == f"del self._func[{k_}]" and A.norm(stm_[2].value) in (f"({k_}, {v_})", tg_.id if isinstance(tg_, ast.Name) else "")
    ctx.ob("C43.D1-write-through", cname(f, None, "popitem removes the same key from the persistent mapping"), ok, "" if ok else f"body is {body}", nontrivial=True, where=where(f, f.node))
    # closed world: who mutates self._cache / self._func
    allowed_cache = {f"{CL}.__init__", f"{CL}.__setitem__", f"{CL}.__delitem__", f"{CL}.popitem", f"{CL}.reload"}
    allowed_func = {f"{CL}.__init__", f"{CL}.__setitem__", f"{CL}.__delitem__", f"{CL}.popitem", f"{CL}.flush"}
    for fn in repo.funcs_in(UT):
        if not fn.qualname.startswith(CL + "."):
            continue
        for s, attr, kind in self_attr_writes(fn.node):
            if attr == "_cache":
                ok = fn.qualname in allowed_cache
                ctx.ob("C43.D1-cache-writers", cname(fn, s), ok, "" if ok else "the cache is mutated without writing through", where=where(fn, s))
            if attr == "_func":
                ok = fn.qualname in allowed_func
                ctx.ob("C43.D1-cache-writers", cname(fn, s), ok, "" if ok else "the persistent mapping is written from an unexpected method", where=where(fn, s))
    ctx.expect("C43.D1-cache-writers", 7)
    g = repo.func(UT, f"{CL}.__getitem__")
    ok = [A.norm(s) for s in A.body(g.node)] == ["return self._cache[key]"]
    ctx.ob("C43.D1-write-through", cname(g, None, "reads come from the cache"), ok, "" if ok else "read path changed", where=where(g, g.node))
    it = repo.func(UT, f"{CL}.__iter__")
    ok = "self._cache" in A.norm(it.node)
    ln = repo.func(UT, f"{CL}.__len__")
    ok = ok and "len(self._cache)" in A.norm(ln.node)
    ctx.ob("C43.D1-write-through", cname(it, None, "iteration / len over the cache"), ok, "" if ok else "iteration source changed", where=where(it, it.node))
    fl = repo.func(UT, f"{CL}.flush")
    loops = [s for s in fl.node.body if isinstance(s, ast.For)]
    ok = False
    if len(loops) == 1 and len(A.body(fl.node)) == 1:
        lp_ = loops[0]
        b_ = [A.norm(x) for x in A.body(lp_.body)]
        if A.norm(lp_.iter) in ("self.items()", "self._cache.items()", "list(self.items())") and isinstance(lp_.target, ast.Tuple) and len(lp_.target.elts) == 2:
            ok = b_ == [f"self._func[{A.norm(lp_.target.elts[0])}] = {A.norm(lp_.target.elts[1])}"]
        elif A.norm(lp_.iter) in ("self", "self._cache", "list(self)", "self.keys()") and isinstance(lp_.target, ast.Name):
            k_ = lp_.target.id
            ok = b_ in ([f"self._func[{k_}] = self[{k_}]"], [f"self._func[{k_}] = self._cache[{k_}]"])
    ctx.ob("C43.D1-write-through", cname(fl, None, "flush rewrites every item (picks up in-place mutation of values)"), ok, "" if ok else "flush skips items", where=where(fl, fl.node))
    rl = repo.func(UT, f"{CL}.reload")
    ok = [A.norm(s) for s in A.body(rl.node)] in (["self._cache = dict(self._func.items())"], ["self._cache = dict(self._func)"],
                                                  ["self._cache = {key: value for key, value in self._func.items()}"], ["self._cache = {k: v for k, v in self._func.items()}"])
    ctx.ob("C43.D1-write-through", cname(rl, None, "reload = everything in the persistent mapping"), ok, "" if ok else "reload changed", where=where(rl, rl.node))
    init = repo.func(UT, f"{CL}.__init__")
    t = A.norm(init.node)
    gi_ = q.cfg(init, q.quiet_policy(repo))
    fstore = [s_ for s_ in A.walk_stmts(init.node.body) if isinstance(s_, ast.Assign) and A.norm(s_.targets[0]) == "self._func"]
    ok = "self.reload()" in t and len(fstore) == 1 and bool(gi_.nodes_of(fstore[0]))
    if ok:
        v_ = q.expand_at(gi_, gi_.nodes_of(fstore[0])[0], fstore[0].value)
        file_stores = [A.norm(q.expand_at(gi_, gi_.nodes_of(s_)[0], s_.value)) for s_ in A.walk_stmts(init.node.body)
                       if isinstance(s_, ast.Assign) and A.norm(s_.targets[0]) == "self._file" and gi_.nodes_of(s_)]
        ok = A.norm(v_) in ("zict.Func(self._dump, self._load, self._file)", "zict.Func(self._dump, self._load, zict.File(directory))") and file_stores == ["zict.File(directory)"]
    ctx.ob("C43.D1-write-through", cname(init, None, "Func(dump, load, File(directory)); loaded on construction"), ok, "" if ok else "construction changed (dump / load swapped or directory ignored)", nontrivial=True, where=where(init, init.node))
    seq = [A.norm(s) for s in init.node.body]
    mk = [i for i, x in enumerate(seq) if x.startswith("self._func = ")]
    ok = "self.reload()" in seq and bool(mk) and seq.index("self.reload()") > mk[0]
    ctx.ob("C43.D1-write-through", cname(init, None, "reload after the persistent mapping exists"), ok, "" if ok else "order changed", where=where(init, init.node))
    # D2
    d, l = repo.func(UT, f"{CL}._dump"), repo.func(UT, f"{CL}._load")
    ok = "msgpack.packb(obj, default=msgpack_numpy.encode, use_bin_type=True)" in A.norm(d.node) and "msgpack.unpackb(file, object_hook=msgpack_numpy.decode, raw=False)" in A.norm(l.node)
    ctx.ob("C43.D2-codec-pair", f"{UT}:{CL}._dump/_load", ok, "" if ok else "encoder and decoder are no longer a matching msgpack / numpy pair", where=where(d, d.node))


CLAIM = {
    "text": "Decides the write-through pairing of PersistentDict: each cache-mutating method applies the same mutation with the same key to the "
            "persistent mapping, the cache and the mapping have closed-world writers, inherited MutableMapping mutators go through those methods, "
            "flush rewrites every item, reads and reload use the expected sources, and dump / load are a matching codec pair. msgpack round trips "
            "and crash points are not decided.",
    "technique": "write-through pairing rule; ownership tables",
}

U = "utils/__init__.py"
MUTANTS = [
    ("delete only touches the cache", [(U, "        del self._cache[key]\n        del self._func[key]", "        del self._cache[key]")], "C43.D1"),
    ("popitem leaves the file behind", [(U, "        key, value = self._cache.popitem()\n        del self._func[key]\n        return key, value", "        key, value = self._cache.popitem()\n        return key, value")], "C43.D1"),
    ("setitem writes lazily", [(U, "        self._cache[key] = value\n        self._func[key] = value", "        self._cache[key] = value")], "C43.D1"),
    ("clear overridden without write-through", [(U, "    def __len__(self):\n        return len(self._cache)\n", "    def __len__(self):\n        return len(self._cache)\n\n    def clear(self):\n        self._cache.clear()\n")], "C43.D1"),
    ("dump and load swapped", [(U, "        self._func = zict.Func(self._dump, self._load, self._file)", "        self._func = zict.Func(self._load, self._dump, self._file)")], "C43.D1"),
    ("flush only writes new keys", [(U, "        for k, v in self.items():\n            self._func[k] = v", "        for k, v in self.items():\n            if k not in self._func:\n                self._func[k] = v")], "C43.D1"),
    ("reads go to the file", [(U, "    def __getitem__(self, key):\n        return self._cache[key]", "    def __getitem__(self, key):\n        return self._func[key]")], "C43.D1"),
]
BENIGN = []
