"""C04 - resuming replays exactly the work done since the last checkpoint."""

from __future__ import annotations

import ast

from .. import astutil as A
from .. import q
from ..idioms import cname, where
from ..re_model import BCLS, BMOD, CLS, MOD, REModel

# commands the statement names as implicit checkpoints -> the device / bundler action whose success must be followed by the reset
IMPLICIT = {
    "stage": lambda s: any(isinstance(c.func, ast.Attribute) and c.func.attr == "stage" and A.chain(c.func.value) == "obj" for c in A.calls_in(s)),
    "unstage": lambda s: any(isinstance(c.func, ast.Attribute) and c.func.attr == "unstage" and A.chain(c.func.value) == "obj" for c in A.calls_in(s)),
    "monitor": lambda s: bool(A.find_calls(s, "current_run.monitor")),
    "unmonitor": lambda s: bool(A.find_calls(s, "current_run.unmonitor")),
    "subscribe": lambda s: bool(A.find_calls(s, "self.subscribe")),
    "unsubscribe": lambda s: bool(A.find_calls(s, "self.unsubscribe")),
    "close_run": lambda s: bool(__import__("bsa.bidioms", fromlist=["x"]).bundler_method_calls(s, "close_run")),
}
NON_REPLAYABLE = ["pause", "open_run", "install_suspender", "remove_suspender", "_start_suspender"]


def is_reset_call(s) -> bool:
    if isinstance(s, (ast.If, ast.For, ast.While, ast.Try, ast.With)):
        return False
    return any((A.call_name(c) or "") in ("self._reset_checkpoint_state", "self._reset_checkpoint_state_meth", "self._reset_checkpoint_state_coro")
               for c in A.calls_in(s))


def rewindable_toggle_resets(ctx, rm: REModel, rule: str, directions):
    """Truth-table evaluation of the rewindable setter: for each (old, new) value of the flag with a resumable plan,
    is the checkpoint reset executed?"""
    from ..booleval import ev
    st = rm.repo.func(MOD, f"{CLS}.rewindable.setter")

    def run_setter(old, new):
        """the setter interpreted statement by statement on the flag's old value and the new value: -> True if the reset is
        executed, False if not, None if a test cannot be decided"""
        env = {"self._rewindable_flag": old, "v": new, "self.resumable": True, "bool(v)": new}
        state = {"done": False, "undecided": False}

        def block(stmts):
            for s_ in stmts:
                if isinstance(s_, ast.Assign) and len(s_.targets) == 1:
                    key = A.norm(s_.targets[0])
                    val = ev(s_.value, env)
                    if val is None and not (isinstance(s_.value, ast.Constant) and s_.value.value is None):
                        env.pop(key, None)
                    else:
                        env[key] = val
                elif isinstance(s_, ast.If):
                    t = ev(s_.test, env)
                    if t is None:
                        if any(is_reset_call(x) for x in A.walk_stmts(s_.body + s_.orelse)) or any(isinstance(x, ast.Return) for x in A.walk_stmts(s_.body + s_.orelse)):
                            state["undecided"] = True
                            return "stop"
                        continue
                    if block(s_.body if t else s_.orelse) == "stop":
                        return "stop"
                elif isinstance(s_, ast.Return):
                    return "stop"
                elif is_reset_call(s_):
                    state["done"] = True
            return None
        block(A.body(st.node))
        return None if (state["undecided"] and not state["done"]) else state["done"]
    for old, new in directions:
        done = run_setter(old, new)
        what = "re-enabling" if new else "disabling"
        ctx.ob(rule, cname(st, None, f"{what} rewinding ({old} -> {new}) resets the checkpoint"), done is True,
               "" if done is True else (f"{what} rewinding does not reset the checkpoint: " +
                ("messages executed and events emitted while not rewindable are not replayed, but the counters are rolled back past them"
                 if new else "messages executed before the toggle would be replayed")) + ("" if done is False else " (guard not decidable)"),
               nontrivial=True, where=where(st, st.node))


def d1_cache_discipline(ctx, rm: REModel):
    repo = rm.repo
    run = rm.run
    appends = []
    for f in repo.all_funcs():
        for s in A.walk_stmts(f.node.body):
            if not isinstance(s, (ast.If, ast.For, ast.While, ast.Try, ast.With)):
                for c in A.calls_in(s):
                    if A.call_name(c) in ("self._msg_cache.append", "self._msg_cache.appendleft", "self._msg_cache.extend", "self._msg_cache.insert"):
                        appends.append((f, s))
    for f, s in appends:
        ok = f.key == run.key
        ctx.ob("C04.D1-single-cache-append", cname(f, s), ok, "" if ok else "messages are added to the replay cache outside _run", where=where(f, s))
    ctx.expect("C04.D1-single-cache-append", 1)
    n_in_run = sum(1 for f, s in appends if f.key == run.key)
    ctx.ob("C04.D1-single-cache-append", cname(run, None, "exactly one append site"), n_in_run == 1,
           "" if n_in_run == 1 else f"{n_in_run} append sites in _run (a message would be replayed {n_in_run} times)", where=where(run, run.node))
    # guard
    g = q.cfg(run, q.quiet_policy(repo))
    for f, s in appends:
        if f.key != run.key:
            continue
        for conj, why in (("self._msg_cache is not None", "appending to a discarded cache"),
                          ("self._rewindable_flag", "messages executed while not rewindable would be replayed"),
                          ("msg.command not in self._UNCACHEABLE_COMMANDS", "non-replayable commands would be replayed")):
            def has(t, conj=conj):
                vals = t.values if isinstance(t, ast.BoolOp) and isinstance(t.op, ast.And) else [t]
                return any(A.norm(v) == conj for v in vals)
            w = q.guard_true_dominates(g, s, has, "T")
            ctx.ob("C04.D1-cache-guard", cname(run, None, f"append guarded by `{conj}`"), w is None,
                   "" if w is None else why, nontrivial=True, witness=w[-6:] if w else None, where=where(run, s))
        # the cached object is the message being executed
        c = [c for c in A.calls_in(s) if (A.call_name(c) or "").startswith("self._msg_cache.")][0]
        ok = len(c.args) == 1 and A.norm(c.args[0]) == "msg"
        ctx.ob("C04.D1-cache-guard", cname(run, None, "the cached object is the message about to be executed"), ok,
               "" if ok else f"`{A.norm(c)}` caches something else", where=where(run, s))
        # and it is cached before it is executed
        execs = q.stmts(run, lambda x: isinstance(x, ast.Assign) and "await coro(msg)" in A.norm(x))
        if execs:
            w = q.dominated(g, execs[0], lambda n: n.stmt is s and False)  # placeholder to keep the graph built
            seq = list(A.walk_stmts(run.node.body))
            ok = seq.index(s) < seq.index(execs[0])
            ctx.ob("C04.D1-cache-guard", cname(run, None, "cached before it is executed"), ok,
                   "" if ok else "a message interrupted during its execution would not be replayed", where=where(run, s))
    q.check_writers(ctx, "C04.D1-cache-writers", repo, "_msg_cache",
                    {f"{CLS}.__init__": "created", f"{CLS}._clear_call_cache": "fresh cache per call", f"{CLS}._rewind": "emptied after being turned into the replay plan",
                     f"{CLS}._reset_checkpoint_state_meth": "checkpoint: start a fresh cache", f"{CLS}._clear_checkpoint": "discarded (None)",
                     f"{CLS}._run": "the single append"}, modules=None, min_instances=5)


NO_CHECKPOINT_GUARDS = ("self._msg_cache is None", "not self.resumable")


def reset_skipped_only_without_checkpoint(ctx, rm: REModel, rule: str):
    """The reset chain (_reset_checkpoint_state_coro -> _reset_checkpoint_state -> _reset_checkpoint_state_meth) performs its two
    effects - fresh replay cache, counter snapshot of every open run - on every path, except on the true branch of a test that
    says exactly 'no checkpoint is in effect' (cache is None).  Any weaker skip condition (empty cache, rewinding switched off, ...)
    leaves a stale cache / stale counter snapshot behind a checkpoint."""
    repo = rm.repo
    for nm in ("_reset_checkpoint_state_meth", "_reset_checkpoint_state", "_reset_checkpoint_state_coro"):
        f = rm.m(nm)
        g = q.cfg(f, q.quiet_policy(repo))
        if nm == "_reset_checkpoint_state_meth":
            effects = {
                "fresh replay cache": lambda n: n.stmt is not None and n.kind == "stmt" and isinstance(n.stmt, ast.Assign) and A.chain(n.stmt.targets[0]) == "self._msg_cache"
                and isinstance(n.stmt.value, ast.Call) and A.call_name(n.stmt.value) == "deque",
                "counter snapshot of every open run": lambda n: n.stmt is not None and isinstance(n.stmt, ast.For) and bool(A.method_calls(n.stmt, "reset_checkpoint_state")),
            }
        else:
            effects = {"the reset": lambda n: n.stmt is not None and n.kind == "stmt" and is_reset_call(n.stmt)}

        def edge_ok(u, v, label):
            nu = g.nodes[u]
            # leaving through the true branch of an exact 'no checkpoint' test is the one allowed way to skip
            return not (nu.kind == "test" and label == "T" and A.norm(nu.ast) in NO_CHECKPOINT_GUARDS)

        for what, pred in effects.items():
            w = g.must_pass([g.entry], pred, exits=[g.exit], edge_ok=edge_ok)
            ctx.ob(rule, cname(f, None, f"{what} on every path except 'no checkpoint in effect'"), w is None,
                   "" if w is None else f"{nm} can return without {what} although a checkpoint is in effect (skip condition weaker than `self._msg_cache is None`): "
                   "a later rewind replays a stale cache / rolls counters back to a stale snapshot", nontrivial=True, witness=w[-6:] if w else None, where=where(f, f.node))


def d2_implicit_checkpoints(ctx, rm: REModel):
    repo = rm.repo
    for cmd, action in IMPLICIT.items():
        h = rm.handler(cmd)
        g = q.cfg(h, q.quiet_policy(repo))
        acts = [s for s in A.walk_stmts(h.node.body) if not isinstance(s, (ast.If, ast.For, ast.While, ast.Try, ast.With)) and action(s)]
        if not acts:
            ctx.ob("C04.D2-implicit-checkpoint", cname(h, None, f"handler of {cmd!r}"), False,
                   "the handler's action statement was not recognised (rule anchor lost)", where=where(h, h.node))
            continue
        starts = [v for a in acts for nid in g.nodes_of(a) for v, lab in g.succ[nid] if not (isinstance(lab, tuple) and lab[0] == "exc")]
        w = g.must_pass(starts, lambda n: n.stmt is not None and n.kind == "stmt" and is_reset_call(n.stmt), exits=[g.exit])
        ctx.ob("C04.D2-implicit-checkpoint", cname(h, None, f"handler of {cmd!r}"), w is None,
               "" if w is None else f"after `{A.head(acts[0])}` succeeds the handler can return without resetting the RunEngine checkpoint: "
               "a later pause replays messages executed before this command", nontrivial=True, witness=w[-6:] if w else None, where=where(h, acts[0]))
    ctx.expect("C04.D2-implicit-checkpoint", 7)
    # toggling rewindability
    rewindable_toggle_resets(ctx, rm, "C04.D2-implicit-checkpoint", directions=((True, False), (False, True)))
    hr = rm.handler("rewindable")
    ok = any(isinstance(s, ast.Assign) and A.chain(s.targets[0]) == "self.rewindable" for s in A.walk_stmts(hr.node.body))
    ctx.ob("C04.D2-implicit-checkpoint", cname(hr, None, "the 'rewindable' command goes through the property setter"), ok,
           "" if ok else "the 'rewindable' command bypasses the setter (no implicit checkpoint)", where=where(hr, hr.node))
    # the reset: fresh cache + snapshot of every bundler's counters
    rs = rm.m("_reset_checkpoint_state_meth")
    ok1 = any(isinstance(s, ast.Assign) and A.chain(s.targets[0]) == "self._msg_cache" and isinstance(s.value, ast.Call) and A.call_name(s.value) == "deque"
              and not s.value.args for s in A.walk_stmts(rs.node.body))
    loops = [s for s in A.walk_stmts(rs.node.body) if isinstance(s, ast.For) and "self._run_bundlers" in A.norm(s.iter) and A.method_calls(s, "reset_checkpoint_state")]
    ctx.ob("C04.D2-reset-shape", cname(rs, None, "fresh empty cache"), ok1, "" if ok1 else "the checkpoint no longer starts an empty replay cache", where=where(rs, rs.node))
    ctx.ob("C04.D2-reset-shape", cname(rs, None, "every bundler snapshots its counters"), bool(loops),
           "" if loops else "the checkpoint no longer snapshots the sequence counters of every open run", where=where(rs, rs.node))
    reset_skipped_only_without_checkpoint(ctx, rm, "C04.D2-reset-shape")
    for nm in ("_reset_checkpoint_state", "_reset_checkpoint_state_coro"):
        f = rm.m(nm)
        ok = any(is_reset_call(s) for s in A.walk_stmts(f.node.body))
        ctx.ob("C04.D2-reset-shape", cname(f, None, "delegates to the reset"), ok, "" if ok else f"{nm} no longer performs the reset", where=where(f, f.node))


def d3_uncacheable_table(ctx, rm: REModel):
    unc = rm.uncacheable
    reg = rm.registry
    for c in unc:
        ctx.ob("C04.D3-uncacheable-table", f"{MOD}:{CLS}._UNCACHEABLE_COMMANDS[{c!r}]", c in reg,
               "" if c in reg else "names a command that is not registered")
    for c in list(IMPLICIT) + NON_REPLAYABLE:
        ctx.ob("C04.D3-uncacheable-table", f"{MOD}:{CLS}._UNCACHEABLE_COMMANDS must contain {c!r}", c in unc,
               "" if c in unc else f"{c!r} would be replayed after a rewind")


def d4_rewind(ctx, rm: REModel):
    rw = rm.m("_rewind")
    seq = list(A.walk_stmts(rw.node.body))
    # the value returned is ensure_generator(<order-preserving copy of self._msg_cache>), the copy being taken (on every path)
    # before the cache is replaced; resolved through reaching definitions, so temporaries do not matter
    import copy as _copy
    g = q.cfg(rw, q.quiet_policy(rm.repo))
    CACHE = "self._msg_cache"
    COPIES = (f"list({CACHE})", f"tuple({CACHE})", f"deque({CACHE})", f"{CACHE}.copy()", f"copy.copy({CACHE})", f"[*{CACHE}]", f"({CACHE})")

    def resolve(nid, e, depth=6):
        """-> (expanded expression, ids of the CFG nodes at which self._msg_cache is read for it)"""
        sites = set()

        def at(node_id, e, d):
            class X(ast.NodeTransformer):
                def visit_Attribute(self, n):
                    if A.chain(n) == CACHE and isinstance(n.ctx, ast.Load):
                        sites.add(node_id)
                    return self.generic_visit(n)

                def visit_Name(self, n):
                    if not isinstance(n.ctx, ast.Load) or d <= 0:
                        return n
                    defs = q.reaching_defs(g, node_id, n.id)
                    if len(defs) != 1 or defs[0][0] != "assign" or defs[0][1] is None or isinstance(defs[0][2].stmt, ast.AugAssign):
                        return n
                    return at(defs[0][2].id, _copy.deepcopy(defs[0][1]), d - 1)
            return X().visit(_copy.deepcopy(e))
        return at(nid, e, depth), sites

    resets = [s for s in seq if isinstance(s, ast.Assign) and any(A.chain(t) == CACHE for t in s.targets)]
    reset_ids = [i for s in resets for i in g.nodes_of(s)]
    after_reset = g.reachable(reset_ids) if reset_ids else set()
    ret = [s for s in seq if isinstance(s, ast.Return)]
    ok_plan, ok_before, why = bool(ret), True, ""
    for r in ret:
        for nid in g.nodes_of(r):
            e, sites = resolve(nid, r.value) if r.value is not None else (None, set())
            txt = A.norm(e) if e is not None else "None"
            if not any(txt == f"ensure_generator({c})" for c in COPIES[:-1]):
                ok_plan, why = False, f"`return {A.short(r.value)}` is `{txt}`"
            if any(i in after_reset and i not in reset_ids for i in sites):
                ok_before, why = False, "the cache is read for the replay plan after it was emptied"
    # the cache is emptied on every normal path
    must_reset = bool(reset_ids) and g.exit not in g.reachable([g.entry], avoid=lambda n: n.id in reset_ids)
    ok = ok_plan and ok_before and must_reset
    ctx.ob("C04.D4-rewind-shape", cname(rw, None, "replay plan = the cached messages in order, then the cache is emptied"), ok,
           "" if ok else "the replay plan is not an order-preserving copy of the cache taken before it is emptied" + (f" ({why})" if why else ""), where=where(rw, rw.node), nontrivial=True)
    ok = ok_plan
    ctx.ob("C04.D4-rewind-shape", cname(rw, None, "returns the replay plan"), ok, "" if ok else "_rewind does not return the plan it built", where=where(rw, rw.node))
    loops = [s for s in seq if isinstance(s, ast.For) and "self._run_bundlers" in A.norm(s.iter) and A.method_calls(s, "rewind")]
    ctx.ob("C04.D4-rewind-shape", cname(rw, None, "every bundler rewinds"), bool(loops), "" if loops else "bundlers are no longer rewound", where=where(rw, rw.node))
    # resume pushes the replay plan (with a None response) on top of the user's plan
    rs = rm.m("resume")
    seq = list(A.walk_stmts(rs.node.body))
    # the plan pushed is what _rewind returned (named first or passed directly)
    i_push = next((i for i, s in enumerate(seq) if isinstance(s, ast.Expr) and isinstance(s.value, ast.Call) and A.call_name(s.value) == "self._plan_stack.append"
                   and len(s.value.args) == 1 and A.norm(q.expand(rs.node, s.value.args[0])) == "self._rewind()"), None)
    i_rw = next((i for i, s in enumerate(seq) if A.find_calls(s, "self._rewind")), None)
    i_resp = next((i for i, s in enumerate(seq) if A.norm(s) == "self._response_stack.append(None)"), None)
    i_task = next((i for i, s in enumerate(seq) if A.find_calls(s, "self._resume_task")), None)
    ok = None not in (i_rw, i_push, i_resp, i_task) and i_rw <= i_push < i_task and i_resp < i_task
    ctx.ob("C04.D4-rewind-shape", cname(rs, None, "resume pushes the replay plan and a None response before restarting the task"), ok,
           "" if ok else "resume no longer replays the cached messages before continuing the plan", where=where(rs, rs.node))
    # suspension: helper plan order
    ss = rm.handler("_start_suspender")
    helper = rm.repo.func(MOD, f"{CLS}._start_suspender.suspender_helper_inner_plan")
    # what the helper yields, in order; the operands are classified by where their value comes from (followed through the
    # single assignments of _start_suspender), not by what the locals are called
    def origin(e):
        x = A.norm(q.expand(ss.node, e))
        if "pre_plan" in x and "post_plan" not in x:
            return "pre-plan"
        if "post_plan" in x and "pre_plan" not in x:
            return "post-plan"
        if x in ("self._rewind()",):
            return "replay"
        if x == "self.rewindable":
            return "saved"
        return x
    order = []
    for s in helper.node.body:
        for n in A.walk_local(s):
            if isinstance(n, ast.Yield) and A.is_msg_yield(n):
                cmd = A.const_str(n.value.args[0])
                extra = ""
                if cmd == "rewindable" and len(n.value.args) >= 3:
                    extra = ":" + origin(n.value.args[2])
                if not (order and order[-1] == cmd + extra == "wait_for"):
                    order.append(cmd + extra)
            if isinstance(n, ast.YieldFrom):
                order.append("yield from " + origin(n.value))
    want = ["rewindable:False", "yield from pre-plan", "wait_for", "_resume_from_suspender",
            "yield from post-plan", "rewindable:saved", "yield from replay"]
    ok = order == want
    ctx.ob("C04.D4-suspender-helper-order", cname(helper, None, "non-rewindable pre-plan, wait, resume, post-plan, restore, replay"), ok,
           "" if ok else f"helper plan yields {order}", nontrivial=True, where=where(helper, helper.node))
    txt = A.norm(ss.node)
    # both are taken in _start_suspender itself (before the helper generator is even created), the rewind first
    seq_ss = [x for x in ss.node.body if isinstance(x, ast.Assign)]
    i_rw_ = next((i for i, x in enumerate(seq_ss) if A.norm(x.value) == "self._rewind()"), None)
    i_wr_ = next((i for i, x in enumerate(seq_ss) if A.norm(x.value) == "self.rewindable"), None)
    ok = i_rw_ is not None and i_wr_ is not None
    ctx.ob("C04.D4-suspender-helper-order", cname(ss, None, "rewind_plan and was_rewindable captured before the helper is built"), ok,
           "" if ok else "the suspension no longer captures the replay plan / rewindable state", where=where(ss, ss.node))


def run(ctx):
    rm = REModel(ctx.repo)
    ctx.explanation = (
        "Decided: D1 the replay cache has one append site in _run, guarded by (cache exists, rewindable, command replayable), "
        "caching the message before it is executed, and a closed set of other writers; D2 every handler of a command named as an "
        "implicit checkpoint reaches the RunEngine-level checkpoint reset on every normal path after its action succeeded "
        "(must-pass-through on the handler CFG), the rewindable setter resets on a toggle, the reset starts an empty cache and "
        "snapshots every bundler; D3 _UNCACHEABLE_COMMANDS is contained in the registry and contains every implicit-checkpoint and "
        "non-replayable command; D4 _rewind builds an order-preserving replay plan, resume / the suspender helper push it in the "
        "documented order. Not decided: which concrete messages a given plan replays.")
    d1_cache_discipline(ctx, rm)
    d2_implicit_checkpoints(ctx, rm)
    d3_uncacheable_table(ctx, rm)
    d4_rewind(ctx, rm)


CLAIM = {
    "text": "Decides the structural mechanism behind 'replays exactly the work since the last checkpoint': single guarded append site of "
            "the replay cache with closed-world writers; every implicit-checkpoint handler passes the RunEngine-level reset on all "
            "normal paths after its action; the non-replayable command table is consistent with the registry and the statement; "
            "_rewind / resume / the suspender helper plan build and push the replay plan in order. Which messages a concrete plan "
            "replays is not decided.",
    "technique": "ownership tables; guard dominance and must-pass-through on handler CFGs; provenance of the replay plan through reaching definitions; table agreement; yield-sequence check",
}

RE = "run_engine.py"
MUTANTS = [
    ("close_run no longer a RunEngine checkpoint (revert of the F-2 fix)",
     [(RE, "        # closing a run is an implicit checkpoint: nothing done in it may be replayed\n        await self._reset_checkpoint_state_coro()\n", "")], "C04.D2"),
    ("unstage forgets the reset",
     [(RE, "        self._staged.discard(obj)\n        await self._reset_checkpoint_state_coro()\n", "        self._staged.discard(obj)\n")], "C04.D2"),
    ("'monitor' becomes replayable",
     [(RE, '        "monitor",\n        "unmonitor",\n        "open_run",', '        "unmonitor",\n        "open_run",')], "C04.D3"),
    ("cache guard drops the rewindable flag",
     [(RE, "                        self._msg_cache is not None\n                        and self._rewindable_flag\n                        and msg.command", "                        self._msg_cache is not None\n                        and msg.command")], "C04.D1"),
    ("second append of the message",
     [(RE, "                        self._msg_cache.append(msg)\n", "                        self._msg_cache.append(msg)\n                        self._msg_cache.append(msg)\n")], "C04.D1"),
    ("subscribe resets only when a status is returned",
     [(RE, "        self._temp_callback_ids.add(token)\n        await self._reset_checkpoint_state_coro()\n        return token", "        self._temp_callback_ids.add(token)\n        if token is None:\n            await self._reset_checkpoint_state_coro()\n        return token")], "C04.D2"),
    ("replay plan built from a reversed cache",
     [(RE, "        new_plan = ensure_generator(list(self._msg_cache))", "        new_plan = ensure_generator(list(reversed(self._msg_cache)))")], "C04.D4"),
    ("replay happens before the suspension wait",
     [(RE, "            yield Msg(\"rewindable\", None, was_rewindable)\n            yield from rewind_plan\n", "            yield Msg(\"rewindable\", None, was_rewindable)\n"),
      (RE, "            # wait for the future from the suspender to be released.  This message is not\n", "            yield from rewind_plan\n            # wait for the future from the suspender to be released.  This message is not\n")], "C04.D4"),
    ("checkpoint keeps the old cache",
     [(RE, "        self._msg_cache = deque()\n        for current_run in self._run_bundlers.values():\n            current_run.reset_checkpoint_state()", "        for current_run in self._run_bundlers.values():\n            current_run.reset_checkpoint_state()")], "C04.D2"),
    ("rewindable toggle no longer a checkpoint",
     [(RE, "        if self.resumable and self._rewindable_flag != cur_state:\n            self._reset_checkpoint_state()", "        if self.resumable and self._rewindable_flag != cur_state:\n            pass")], "C04.D2"),
    ("message cached after execution",
     [(RE, "                        new_response = await coro(msg)\n", "                        new_response = await coro(msg)\n                        self._objs_seen.add(msg.obj)\n"),
      (RE, "                        # We have a checkpoint.\n                        self._msg_cache.append(msg)\n", "                        pass\n"),
      (RE, "                    else:\n                        continue\n\n                except KeyboardInterrupt:", "                    else:\n                        if self._msg_cache is not None and self._rewindable_flag and msg.command not in self._UNCACHEABLE_COMMANDS:\n                            self._msg_cache.append(msg)\n                        continue\n\n                except KeyboardInterrupt:")],
     "C04.D1"),
    ("resume forgets the replay plan",
     [(RE, "        new_plan = self._rewind()\n        self._plan_stack.append(new_plan)\n        self._response_stack.append(None)\n        # Notify Devices of the resume", "        new_plan = self._rewind()\n        # Notify Devices of the resume")], "C04.D4"),
    ("bundlers not snapshotted at a checkpoint",
     [(RE, "        self._msg_cache = deque()\n        for current_run in self._run_bundlers.values():\n            current_run.reset_checkpoint_state()", "        self._msg_cache = deque()")], "C04.D2"),
]
BENIGN = [
    ("reset through the sync helper in _stage",
     [(RE, "        self._staged.add(obj)  # add first in case of failure below\n        await self._reset_checkpoint_state_coro()", "        self._staged.add(obj)  # add first in case of failure below\n        self._reset_checkpoint_state()")]),
    ("uncacheable list reordered",
     [(RE, '        "pause",\n        "subscribe",\n        "unsubscribe",', '        "subscribe",\n        "pause",\n        "unsubscribe",')]),
]
