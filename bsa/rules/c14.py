"""C14 - concurrent runs with different run keys stay independent."""

from __future__ import annotations

import ast

from .. import astutil as A
from .. import q
from ..bidioms import iterates_all_bundlers
from ..idioms import cname, prev_siblings, sentinel_lookup, where
from ..re_model import CLS, MOD, REModel
from . import c01

PP = "bluesky.preprocessors"

BROADCAST = {
    "_checkpoint": "a checkpoint applies to every open run (bundling guard)",
    "_reset_checkpoint_state_meth": "every run snapshots its counters",
    "_rewind": "every run rewinds",
    "_clear_checkpoint": "every run drops its snapshot",
    "_request_pause_coro": "interruption recorded in every run",
    "resume": "interruption recorded in every run",
    "_start_suspender": "interruption recorded / monitors suspended in every run",
    "_resume": "monitors restored in every run",
    "_run": "pause block and cleanup act on every run",
}
STRUCTURAL = {"__init__": "creates the map", "_open_run": "registers the new run under its key", "_close_run": "removes the closed run's key"}


def key_is_msg_run(h, g, key_node, at_stmt) -> bool:
    if A.norm(key_node) == "msg.run":
        return True
    if isinstance(key_node, ast.Name):
        nids = g.nodes_of(at_stmt)
        if not nids:
            return False
        defs = q.reaching_defs(g, nids[0], key_node.id)
        return bool(defs) and all(k == "assign" and A.norm(v) == "msg.run" for k, v, n in defs)
    return False


def d1_keyed_or_broadcast(ctx, rm: REModel):
    repo = rm.repo
    for f in repo.funcs_in(MOD):
        if not f.qualname.startswith(CLS + ".") or f.qualname.count(".") != 1:
            continue
        name = f.qualname.split(".", 1)[1]
        if "self._run_bundlers" not in A.norm(f.node):
            continue
        g = q.cfg(f, q.quiet_policy(repo))
        uses = []
        prevs = prev_siblings(f.node)
        for s in A.walk_stmts(f.node.body):
            if isinstance(s, (ast.For, ast.AsyncFor)) and "self._run_bundlers" in A.norm(s.iter):
                uses.append(("iter", s, None))
            if isinstance(s, ast.If):
                sl = sentinel_lookup(s.test, prevs.get(s))
                if sl and sl[1] == "self._run_bundlers":
                    uses.append(("lookup", s, sl[2]))
                elif "self._run_bundlers" in A.norm(s.test) and isinstance(s.test, ast.Compare) and isinstance(s.test.ops[0], (ast.In, ast.NotIn)):
                    uses.append(("lookup", s, s.test.left))
            if not isinstance(s, (ast.If, ast.For, ast.AsyncFor, ast.While, ast.Try, ast.With)):
                for n in A.walk_local(s):
                    if isinstance(n, ast.Subscript) and A.chain(n.value) == "self._run_bundlers":
                        uses.append(("index", s, n.slice))
                    if isinstance(n, ast.Call) and A.call_name(n) in ("self._run_bundlers.get", "self._run_bundlers.pop") and n.args:
                        uses.append(("index", s, n.args[0]))
                    if isinstance(n, ast.Call) and A.call_name(n) in ("self._run_bundlers.clear",):
                        uses.append(("clear", s, None))
        for kind, s, key in uses:
            if kind in ("lookup", "index"):
                ok = key_is_msg_run(f, g, key, s)
                ctx.ob("C14.D1-keyed-by-message-run", cname(f, s), ok,
                       "" if ok else f"the bundler is selected with `{A.short(key)}`, not with the run key of the message being executed",
                       nontrivial=True, where=where(f, s))
            elif kind == "iter":
                ok = name in BROADCAST and iterates_all_bundlers(s)
                ctx.ob("C14.D1-broadcast-table", cname(f, s), ok,
                       BROADCAST.get(name, "") if ok else ("iterates over runs in a function outside the frozen broadcast table" if name not in BROADCAST
                                                           else "the broadcast does not cover every open run"), where=where(f, s))
            elif kind == "clear":
                ok = name == "_run"
                ctx.ob("C14.D1-broadcast-table", cname(f, s), ok, "" if ok else "the map of open runs is cleared outside _run's cleanup", where=where(f, s))
    ctx.expect("C14.D1-keyed-by-message-run", 12)
    ctx.expect("C14.D1-broadcast-table", 10)


def d2_open_rejects_duplicate_first(ctx, rm: REModel):
    h = rm.handler("open_run")
    g = q.cfg(h, q.quiet_policy(rm.repo))
    guard = [s for s in h.node.body if isinstance(s, ast.If) and " in self._run_bundlers" in A.norm(s.test) and " not in " not in A.norm(s.test)
             and any(isinstance(x, ast.Raise) for x in s.body)]
    if not guard:
        ctx.ob("C14.D2-duplicate-key-rejected-first", cname(h, None, "duplicate run key guard"), False,
               "opening a run whose key is already open is not rejected", where=where(h, h.node))
        return
    gi = h.node.body.index(guard[0])
    effects = []
    for s in h.node.body[:gi]:
        for x in A.walk_stmts([s]):
            txt = A.norm(x)
            if isinstance(x, (ast.Assign, ast.AugAssign)) and any((A.chain(t) or "").startswith("self.") or (isinstance(t, ast.Subscript) and (A.chain(t.value) or "").startswith("self."))
                                                                  for t in A.targets_of(x)):
                effects.append(x)
            elif isinstance(x, ast.Expr) and isinstance(x.value, (ast.Call, ast.Await)) and ("self." in txt or "tracer." in txt) and "_set_span_msg_attributes" not in txt:
                effects.append(x)
            elif isinstance(x, ast.Assign) and ("tracer.start_span" in txt):
                effects.append(x)
    ctx.ob("C14.D2-duplicate-key-rejected-first", cname(h, None, "no state is touched before the duplicate-key rejection"), not effects,
           "" if not effects else f"`{A.head(effects[0])}` runs before the rejection: a rejected open_run disturbs the engine / leaks a resource",
           nontrivial=True, where=where(h, guard[0]))
    key = guard[0].test.left
    ok = key_is_msg_run(h, g, key, guard[0])
    ctx.ob("C14.D2-duplicate-key-rejected-first", cname(h, None, "the checked key is the message's run key"), ok, "" if ok else "wrong key checked", where=where(h, guard[0]))
    reg = [s for s in A.walk_stmts(h.node.body) if isinstance(s, ast.Assign) and any(isinstance(t, ast.Subscript) and A.chain(t.value) == "self._run_bundlers" for t in s.targets)]
    ok = bool(reg) and all(key_is_msg_run(h, g, [t for t in s.targets if isinstance(t, ast.Subscript)][0].slice, s) for s in reg)
    ctx.ob("C14.D2-duplicate-key-rejected-first", cname(h, None, "the new bundler is registered under the message's run key"), ok, "" if ok else "registered under another key", where=where(h, h.node))
    ok = bool(reg) and all("RunBundler(" in A.norm(q.expand_at(g, g.nodes_of(s_)[0], s_.value)) for s_ in reg if g.nodes_of(s_))
    ctx.ob("C14.D2-duplicate-key-rejected-first", cname(h, None, "each run gets a fresh RunBundler"), ok, "" if ok else "bundlers are shared between runs", where=where(h, h.node))
    cl = rm.handler("close_run")
    dels = [s for s in A.walk_stmts(cl.node.body) if isinstance(s, ast.Delete) and "self._run_bundlers[" in A.norm(s)]
    gc = q.cfg(cl, q.quiet_policy(rm.repo))
    ok = bool(dels) and key_is_msg_run(cl, gc, dels[0].targets[0].slice, dels[0])
    ctx.ob("C14.D2-duplicate-key-rejected-first", cname(cl, None, "close_run removes only its own key"), ok, "" if ok else "close_run removes another run", where=where(cl, cl.node))


def d3_set_run_key(ctx, repo):
    f = repo.func(PP, "set_run_key_wrapper._set_run_key")
    # what the message processor returns, for a message without and with a run key (the function specialised for each case)
    def returned(no_key):
        env = {"msg.run is None": no_key, "msg.run is not None": not no_key}
        flat = list(A.walk_stmts(q.specialise(A.body(f.node), env)))
        r = next((x for x in flat if isinstance(x, ast.Return) and x.value is not None), None)
        if r is None:
            return None
        v = q.straight_line_value(flat[:flat.index(r)], r.value)
        if isinstance(v, ast.IfExp):
            from .. import booleval
            t = booleval.ev(v.test, env)
            v = v if t is None else (v.body if t else v.orelse)
        return A.norm(v)
    ok = returned(True) == "msg._replace(run=run)"
    ctx.ob("C14.D3-run-key-only-filled-in", cname(f, None, "only messages without a run key get the wrapper's key"), ok and returned(False) == "msg",
           "" if (ok and returned(False) == "msg") else "set_run_key_wrapper overrides run keys of nested runs", where=where(f, f.node))
    ok = returned(False) == "msg" and returned(True) is not None
    ctx.ob("C14.D3-run-key-only-filled-in", cname(f, None, "returns the message"), ok, "" if ok else "message dropped", where=where(f, f.node))
    w = repo.func(PP, "set_run_key_wrapper")
    ok = any(isinstance(s, ast.If) and A.norm(s.test) == "run is None" and any(isinstance(x, ast.Raise) for x in s.body) for s in w.node.body)
    ctx.ob("C14.D3-run-key-only-filled-in", cname(w, None, "None is rejected as a run key"), ok, "" if ok else "None accepted", where=where(w, w.node))
    # Msg carries the key
    m = repo.cls("bluesky.utils", "Msg")
    new = [s for s in m.node.body if isinstance(s, ast.FunctionDef) and s.name == "__new__"]
    ok = bool(new) and "run=None" in A.norm(new[0].args) and "super(Msg, cls).__new__(cls, command, obj, args, kwargs, run)" in A.norm(new[0])
    ctx.ob("C14.D3-run-key-only-filled-in", f"bluesky.utils:Msg.__new__", ok, "" if ok else "Msg no longer stores the run key in its last field")


def run(ctx):
    rm = REModel(ctx.repo)
    # closing a run (or toggling rewinding, ...) is an implicit checkpoint of the ENGINE: it refreshes the counter snapshot of every run that
    # stays open - otherwise a later rewind rolls an independent run back over events it has already emitted (seeds C14-b, C14-c)
    from . import c04

    q.relabelled(ctx, "C04.D2", "C14.D3", c04.d2_implicit_checkpoints, rm)
    ctx.explanation = (
        "Decided: D1 every use of the map of open runs in RunEngine is keyed by the run key of the message being executed (reaching "
        "definitions of the key expression) or is a loop over every run in a function of the frozen broadcast table; D2 open_run "
        "rejects an already open key before touching any state, registers a fresh bundler under the message's key, close_run removes "
        "only its own key; D3 set_run_key_wrapper only fills in missing keys; D4 documents of a run come from that run's own compose "
        "bundle (C01.D4). Not decided: run-time interleavings; per-run guarantees are the other properties' clauses applied per bundler.")
    d1_keyed_or_broadcast(ctx, rm)
    d2_open_rejects_duplicate_first(ctx, rm)
    d3_set_run_key(ctx, ctx.repo)
    n0 = len(ctx.obligations)
    c01.d4_provenance(ctx, rm)
    for o in ctx.obligations[n0:]:
        o["rule"] = o["rule"].replace("C01.D4", "C14.D4")
    ctx._min = {k.replace("C01.D4", "C14.D4"): v for k, v in ctx._min.items()}


CLAIM = {
    "text": "Decides that every access to the map of open runs is either keyed by the executing message's run key or a deliberate broadcast over "
            "all runs (frozen table with reasons), that open_run rejects a duplicate key before any state change and registers a fresh bundler "
            "under that key, that close_run removes only its own key and - like every implicit checkpoint - resets the checkpoint of the whole engine (every run that stays open), that set_run_key_wrapper only fills in missing keys, and that each "
            "bundler's documents come from its own compose bundle. Run-time interleavings are not decided.",
    "technique": "sibling agreement (keyed vs broadcast) with reaching definitions of the key; guard-before-effects; provenance",
}

RE = "run_engine.py"
MUTANTS = [
    ("_save falls back to the only open run",
     [(RE, "            ims_msg = \"A 'save' message was sent but no run is open.\"\n            raise IllegalMessageSequence(ims_msg)\n        else:\n            await current_run.save(msg)",
       "            ims_msg = \"A 'save' message was sent but no run is open.\"\n            raise IllegalMessageSequence(ims_msg)\n        else:\n            await self._run_bundlers[None if len(self._run_bundlers) > 1 else next(iter(self._run_bundlers))].save(msg)")], "C14.D1"),
    ("_drop keyed by the first open run",
     [(RE, "        run_key = msg.run\n        if (\n            current_run := self._run_bundlers.get(run_key, key_absence_sentinel := object())\n        ) is key_absence_sentinel:\n            ims_msg = \"A 'drop' message was sent but no run is open.\"",
       "        run_key = msg.run if msg.run in self._run_bundlers else next(iter(self._run_bundlers), None)\n        if (\n            current_run := self._run_bundlers.get(run_key, key_absence_sentinel := object())\n        ) is key_absence_sentinel:\n            ims_msg = \"A 'drop' message was sent but no run is open.\"")], "C14.D1"),
    ("set_run_key replaces every key",
     [("preprocessors.py", "        if msg.run is None:\n            msg = msg._replace(run=run)", "        if msg.run is None or msg.command != \"open_run\":\n            msg = msg._replace(run=run)")], "C14.D3"),
    ("scan_id bumped before the duplicate check",
     [(RE, "        # TODO extract this from the Msg\n        run_key = msg.run\n        if run_key in self._run_bundlers:\n            raise IllegalMessageSequence(\"A 'close_run' message was not received before the 'open_run' message\")\n\n        # Run scan_id calculation method\n        self.md[\"scan_id\"] = await maybe_await(self.scan_id_source(self.md))\n",
       "        # Run scan_id calculation method\n        self.md[\"scan_id\"] = await maybe_await(self.scan_id_source(self.md))\n        # TODO extract this from the Msg\n        run_key = msg.run\n        if run_key in self._run_bundlers:\n            raise IllegalMessageSequence(\"A 'close_run' message was not received before the 'open_run' message\")\n\n")], "C14.D2"),
    ("span started before the duplicate check (revert of part of the F-5 fix)",
     [(RE, "        # TODO extract this from the Msg\n        run_key = msg.run\n        if run_key in self._run_bundlers:\n            raise IllegalMessageSequence(\"A 'close_run' message was not received before the 'open_run' message\")\n\n        # Run scan_id",
       "        _span0 = tracer.start_span(f\"{_SPAN_NAME_PREFIX} run\")\n        # TODO extract this from the Msg\n        run_key = msg.run\n        if run_key in self._run_bundlers:\n            raise IllegalMessageSequence(\"A 'close_run' message was not received before the 'open_run' message\")\n\n        # Run scan_id")], "C14.D2"),
    ("checkpoint only checks the default run",
     [(RE, "        for current_run in self._run_bundlers.values():\n            if current_run.bundling:\n                raise IllegalMessageSequence(\"Cannot 'checkpoint' after 'create' and before 'save'. Aborting!\")",
       "        for current_run in list(self._run_bundlers.values())[:1]:\n            if current_run.bundling:\n                raise IllegalMessageSequence(\"Cannot 'checkpoint' after 'create' and before 'save'. Aborting!\")")], "C14.D1"),
    ("close_run drops every run",
     [(RE, "        ret = await current_run.close_run(msg)\n        del self._run_bundlers[run_key]\n", "        ret = await current_run.close_run(msg)\n        self._run_bundlers.clear()\n")], ["C14.D1", "C14.D2"]),
    ("a handler iterates runs outside the table",
     [(RE, "        obj = check_supports(msg.obj, Stoppable)\n        return await maybe_await(obj.stop())  # nominally, this returns None", "        obj = check_supports(msg.obj, Stoppable)\n        for current_run in self._run_bundlers.values():\n            current_run.bundling = False\n        return await maybe_await(obj.stop())  # nominally, this returns None")], "C14.D1"),
]
BENIGN = [
    ("msg.run used directly", [(RE, "        run_key = msg.run\n        if (\n            current_run := self._run_bundlers.get(run_key, key_absence_sentinel := object())\n        ) is key_absence_sentinel:\n            ims_msg = \"A 'drop' message was sent but no run is open.\"",
                                "        if (\n            current_run := self._run_bundlers.get(msg.run, key_absence_sentinel := object())\n        ) is key_absence_sentinel:\n            ims_msg = \"A 'drop' message was sent but no run is open.\"")]),
]
