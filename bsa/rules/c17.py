"""C17 - RunStart metadata merges sources with documented precedence."""

from __future__ import annotations

import ast

from .. import astutil as A
from .. import q
from ..idioms import cname, where
from ..re_model import CLS, MOD, REModel


def persistent_md_is_the_callers(ctx, rm, init):
    """scan_id continuity across sessions rests on RE.md BEING the mapping the caller supplied (a PersistentDict, a plain dict kept by
    the caller): whenever `md` is not None the stored object is `md` itself - not a copy, not a replacement chosen on falsiness (a new
    persistent store is empty, i.e. falsy)."""
    rule = "C17.D3-persistent-md-identity"
    g = q.cfg(init, q.quiet_policy(rm.repo))
    stores = [s for s in A.walk_stmts(init.node.body) if isinstance(s, ast.Assign) and A.norm(s.targets[0]) == "self.md"]
    if len(stores) != 1:
        ctx.ob(rule, cname(init, None, "one store of self.md in __init__"), False, f"{len(stores)} store(s)", where=where(init, init.node))
        return
    st = stores[0]
    nid = g.nodes_of(st)[0]

    def is_param(e, at):
        if not (isinstance(e, ast.Name) and e.id == "md"):
            return False
        for kind, val, dn in q.reaching_defs(g, at, "md"):
            if kind == "param":
                continue
            # a re-definition is fine only where md was None
            if q.guard_true_dominates(g, dn.stmt, lambda t: A.norm(t) == "md is None", "T") is not None \
                    and q.guard_true_dominates(g, dn.stmt, lambda t: A.norm(t) == "md is not None", "F") is not None:
                return False
        return True
    v = st.value
    if isinstance(v, ast.IfExp) and A.norm(v.test) == "md is None":
        ok = is_param(v.orelse, nid)
    elif isinstance(v, ast.IfExp) and A.norm(v.test) == "md is not None":
        ok = is_param(v.body, nid)
    else:
        ok = is_param(v, nid)
    ctx.ob(rule, cname(init, None, "self.md is the caller's mapping whenever one is given"), ok,
           "" if ok else f"`{A.head(st)}`: a mapping supplied by the caller can be replaced (e.g. when it is empty) or copied - the scan_id is then kept somewhere the "
           "caller's persistent store never sees, and restarts after a restart", nontrivial=True, where=where(init, st))


def run(ctx):
    rm = REModel(ctx.repo)
    repo = rm.repo
    ctx.explanation = (
        "Decided: D1 the ChainMap in _open_run lists, first-wins, per-call keyword metadata, open_run message metadata, plan identity, "
        "persistent metadata - the reverse of the documented overlay order; D2 the validator (on a plain-dict copy) and the normalizer "
        "dominate the construction of the bundler, which receives the normalizer's return value, and the start document is composed "
        "from it; D3 scan_id is assigned once per open_run from scan_id_source(self.md) into the persistent metadata before the merge "
        "and the default source is md.get('scan_id', 0) + 1; per-call metadata comes only from the RE(...) keywords. "
        "Not decided: merge results beyond ChainMap's own semantics.")
    h = rm.handler("open_run")
    g = q.cfg(h, q.quiet_policy(repo))
    cm = [s for s in h.node.body if isinstance(s, ast.Assign) and isinstance(s.value, ast.Call) and A.call_name(s.value) == "ChainMap"]
    if not cm:
        ctx.ob("C17.D1-precedence", cname(h, None, "ChainMap of the metadata sources"), False, "the metadata sources are no longer merged with a ChainMap", where=where(h, h.node))
        return
    args = cm[0].value.args
    def kind(a):
        a = q.expand(h.node, a)
        t = A.norm(a)
        if t == "self._metadata_per_call":
            return "call"
        if t == "msg.kwargs":
            return "open_run"
        if isinstance(a, ast.Dict) and {A.const_str(k) for k in a.keys} == {"plan_type", "plan_name"}:
            return "plan"
        if t == "self.md":
            return "persistent"
        return "?" + t
    got = [kind(a) for a in args]
    want = ["call", "open_run", "plan", "persistent"]
    ctx.ob("C17.D1-precedence", cname(h, None, "ChainMap(call kwargs, open_run kwargs, plan identity, persistent md)"), got == want,
           "" if got == want else f"lookup order is {got}: later sources no longer win in the documented order", nontrivial=True, where=where(h, cm[0]))
    md_var = A.norm(cm[0].targets[0])
    # plan identity computed from self._plan
    ident = [q.expand(h.node, a) for a in args]
    ident = [a for a in ident if isinstance(a, ast.Dict) and {A.const_str(k) for k in a.keys} == {"plan_type", "plan_name"}]
    vals = {A.const_str(k): A.norm(v) for a in ident for k, v in zip(a.keys, a.values)}
    ok = vals.get("plan_type") == "type(self._plan).__name__" and vals.get("plan_name") == "getattr(self._plan, '__name__', '')"
    ctx.ob("C17.D1-precedence", cname(h, None, "plan identity from the plan passed to RE()"), ok, "" if ok else "plan_type / plan_name source changed", where=where(h, h.node))
    # D2
    val = [s for s in h.node.body if isinstance(s, ast.Expr) and A.find_calls(s, "self.md_validator")]
    norm = [s for s in h.node.body if isinstance(s, ast.Assign) and A.find_calls(s, "self.md_normalizer")]
    reg = [s for s in h.node.body if isinstance(s, ast.Assign) and "RunBundler(" in A.norm(s.value)]
    ctx.require(reg, "anchor vanished: RunBundler(...) construction in _open_run")
    ok = bool(val) and A.norm(val[0].value.args[0]) == f"dict({md_var})"
    ctx.ob("C17.D2-validate-normalize-before-start", cname(h, None, "validator called on a plain copy of the merged metadata"), ok,
           "" if ok else "the validator is not applied to the merged metadata", where=where(h, h.node))
    if val:
        w = q.dominated(g, reg[0], lambda n: n.stmt is val[0])
        ctx.ob("C17.D2-validate-normalize-before-start", cname(h, None, "validator dominates the creation of the run"), w is None,
               "" if w is None else "a run can be started without validating its metadata", nontrivial=True, witness=w, where=where(h, reg[0]))
    ok = bool(norm) and md_var in A.norm(norm[0].value)
    ctx.ob("C17.D2-validate-normalize-before-start", cname(h, None, "normalizer applied to the merged metadata"), ok, "" if ok else "normalizer not applied", where=where(h, h.node))
    if norm:
        nv = A.norm(norm[0].targets[0])
        c = [c for c in A.calls_in(reg[0]) if "RunBundler" in A.norm(c.func)][0]
        ok = bool(c.args) and A.norm(c.args[0]) == nv
        ctx.ob("C17.D2-validate-normalize-before-start", cname(h, None, "the bundler receives the normalizer's return value"), ok,
               "" if ok else f"RunBundler is built from `{A.norm(c.args[0]) if c.args else '?'}` instead of the normalized metadata", nontrivial=True, where=where(h, reg[0]))
        seq = h.node.body
        ok = bool(val) and seq.index(val[0]) < seq.index(norm[0]) < seq.index(reg[0])
        ctx.ob("C17.D2-validate-normalize-before-start", cname(h, None, "validate, then normalize, then create"), ok, "" if ok else "order changed", where=where(h, h.node))
    opn = rm.b("open_run")
    ok = "metadata=self._md" in A.norm(opn.node) and any(A.norm(s) == "self._md = md" for s in rm.b("__init__").node.body)
    ctx.ob("C17.D2-validate-normalize-before-start", cname(opn, None, "start document composed from the metadata given to the bundler"), ok, "" if ok else "start metadata source changed", where=where(opn, opn.node))
    # D3 scan_id
    sid = [s for s in h.node.body if isinstance(s, ast.Assign) and A.norm(s.targets[0]) in ("self.md['scan_id']", 'self.md["scan_id"]')]
    ok = len(sid) == 1 and "self.scan_id_source(self.md)" in A.norm(sid[0].value)
    ctx.ob("C17.D3-scan-id", cname(h, None, "self.md['scan_id'] = scan_id_source(self.md), once per open_run"), ok,
           "" if ok else "scan_id is not taken from the scan_id source / not stored in the persistent metadata exactly once", where=where(h, h.node))
    if sid:
        ok = h.node.body.index(sid[0]) < h.node.body.index(cm[0])
        ctx.ob("C17.D3-scan-id", cname(h, None, "assigned before the metadata is merged"), ok, "" if ok else "the RunStart carries the previous scan_id", where=where(h, h.node))
        loops = [s for s in A.walk_stmts(h.node.body) if isinstance(s, (ast.For, ast.While))]
        ctx.ob("C17.D3-scan-id", cname(h, None, "not inside a loop"), not any(sid[0] in list(A.walk_stmts(l.body)) for l in loops), "", where=where(h, h.node))
    d = repo.func(MOD, "default_scan_id_source")
    ok = any(isinstance(s, ast.Return) and A.norm(s.value) in ("md.get('scan_id', 0) + 1", '1 + md.get("scan_id", 0)') for s in d.node.body)
    ctx.ob("C17.D3-scan-id", cname(d, None, "md.get('scan_id', 0) + 1"), ok, "" if ok else "the default source no longer increases the scan_id by exactly one", where=where(d, d.node))
    init = rm.m("__init__")
    persistent_md_is_the_callers(ctx, rm, init)
    dflt = [dd for a, dd in zip(reversed(init.node.args.kwonlyargs), reversed(init.node.args.kw_defaults)) if a.arg == "scan_id_source"]
    ok = bool(dflt) and A.norm(dflt[0]) == "default_scan_id_source" and any(A.norm(s) == "self.scan_id_source = scan_id_source" for s in init.node.body)
    ctx.ob("C17.D3-scan-id", cname(init, None, "default scan_id_source wired"), ok, "" if ok else "default changed", where=where(init, init.node))
    # per-call metadata
    q.check_writers(ctx, "C17.D3-per-call-metadata-writers", repo, "_metadata_per_call",
                    {f"{CLS}.__init__": "created", f"{CLS}._clear_call_cache": "cleared per call", f"{CLS}.__call__": "RE(...) keywords"}, modules=[MOD], min_instances=3)
    call = rm.m("__call__")
    ok = "self._metadata_per_call.update(metadata_kw)" in A.norm(call.node)
    ctx.ob("C17.D3-per-call-metadata-writers", cname(call, None, "update(metadata_kw)"), ok, "" if ok else "RE(...) keywords no longer recorded", where=where(call, call.node))
    ccc = rm.m("_clear_call_cache")
    ok = any(A.norm(s) == "self._metadata_per_call.clear()" for s in A.walk_stmts(ccc.node.body))
    ctx.ob("C17.D3-per-call-metadata-writers", cname(ccc, None, "per-call metadata cleared at the start of a call"), ok,
           "" if ok else "keyword metadata of an earlier call is merged into later runs", where=where(ccc, ccc.node))
    seq = list(A.walk_stmts(call.node.body))
    i_c = next((i for i, s in enumerate(seq) if A.find_calls(s, "self._clear_call_cache")), None)
    i_u = next((i for i, s in enumerate(seq) if A.find_calls(s, "self._metadata_per_call.update")), None)
    ok = i_c is not None and i_u is not None and i_c < i_u
    ctx.ob("C17.D3-per-call-metadata-writers", cname(call, None, "previous call's keywords cleared first"), ok, "" if ok else "metadata of the previous call leaks", where=where(call, call.node))


CLAIM = {
    "text": "Decides the metadata pipeline of open_run: ChainMap lookup order equals the documented precedence reversed; validator and "
            "normalizer dominate the creation of the run and the bundler receives the normalizer's return value; scan_id is assigned once "
            "from scan_id_source into the persistent metadata before the merge and the default source adds exactly one; RE.md is the very mapping the caller supplied whenever one is given (reaching definitions); per-call metadata has "
            "closed-world writers. Merge results beyond ChainMap semantics are not decided.",
    "technique": "table agreement (argument order vs documented precedence); dominance; def-use; constant folding of the default source",
}

RE = "run_engine.py"
MUTANTS = [
    ("an empty persistent mapping is replaced by a private dict (seed C17-c)",
     [(RE, "        if md is None:\n            md = {}\n        self.md = md\n", "        self.md = md or {}\n")], "C17.D3"),
    ("the persistent mapping is copied",
     [(RE, "        if md is None:\n            md = {}\n        self.md = md\n", "        if md is None:\n            md = {}\n        self.md = dict(md)\n")], "C17.D3"),
    ("falsy mappings replaced through an if",
     [(RE, "        if md is None:\n            md = {}\n        self.md = md\n", "        if not md:\n            md = {}\n        self.md = md\n")], "C17.D3"),
    ("open_run kwargs win over RE(...) kwargs", [(RE, "            self._metadata_per_call,  # from kwargs to self.__call__\n            msg.kwargs,  # from 'open_run' Msg\n", "            msg.kwargs,  # from 'open_run' Msg\n            self._metadata_per_call,  # from kwargs to self.__call__\n")], "C17.D1"),
    ("bundler receives the un-normalized metadata", [(RE, "        current_run = self._run_bundlers[run_key] = type(self).RunBundler(\n            validated,", "        current_run = self._run_bundlers[run_key] = type(self).RunBundler(\n            dict(md),")], "C17.D2"),
    ("validator skipped when there is per-call metadata", [(RE, "        self.md_validator(dict(md))\n", "        if not self._metadata_per_call:\n            self.md_validator(dict(md))\n")], "C17.D2"),
    ("scan_id assigned after the merge was validated",
     [(RE, "        # Run scan_id calculation method\n        self.md[\"scan_id\"] = await maybe_await(self.scan_id_source(self.md))\n", ""),
      (RE, "        new_uid = await current_run.open_run(msg)\n", "        self.md[\"scan_id\"] = await maybe_await(self.scan_id_source(self.md))\n        new_uid = await current_run.open_run(msg)\n")], "C17.D3"),
    ("default scan id source returns the current id", [(RE, "    return md.get(\"scan_id\", 0) + 1", "    return md.get(\"scan_id\", 0) or 1")], "C17.D3"),
    ("per-call metadata survives the next call", [(RE, "        self._metadata_per_call.clear()\n", "")], "C17.D3"),
    ("persistent metadata wins over the plan identity", [(RE, "            {\n                \"plan_type\": plan_type,  # computed from self._plan\n                \"plan_name\": plan_name,\n            },\n            self.md,\n        )", "            self.md,\n            {\n                \"plan_type\": plan_type,  # computed from self._plan\n                \"plan_name\": plan_name,\n            },\n        )")], "C17.D1"),
    ("open_run kwargs written into per-call metadata", [(RE, "        # For metadata below, info about plan passed to self.__call__ for.\n", "        self._metadata_per_call.update(msg.kwargs)\n        # For metadata below, info about plan passed to self.__call__ for.\n")], "C17.D3"),
]
BENIGN = [
    ("md default written as a conditional expression", [(RE, "        if md is None:\n            md = {}\n        self.md = md\n", "        self.md = {} if md is None else md\n")]),
    ("merged metadata variable renamed", [(RE, "        md = ChainMap(\n            self._metadata_per_call,", "        merged = ChainMap(\n            self._metadata_per_call,"),
                                          (RE, "        self.md_validator(dict(md))\n\n        # Apply normalizer at the same level of the validator\n        validated = self.md_normalizer(copy.deepcopy(md))", "        self.md_validator(dict(merged))\n\n        # Apply normalizer at the same level of the validator\n        validated = self.md_normalizer(copy.deepcopy(merged))")]),
]
