"""C24 - relative moves are offsets from the start and are undone at the end."""

from __future__ import annotations

import ast

from .. import astutil as A
from .. import q
from ..idioms import cname, where
from . import c23

PP = "bluesky.preprocessors"
PL = "bluesky.plans"
PS = "bluesky.plan_stubs"

# rel_* plan -> (inner function, absolute sibling it must wrap)
REL_PLANS = {
    "rel_list_scan": ("inner_relative_list_scan", "list_scan"),
    "rel_list_grid_scan": ("inner_relative_list_grid_scan", "list_grid_scan"),
    "_rel_scan_1d": ("inner_relative_scan", "_scan_1d"),
    "rel_log_scan": ("inner_relative_log_scan", "log_scan"),
    "rel_adaptive_scan": ("inner_relative_adaptive_scan", "adaptive_scan"),
    "rel_grid_scan": ("inner_rel_grid_scan", "grid_scan"),
    "rel_scan": ("inner_rel_scan", "scan"),
    "rel_spiral_fermat": ("inner_relative_spiral_fermat", "spiral_fermat"),
    "rel_spiral": ("inner_relative_spiral", "spiral"),
    "rel_spiral_square": ("inner_relative_spiral", "spiral_square"),
}


def _resolves_to(f, expr, target_txt, at):
    """expr is `target_txt` or a local name whose only definition is `target_txt`."""
    if A.norm(expr) == target_txt:
        return True
    if isinstance(expr, ast.Name):
        defs = [s for s in A.walk_stmts(f.node.body) if isinstance(s, ast.Assign) and any(isinstance(t, ast.Name) and t.id == expr.id for t in s.targets)]
        return len(defs) == 1 and A.norm(defs[0].value) == target_txt
    return False


def d1_pseudo_family(ctx, repo, st):
    """A pseudo positioner and its pseudo axes are one device family: the reset commands the PARENT only
    (reset() skips children of coupled parents), so the first stash of ANY member must stash the whole
    family - otherwise a later set of a sibling is 'unseen', stashes again, and overwrites the parent's
    initial position with a position read after the first move."""
    rule = "C24.D1-pseudo-family-stashed-together"
    params = [a.arg for a in st.node.args.args]
    ctx.require(len(params) == 3, f"{st.key}: (obj, initial_positions, coupled_parents)")
    obj, store, coupled = params
    # family loops: for c, p in zip(X.pseudo_positioners, V): store[c] = p
    fam = []
    for lp in A.walk_stmts(st.node.body):
        if isinstance(lp, ast.For) and isinstance(lp.iter, ast.Call) and A.call_name(lp.iter) == "zip" and len(lp.iter.args) == 2 and \
                isinstance(lp.target, ast.Tuple) and len(lp.target.elts) == 2 and A.norm(lp.iter.args[0]).endswith(".pseudo_positioners"):
            c, p = (A.norm(e) for e in lp.target.elts)
            if any(A.norm(b) == f"{store}[{c}] = {p}" for b in lp.body):
                fam.append((A.norm(lp.iter.args[0])[: -len(".pseudo_positioners")], lp.iter.args[1], lp))
    par = A.parents(st.node)

    def guard_of(node):
        n = node
        while n in par:
            n = par[n]
            if isinstance(n, ast.If):
                return n
        return None

    # (a) the parent itself is set: children stashed from its own setpoint
    own = [x for x in fam if x[0] == obj]
    ok = len(own) == 1 and guard_of(own[0][2]) is not None and A.norm(guard_of(own[0][2]).test) == f"{obj} in {coupled}" and \
        any(A.norm(s) == f"{store}[{obj}] = {A.norm(own[0][1])}" for s in A.walk_stmts(st.node.body))
    ctx.ob(rule, cname(st, None, "setting a coupled parent stashes every pseudo axis from the same setpoint"), ok,
           "" if ok else "the pseudo axes of a directly moved parent are no longer stashed with it", nontrivial=True, where=where(st, st.node))
    # (b) a pseudo axis is set: parent and every sibling stashed from the parent's position
    pdefs = [s for s in A.walk_stmts(st.node.body) if isinstance(s, ast.Assign) and A.norm(s.value) == f"{obj}.parent" and isinstance(s.targets[0], ast.Name)]
    pname = pdefs[0].targets[0].id if pdefs else f"{obj}.parent"
    sib = [x for x in fam if x[0] == pname]
    g = guard_of(sib[0][2]) if sib else None
    ok = len(sib) == 1 and g is not None and f"{pname} in {coupled}" in A.norm(g.test) and _resolves_to(st, sib[0][1], f"{pname}.position", sib[0][2])
    ctx.ob(rule, cname(st, None, "setting one pseudo axis stashes every sibling axis from the parent's position"), ok,
           "" if ok else "siblings of a moved pseudo axis are not stashed: a later set of a sibling re-stashes the parent after it has moved, "
           "so the reset returns to the wrong place", nontrivial=True, where=where(st, st.node))
    pst = [s for s in (A.walk_stmts(g.body) if g is not None else []) if isinstance(s, ast.Assign) and A.norm(s.targets[0]) == f"{store}[{pname}]"]
    if g is None:
        g = next((x for x in A.walk_stmts(st.node.body) if isinstance(x, ast.If) and f"{pname} in {coupled}" in A.norm(x.test)), None)
        pst = [s for s in (A.walk_stmts(g.body) if g is not None else []) if isinstance(s, ast.Assign) and A.norm(s.targets[0]) == f"{store}[{pname}]"]
    ok = len(pst) == 1 and _resolves_to(st, pst[0].value, f"{pname}.position", pst[0])
    ctx.ob(rule, cname(st, None, "the parent is stashed at its own position, the value the siblings are split from"), ok,
           "" if ok else "the parent's initial position is not stashed with its axes", where=where(st, st.node))
    # (c) reset commands the parent only -> relies on (a)/(b)
    rs = repo.func(PP, "reset_positions_wrapper.reset")
    sk = [s for s in A.walk_stmts(rs.node.body) if isinstance(s, ast.If) and any(isinstance(b, ast.Continue) for b in s.body)]
    ok = all(A.norm(s.test).endswith(f".parent in {coupled}") for s in sk)
    ctx.ob(rule, cname(rs, None, "the reset skips only children of coupled parents (moved through the parent)"), ok,
           "" if ok else f"reset skips devices under {[A.norm(s.test) for s in sk]}", where=where(rs, rs.node))


def d1_position_sources(ctx, repo, st):
    """What is stashed as 'the initial position' of the set object: every definition of the stashed value that reaches the store is
    one of the sources the documentation names - the located setpoint, obj.position, the value of the (single / first) read field - or
    the 0 of a simulated run.  Anything else (a fallback on falsiness, the readback, an offset) makes 'initial + offset' start from a
    different value for some device state."""
    rule = "C24.D1-initial-position-source"
    g = q.cfg(st, q.quiet_policy(repo))
    stores = [s for s in A.walk_stmts(st.node.body) if isinstance(s, ast.Assign) and A.norm(s.targets[0]) == "initial_positions[obj]"]
    if len(stores) != 1:
        ctx.ob(rule, cname(st, None, "one store of the object's own initial position"), False, f"{len(stores)} store(s)", where=where(st, st.node))
        return

    def source(e):
        if isinstance(e, ast.IfExp):
            a, b = source(e.body), source(e.orelse)
            return a if a.startswith("?") else b if b.startswith("?") else f"{a} | {b}"
        if isinstance(e, ast.Constant) and e.value == 0 and not isinstance(e.value, bool):
            return "0 (simulated)"
        if isinstance(e, ast.Subscript) and A.const_str(e.slice) == "setpoint" and isinstance(e.value, ast.Name):
            return "located setpoint"
        if isinstance(e, ast.Attribute) and e.attr == "position" and A.norm(e.value) == "obj":
            return "obj.position"
        if isinstance(e, ast.Subscript) and A.const_str(e.slice) == "value" and isinstance(e.value, ast.Subscript) and isinstance(e.value.value, ast.Name):
            return "value of a read field"
        return "?" + A.short(e, 70)

    def sources_at(nid, e, depth=4):
        if isinstance(e, ast.Name) and depth > 0:
            out = []
            for kind, val, dn in q.reaching_defs(g, nid, e.id):
                if kind == "assign" and val is not None:
                    out += sources_at(dn.id, val, depth - 1)
                else:
                    out.append(f"?{e.id} ({kind})")
            return out
        if isinstance(e, ast.IfExp):
            return sources_at(nid, e.body, depth) + sources_at(nid, e.orelse, depth)
        return [source(e)]

    nid = g.nodes_of(stores[0])[0]
    got = sources_at(nid, stores[0].value)
    bad = sorted({x for x in got if x.startswith("?")})
    ok = bool(got) and not bad and "located setpoint" in got
    ctx.ob(rule, cname(st, None, "stashed value = located setpoint / obj.position / read value (0 when simulated)"), ok,
           "" if ok else (f"the stashed initial position can be {', '.join(b[1:] for b in bad)}: relative moves start from, and the reset returns to, a value that is not "
                          "the device's initial position" if bad else "the located setpoint is no longer a source"), nontrivial=True, where=where(st, stores[0]))


def _stash_hook(repo, wrapper):
    """The message processor handed to plan_mutator by the wrapper: a nested def, or the closure returned by a module-level
    factory.  -> (function node, owner Func, {name inside the hook: expression text in the wrapper})"""
    calls = [c for c in A.calls_in(wrapper.node) if A.call_name(c) == "plan_mutator" and len(c.args) >= 2]
    for c in calls:
        x = c.args[1]
        bind = {}
        if isinstance(x, ast.Name):
            nested = repo.funcs.get(f"{PP}:{wrapper.qualname}.{x.id}")
            if nested is not None:
                return nested.node, nested, bind
            defs = q.local_defs(wrapper.node, x.id)
            if len(defs) == 1 and isinstance(defs[0], ast.Assign):
                x = defs[0].value
        if isinstance(x, ast.Call) and isinstance(x.func, ast.Name):
            fac = repo.funcs.get(f"{PP}:{x.func.id}")
            if fac is not None:
                params = [a.arg for a in fac.node.args.args]
                for pname, arg in zip(params, x.args):
                    bind[pname] = A.norm(arg)
                for k in x.keywords:
                    if k.arg:
                        bind[k.arg] = A.norm(k.value)
                rets = [r.value.id for r in A.walk_stmts(fac.node.body) if isinstance(r, ast.Return) and isinstance(r.value, ast.Name)]
                for r in rets:
                    inner = repo.funcs.get(f"{PP}:{fac.qualname}.{r}")
                    if inner is not None:
                        return inner.node, inner, bind
    return None, None, {}


def d1_stash_hook(ctx, repo, wname):
    """The hook inserts read-and-stash in front of a message exactly when: the message is a 'set', the device is eligible, and
    the device is NOT YET IN THE STASH (initial_positions) - decided as a truth table over those three atoms.  'Not yet in the
    stash' matters: __read_and_stash_a_motor also stashes the parent and siblings of a pseudo axis; a separate 'already handled'
    record does not know about them, so a sibling's first set would stash the whole family again after it has moved."""
    import itertools

    from .. import booleval

    rule = "C24.D1-stash-before-first-set"
    w = repo.func(PP, wname)
    node, owner, bind = _stash_hook(repo, w)
    if node is None:
        ctx.ob(rule, cname(w, None, "message processor handed to plan_mutator"), False, "no hook inserting the initial-position reads was found", where=where(w, w.node))
        return
    store = "initial_positions"
    store_in_hook = next((k for k, v in bind.items() if v == store), store)
    msgp = node.args.args[0].arg if node.args.args else "msg"
    stash_calls = [c for c in A.calls_in(node) if (A.call_name(c) or "").endswith("__read_and_stash_a_motor")]
    ok = len(stash_calls) == 1 and len(stash_calls[0].args) >= 2 and A.norm(stash_calls[0].args[0]) == f"{msgp}.obj" and A.norm(stash_calls[0].args[1]) == store_in_hook
    ctx.ob(rule, cname(owner, None, f"[{wname}] stashes {msgp}.obj into the wrapper's initial_positions"), ok,
           "" if ok else "the position is stashed somewhere else / for another object", where=where(owner, node))
    if not stash_calls:
        return
    # the If under whose true branch the stash is returned
    pm = A.parents(node)
    n, guard, polarity = stash_calls[0], None, True
    while n in pm:
        parent = pm[n]
        if isinstance(parent, ast.If):
            guard, polarity = parent, any(n is x or n in list(ast.walk(x)) for x in parent.body)
            break
        n = parent
    if guard is None:
        ctx.ob(rule, cname(owner, None, f"[{wname}] the stash is conditional"), False, "the position is stashed on every message", where=where(owner, node))
        return
    # atoms: local boolean names are replaced by their definitions
    def expand(e, depth=0):
        if isinstance(e, ast.Name) and depth < 3:
            defs = [d for d in A.walk_stmts(node.body) if isinstance(d, ast.Assign) and any(isinstance(t, ast.Name) and t.id == e.id for t in d.targets)]
            if len(defs) == 1:
                return expand(defs[0].value, depth + 1)
            if len(defs) == 2:
                # `if c: x = a` / `else: x = b`: the name stands for `a if c else b`
                pmn = A.parents(node)
                up = pmn.get(defs[0])
                if isinstance(up, ast.If) and pmn.get(defs[1]) is up and defs[0] in up.body and defs[1] in up.orelse and len(up.body) == len(up.orelse) == 1:
                    return ast.IfExp(test=expand(up.test, depth + 1), body=expand(defs[0].value, depth + 1), orelse=expand(defs[1].value, depth + 1))
        if isinstance(e, ast.IfExp):
            return ast.IfExp(test=expand(e.test, depth), body=expand(e.body, depth), orelse=expand(e.orelse, depth))
        if isinstance(e, ast.BoolOp):
            return ast.BoolOp(op=e.op, values=[expand(v, depth) for v in e.values])
        if isinstance(e, ast.UnaryOp) and isinstance(e.op, ast.Not):
            return ast.UnaryOp(op=e.op, operand=expand(e.operand, depth))
        return e
    test = expand(guard.test)
    devs = next((k for k, v in bind.items() if v == "devices"), "devices")
    a_set, a_none, a_in, a_seen = f"{msgp}.command == 'set'", f"{devs} is None", f"{msgp}.obj in {devs}", f"{msgp}.obj in {store_in_hook}"
    a_unseen = f"{msgp}.obj not in {store_in_hook}"
    bad = None
    for v_set, v_none, v_in, v_seen in itertools.product([True, False], repeat=4):
        env = {a_set: v_set, a_none: v_none, a_in: v_in, a_seen: v_seen, a_unseen: not v_seen, f"{devs} is not None": not v_none,
               f"{msgp}.command != 'set'": not v_set, f"{msgp}.obj not in {devs}": not v_in}
        got = booleval.ev(test, env)
        want = v_set and (v_none or v_in) and not v_seen
        if got is None:
            bad = ("unknown", env)
            break
        if (got if polarity else not got) != want:
            bad = ("differs", env)
            break
    ok = bad is None
    detail = ""
    if bad and bad[0] == "unknown":
        detail = (f"the condition `{A.short(guard.test, 80)}` depends on something other than (is a set, device eligible, device already in initial_positions): "
                  "if 'already stashed' is not membership in the stash itself, a device stashed as part of a pseudo-positioner family is stashed again after it moved "
                  "(relative offsets and the reset then start from the moved position)")
    elif bad:
        detail = f"for set={bad[1][a_set]}, devices-is-None={bad[1][a_none]}, in-devices={bad[1][a_in]}, already-stashed={bad[1][a_seen]} the hook " \
                 f"{'does not stash' if (bad[1][a_set] and (bad[1][a_none] or bad[1][a_in]) and not bad[1][a_seen]) else 'stashes'} the position"
    ctx.ob(rule, cname(owner, None, f"[{wname}] stash iff set and eligible and not yet in initial_positions (16-row truth table)"), ok, detail, nontrivial=True, where=where(owner, guard))
    # the original message follows the stash
    txt = A.norm(node)
    ok = f"single_gen({msgp})" in txt and "pchain(" in txt
    ctx.ob(rule, cname(owner, None, f"[{wname}] the stash is followed by the original set"), ok, "" if ok else "the original message is lost / precedes the stash", where=where(owner, node))


def run(ctx):
    repo = ctx.repo
    ctx.explanation = (
        "Decided: D1 relative_set_wrapper rewrites a 'set' on a stashed device to initial + offset, stashes the initial position before "
        "the first set of an eligible device (a pseudo positioner's parent and axes are stashed together, since the reset moves the parent only), and applies the read-insertion before the rewrite; D2 reset_positions_wrapper's final plan "
        "sets every stashed device back to its stashed value and waits, and is the final plan of finalize_wrapper (C22/C23); D3 every "
        "rel_* plan wraps its absolute sibling in reset_positions_decorator(M) outside relative_set_decorator(M) with the same device "
        "list; rel_set / mvr apply the relative wrapper; D4 no swapped arguments on these calls. Not decided: arithmetic on device positions.")
    # D1
    rw = repo.func(PP, "relative_set_wrapper")
    rp = repo.func(PP, "relative_set_wrapper.rewrite_pos")
    ifs = [s for s in rp.node.body if isinstance(s, ast.If)]
    ok = bool(ifs) and A.norm(ifs[0].test) == "msg.command == 'set' and msg.obj in initial_positions"
    ctx.ob("C24.D1-offset-from-initial", cname(rp, None, "only 'set' messages of stashed devices are rewritten"), ok, "" if ok else "rewrite condition changed", where=where(rp, rp.node))
    body = [A.norm(s) for s in (ifs[0].body if ifs else [])]
    rets_ = [x for x in (ifs[0].body if ifs else []) if isinstance(x, ast.Return) and x.value is not None]
    ret_full = A.norm(q.expand(rp.node, rets_[-1].value, keep=("rel_pos", "msg"))) if rets_ else ""
    ok = ret_full in ("msg._replace(args=(initial_positions[msg.obj] + rel_pos,))", "msg._replace(args=(rel_pos + initial_positions[msg.obj],))")
    ctx.ob("C24.D1-offset-from-initial", cname(rp, None, "target = stashed initial position + requested offset"), ok,
           "" if ok else f"rewrite computes {body}", nontrivial=True, where=where(rp, rp.node))
    rets = [x for x in (ifs[0].body if ifs else []) if isinstance(x, ast.Return) and x.value is not None]
    ok = any(t.replace("(rel_pos,)", "rel_pos,") in ("rel_pos, = msg.args", "(rel_pos,) = msg.args") or t == "(rel_pos,) = msg.args" for t in body) and \
        bool(rets) and ret_full.startswith("msg._replace(args=(") and ret_full.endswith(",))")
    ctx.ob("C24.D1-offset-from-initial", cname(rp, None, "the offset is the message's single argument; the rewritten message is returned"), ok, "" if ok else "argument handling changed", where=where(rp, rp.node))
    ok = bool(ifs) and ifs[0].orelse and A.norm(ifs[0].orelse[-1]) == "return msg"
    ctx.ob("C24.D1-offset-from-initial", cname(rp, None, "other messages pass unchanged"), ok, "" if ok else "other messages altered", where=where(rp, rp.node))
    for wname in ("relative_set_wrapper", "reset_positions_wrapper"):
        d1_stash_hook(ctx, repo, wname)
    st = repo.func(PP, "__read_and_stash_a_motor")
    ok = any(A.norm(s) == "initial_positions[obj] = setpoint" for s in A.walk_stmts(st.node.body))
    ctx.ob("C24.D1-stash-before-first-set", cname(st, None, "initial_positions[obj] = the located / read setpoint"), ok, "" if ok else "stash target changed", where=where(st, st.node))
    d1_position_sources(ctx, repo, st)
    d1_pseudo_family(ctx, repo, st)
    txt = A.norm(rw.node)
    i1, i2 = txt.find("plan = plan_mutator(plan, insert_reads)"), txt.find("plan = msg_mutator(plan, rewrite_pos)")
    ok = 0 <= i1 < i2 or "msg_mutator(plan_mutator(plan, insert_reads), rewrite_pos)" in txt
    ctx.ob("C24.D1-offset-from-initial", cname(rw, None, "reads inserted (inner), positions rewritten (outer)"), ok,
           "" if ok else "mutator order changed: the rewrite would see sets before their position is stashed", where=where(rw, rw.node))
    # D2
    rs = repo.func(PP, "reset_positions_wrapper.reset")
    loops = [s for s in A.walk_stmts(rs.node.body) if isinstance(s, ast.For) and A.norm(s.iter) == "initial_positions.items()"]
    ok = bool(loops) and any(A.is_msg_yield(n, "set") and [A.norm(a) for a in n.value.args[1:3]] == [A.norm(loops[0].target.elts[0]), A.norm(loops[0].target.elts[1])]
                             for n in A.walk_local(loops[0]))
    ctx.ob("C24.D2-reset-to-initial", cname(rs, None, "every stashed device is set to its stashed value"), ok, "" if ok else "reset does not command the stashed positions", nontrivial=True, where=where(rs, rs.node))
    ok = any(A.is_msg_yield(n, "wait") for s in rs.node.body for n in A.walk_local(s) if not isinstance(s, ast.For))
    ctx.ob("C24.D2-reset-to-initial", cname(rs, None, "waits for the moves"), ok, "" if ok else "no wait after the reset moves", where=where(rs, rs.node))
    f = repo.func(PP, "reset_positions_wrapper")
    fc = c23.finalize_call(f)
    ok = fc is not None and len(fc.args) >= 2 and c23.call_arg(repo, f, fc, 0) == "plan_mutator(plan, insert_reads)" and A.norm(fc.args[1]) == "reset()"
    ctx.ob("C24.D2-reset-to-initial", cname(f, None, "reset() is the final plan of finalize_wrapper"), ok, "" if ok else "the reset is skipped when the plan fails", where=where(f, f.node))
    # D3 rel_* plans
    for pname, (inner, sib) in REL_PLANS.items():
        f = repo.func(PL, pname)
        g = repo.funcs.get(f"{PL}:{pname}.{inner}")
        if g is None:
            ctx.ob("C24.D3-rel-plan-decorators", cname(f, None, "inner relative plan"), False, "the inner decorated plan vanished", where=where(f, f.node))
            continue
        decos = [d for d in g.node.decorator_list if isinstance(d, ast.Call)]
        names = [(A.call_name(d) or "").split(".")[-1] for d in decos]
        ok = names[:2] == ["reset_positions_decorator", "relative_set_decorator"]
        ctx.ob("C24.D3-rel-plan-decorators", cname(f, None, "reset_positions_decorator outside relative_set_decorator"), ok,
               "" if ok else f"decorators are {names}: without the reset the devices stay displaced; in the other order the reset moves by an offset", nontrivial=True, where=where(g, g.node))
        if len(decos) >= 2:
            a0, a1 = [A.norm(a) for a in decos[0].args], [A.norm(a) for a in decos[1].args]
            ok = a0 == a1 and len(a0) == 1
            ctx.ob("C24.D3-rel-plan-decorators", cname(f, None, "both decorators get the same device list"), ok, "" if ok else f"{a0} vs {a1}", where=where(g, g.node))
        calls = [A.call_name(n.value) for n in A.walk_local(g.node) if isinstance(n, ast.YieldFrom) and isinstance(n.value, ast.Call)]
        ok = calls == [sib]
        ctx.ob("C24.D3-rel-plan-decorators", cname(f, None, f"wraps its absolute sibling {sib}"), ok, "" if ok else f"wraps {calls}", where=where(g, g.node))
    ctx.expect("C24.D3-rel-plan-decorators", 28)
    for pname, target in (("relative_inner_product_scan", "rel_scan"), ("rel_scan", None)):
        pass
    f = repo.func(PS, "rel_set")
    ok = any(isinstance(n, ast.YieldFrom) and A.norm(n.value).startswith("relative_set_wrapper(abs_set(obj, *args, group=group, wait=wait, **kwargs))") for n in A.walk_local(f.node))
    ctx.ob("C24.D3-rel-stubs", cname(f, None, "rel_set = relative_set_wrapper(abs_set(...))"), ok, "" if ok else "rel_set no longer goes through the relative wrapper", where=where(f, f.node))
    f = repo.func(PS, "mvr")
    g = repo.funcs.get(f"{PS}:mvr.inner_mvr")
    ok = g is not None and [(A.call_name(d) or "") for d in g.node.decorator_list if isinstance(d, ast.Call)] == ["relative_set_decorator"] and \
        [A.norm(a) for a in g.node.decorator_list[0].args] == ["objs"] and any(isinstance(n, ast.YieldFrom) and A.call_name(n.value) == "mv" for n in A.walk_local(g.node))
    ctx.ob("C24.D3-rel-stubs", cname(f, None, "mvr = relative_set_decorator(objs)(mv(...))"), ok, "" if ok else "mvr no longer goes through the relative wrapper", where=where(f, f.node))
    ok = any(isinstance(s, ast.For) and "partition(2, args)" in A.norm(s.iter) and any(A.norm(x) == "objs.append(obj)" for x in s.body) for s in f.node.body)
    ctx.ob("C24.D3-rel-stubs", cname(f, None, "objs = the devices of the (device, value) pairs"), ok, "" if ok else "device list changed", where=where(f, f.node))
    # D4 swapped-argument check on the sibling calls: keyword names equal the forwarded variable names
    n = 0
    for pname, (inner, sib) in REL_PLANS.items():
        g = repo.funcs.get(f"{PL}:{pname}.{inner}")
        if g is None:
            continue
        for c in A.calls_in(g.node):
            if A.call_name(c) == sib:
                for k in c.keywords:
                    if k.arg is not None and isinstance(k.value, ast.Name) and k.arg in ("per_step", "snake_axes", "dr_y", "tilt", "factor", "nth", "dr", "x_range", "y_range",
                                                                                              "x_start", "y_start", "x_center", "y_center", "x_num", "y_num"):
                        n += 1
                        ok = k.value.id == k.arg or (k.arg == "md" and k.value.id == "_md")
                        ctx.ob("C24.D4-no-swapped-arguments", cname(g, None, f"{sib}({k.arg}={k.value.id})"), ok,
                               "" if ok else f"parameter {k.arg} receives variable {k.value.id}", where=where(g, c))
    ctx.expect("C24.D4-no-swapped-arguments", 6)


CLAIM = {
    "text": "Decides that a relative set is rewritten to stashed-initial + offset after the position was stashed before the first set, that every definition reaching the stash is a documented source (located setpoint, obj.position, read value), that the reset "
            "plan commands every stashed device back to its stashed value as the final plan of finalize_wrapper, that every rel_* plan wraps its "
            "absolute sibling in reset_positions_decorator outside relative_set_decorator with the same device list, that rel_set / mvr go "
            "through the relative wrapper, and that forwarded keyword arguments are not swapped. Arithmetic on positions is not decided.",
    "technique": "sibling agreement over the rel_* plans (decorator order and arguments); def-use in the rewrite; suspicious-argument check",
}

P = "preprocessors.py"
L = "plans.py"
MUTANTS = [
    ("a zero setpoint falls back to the readback (seed C24-c)",
     [(P, "            setpoint = location[\"setpoint\"]\n", "            setpoint = location.get(\"setpoint\") or location[\"readback\"]\n")], "C24.D1"),
    ("the readback is stashed instead of the setpoint",
     [(P, "            setpoint = location[\"setpoint\"]\n", "            setpoint = location[\"readback\"]\n")], "C24.D1"),
    ("relative wrapper: 'already stashed' tracked in a separate set (seed C24-b)", [(P, "def relative_set_wrapper(plan, devices=None):", "def _stash_hook_factory(devs, stash, parents):\n    handled = set()\n\n    def insert_reads(msg):\n        eligible = (devs is None) or (msg.obj in devs)\n        if (msg.command == \"set\") and eligible and msg.obj not in handled:\n            handled.add(msg.obj)\n            return (\n                pchain(\n                    __read_and_stash_a_motor(msg.obj, stash, parents),\n                    single_gen(msg),\n                ),\n                None,\n            )\n        else:\n            return None, None\n\n    return insert_reads\n\n\ndef relative_set_wrapper(plan, devices=None):"), (P, "    def insert_reads(msg):\n        eligible = (devices is None) or (msg.obj in devices)\n        seen = msg.obj in initial_positions\n        if (msg.command == \"set\") and eligible and not seen:\n            return (\n                pchain(\n                    __read_and_stash_a_motor(msg.obj, initial_positions, coupled_parents),\n                    single_gen(msg),\n                ),\n                None,\n            )\n        else:\n            return None, None\n\n    plan = plan_mutator(plan, insert_reads)\n    plan = msg_mutator(plan, rewrite_pos)", "    insert_reads = _stash_hook_factory(devices, initial_positions, coupled_parents)\n    plan = plan_mutator(plan, insert_reads)\n    plan = msg_mutator(plan, rewrite_pos)")], "C24.D1-stash"),
    ("siblings of a pseudo axis not stashed", [(P, "        initial_positions[parent] = parent_pos\n        for c, p in zip(parent.pseudo_positioners, parent_pos):\n            initial_positions[c] = p", "        initial_positions[parent] = parent_pos")], "C24.D1-pseudo"),
    ("children of a moved parent not stashed", [(P, "    if obj in coupled_parents:\n        for c, p in zip(obj.pseudo_positioners, setpoint):\n            initial_positions[c] = p", "    if obj in coupled_parents:\n        pass")], "C24.D1-pseudo"),
    ("parent stashed from the axis' setpoint", [(P, "        initial_positions[parent] = parent_pos\n", "        initial_positions[parent] = setpoint\n")], "C24.D1-pseudo"),
    ("offset subtracted", [(P, "            abs_pos = initial_positions[msg.obj] + rel_pos", "            abs_pos = initial_positions[msg.obj] - rel_pos")], "C24.D1"),
    ("rel_scan loses its reset", [(L, "    @bpp.reset_positions_decorator(motors)\n    @bpp.relative_set_decorator(motors)\n    def inner_rel_scan():", "    @bpp.relative_set_decorator(motors)\n    def inner_rel_scan():")], "C24.D3"),
    ("decorators swapped in rel_grid_scan", [(L, "    @bpp.reset_positions_decorator(motors)\n    @bpp.relative_set_decorator(motors)\n    def inner_rel_grid_scan():", "    @bpp.relative_set_decorator(motors)\n    @bpp.reset_positions_decorator(motors)\n    def inner_rel_grid_scan():")], "C24.D3"),
    ("reset only the x motor in rel_spiral", [(L, "    @bpp.reset_positions_decorator([x_motor, y_motor])\n    @bpp.relative_set_decorator([x_motor, y_motor])\n    def inner_relative_spiral():\n        return (\n            yield from spiral(", "    @bpp.reset_positions_decorator([x_motor])\n    @bpp.relative_set_decorator([x_motor, y_motor])\n    def inner_relative_spiral():\n        return (\n            yield from spiral(")], "C24.D3"),
    ("position stashed on every set", [(P, "        if (msg.command == \"set\") and eligible and not seen:\n            return (\n                pchain(\n                    __read_and_stash_a_motor(msg.obj, initial_positions, coupled_parents),\n                    single_gen(msg),\n                ),\n                None,\n            )\n        else:\n            return None, None\n\n    plan = plan_mutator(plan, insert_reads)",
       "        if (msg.command == \"set\") and eligible:\n            return (\n                pchain(\n                    __read_and_stash_a_motor(msg.obj, initial_positions, coupled_parents),\n                    single_gen(msg),\n                ),\n                None,\n            )\n        else:\n            return None, None\n\n    plan = plan_mutator(plan, insert_reads)")], "C24.D1"),
    ("rewrite applied before the reads are inserted", [(P, "    plan = plan_mutator(plan, insert_reads)\n    plan = msg_mutator(plan, rewrite_pos)", "    plan = msg_mutator(plan, rewrite_pos)\n    plan = plan_mutator(plan, insert_reads)")], "C24.D1"),
    ("reset sends devices to zero", [(P, "            yield Msg(\"set\", k, v, group=blk_grp)", "            yield Msg(\"set\", k, 0, group=blk_grp)")], "C24.D2"),
    ("mvr goes straight to mv", [("plan_stubs.py", "    @relative_set_decorator(objs)\n    def inner_mvr():", "    def inner_mvr():")], "C24.D3"),
    ("rel_list_scan wraps scan instead of list_scan", [(L, "        return (yield from list_scan(detectors, *args, per_step=per_step, md=_md))\n\n    return (yield from inner_relative_list_scan())", "        return (yield from scan(detectors, *args, per_step=per_step, md=_md))\n\n    return (yield from inner_relative_list_scan())")], "C24.D3"),
]
BENIGN = [
    ("located setpoint chosen by a conditional expression", [(P, "        if location is None:\n            setpoint = 0\n        else:\n            setpoint = location[\"setpoint\"]\n", "        setpoint = 0 if location is None else location[\"setpoint\"]\n")]),
    ("relative wrapper: hook built by a module-level factory, same condition", [(P, "def relative_set_wrapper(plan, devices=None):", "def _stash_hook_factory(devs, stash, parents):\n    def insert_reads(msg):\n        eligible = (devs is None) or (msg.obj in devs)\n        if (msg.command == \"set\") and eligible and msg.obj not in stash:\n            return (\n                pchain(\n                    __read_and_stash_a_motor(msg.obj, stash, parents),\n                    single_gen(msg),\n                ),\n                None,\n            )\n        else:\n            return None, None\n\n    return insert_reads\n\n\ndef relative_set_wrapper(plan, devices=None):"), (P, "    def insert_reads(msg):\n        eligible = (devices is None) or (msg.obj in devices)\n        seen = msg.obj in initial_positions\n        if (msg.command == \"set\") and eligible and not seen:\n            return (\n                pchain(\n                    __read_and_stash_a_motor(msg.obj, initial_positions, coupled_parents),\n                    single_gen(msg),\n                ),\n                None,\n            )\n        else:\n            return None, None\n\n    plan = plan_mutator(plan, insert_reads)\n    plan = msg_mutator(plan, rewrite_pos)", "    insert_reads = _stash_hook_factory(devices, initial_positions, coupled_parents)\n    plan = plan_mutator(plan, insert_reads)\n    plan = msg_mutator(plan, rewrite_pos)")]),
]
