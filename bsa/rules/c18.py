"""C18 - subscriptions live exactly as long as they were asked to."""

from __future__ import annotations

import ast

from .. import astutil as A
from .. import q
from ..idioms import cname, where
from ..re_model import CLS, MOD, REModel
from . import c06

UT = "bluesky.utils"


def registry_connect_disconnect_inverse(ctx, repo, rule):
    """connect records a subscription in several per-signal maps of the registry (cid -> proxy, proxy -> cid); the de-duplication
    branch of connect trusts the proxy -> cid map.  disconnect must erase the cid from EVERY map connect wrote - explicitly: the
    weak-key map drops an entry only when the proxy object dies, and anything that keeps the proxy alive (the traceback of an
    exception the callback raised, a reference cycle) leaves a stale entry, so the next connect of the same callable returns the
    dead cid and the callable is silently not subscribed."""
    con = repo.func(UT, "CallbackRegistry.connect")
    dis = repo.func(UT, "CallbackRegistry.disconnect")
    written = set()
    for st in A.walk_stmts(con.node.body):
        for t in A.targets_of(st):
            if isinstance(t, ast.Subscript) and isinstance(t.value, ast.Subscript):
                ch = A.chain(t.value.value)
                if ch and ch.startswith("self."):
                    written.add(ch[5:])
    ctx.ob(rule, cname(con, None, "per-subscription maps written by connect"), len(written) >= 2,
           f"maps: {sorted(written)}" if len(written) >= 2 else f"connect records a subscription in {sorted(written)} only", where=where(con, con.node))
    # maps from which disconnect deletes: `del X[...]` where X is self.<map>[...] or a loop variable over self.<map>.items() / .values()
    alias = {}
    for lp in A.walk_stmts(dis.node.body):
        if isinstance(lp, ast.For) and isinstance(lp.iter, ast.Call) and isinstance(lp.iter.func, ast.Attribute) and lp.iter.func.attr in ("items", "values"):
            src = A.chain(lp.iter.func.value)
            inner = lp.iter
            # list(self.x.items()) is handled by the caller unwrapping below
            if src and src.startswith("self."):
                names = [e.id for e in (lp.target.elts if isinstance(lp.target, ast.Tuple) else [lp.target]) if isinstance(e, ast.Name)]
                if names:
                    alias[names[-1]] = src[5:]
            elif src in alias:
                pass
        if isinstance(lp, ast.For) and isinstance(lp.iter, ast.Call) and A.call_name(lp.iter) == "list" and lp.iter.args and isinstance(lp.iter.args[0], ast.Call) \
                and isinstance(lp.iter.args[0].func, ast.Attribute) and lp.iter.args[0].func.attr in ("items", "values"):
            src = A.chain(lp.iter.args[0].func.value)
            if src and src.startswith("self."):
                names = [e.id for e in (lp.target.elts if isinstance(lp.target, ast.Tuple) else [lp.target]) if isinstance(e, ast.Name)]
                if names:
                    alias[names[-1]] = src[5:]
    erased = set()
    for st in A.walk_stmts(dis.node.body):
        tgts = st.targets if isinstance(st, ast.Delete) else []
        for t in tgts:
            if isinstance(t, ast.Subscript):
                base = t.value
                ch = A.chain(base.value) if isinstance(base, ast.Subscript) else A.chain(base)
                if ch and ch.startswith("self."):
                    erased.add(ch[5:])
                elif ch in alias:
                    erased.add(alias[ch])
        for c in A.calls_in(st) if not isinstance(st, (ast.For, ast.If, ast.Try, ast.While, ast.With)) else []:
            if isinstance(c.func, ast.Attribute) and c.func.attr in ("pop", "popitem"):
                ch = A.chain(c.func.value.value) if isinstance(c.func.value, ast.Subscript) else A.chain(c.func.value)
                if ch and ch.startswith("self."):
                    erased.add(ch[5:])
                elif ch in alias:
                    erased.add(alias[ch])
    for m in sorted(written):
        ok = m in erased
        ctx.ob(rule, cname(dis, None, f"disconnect erases the id from self.{m}"), ok,
               "" if ok else f"disconnect leaves the subscription in self.{m} (it relies on the proxy being garbage collected): while anything keeps the proxy "
               "alive the next connect of the same callable is answered with the dead id and the callable receives nothing", nontrivial=True, where=where(dis, dis.node))


def run(ctx):
    rm = REModel(ctx.repo)
    # a 'subscribe' / 'unsubscribe' message executed once is never executed again by a rewind: both are uncacheable and act as implicit
    # checkpoints (seed C18-b: a replayed 'subscribe' adds a second, never-removed subscription)
    from . import c04

    q.relabelled(ctx, "C04.D3", "C18.D3", c04.d3_uncacheable_table, rm)
    q.relabelled(ctx, "C04.D2", "C18.D3", c04.d2_implicit_checkpoints, rm)
    repo = rm.repo
    ctx.explanation = (
        "Decided: D1 no shared id is disconnected: every return of CallbackRegistry.connect either returns an id minted by that very "
        "call, or Dispatcher.unsubscribe skips private ids that another public token still refers to (the registry de-duplicates equal "
        "callables, so ids are shared; fixed in /repo as F-6); "
        "public tokens are minted from a counter and mapped to their own private ids; D2 per-call and in-plan tokens are recorded and "
        "dropped at the start of the next call (C06.D4), in-plan unsubscribe forgets its token; D3 unsubscribe_all iterates a copy and "
        "reset() calls it. Not decided: garbage collection of weakly referenced callables.")
    # the release side: does unsubscribe keep a private id alive while another public token still refers to it?
    un = repo.func(MOD, "Dispatcher.unsubscribe")
    gu = q.cfg(un, q.quiet_policy(repo))
    loops = [s for s in un.node.body if isinstance(s, ast.For)]
    ok = len(loops) == 1
    if ok:
        it = A.norm(q.expand_at(gu, gu.nodes_of(loops[0])[0], loops[0].iter)) if gu.nodes_of(loops[0]) else A.norm(loops[0].iter)
        ok = it in ("self._token_mapping.pop(token, [])", "self._token_mapping.pop(token, ())")
        if it == "self._token_mapping.pop(token, None)" and isinstance(loops[0].iter, ast.Name):
            # an unknown token: nothing to walk - accepted when that case returns before the loop
            v = loops[0].iter.id
            ok = q.guard_true_dominates(gu, loops[0], lambda t: A.norm(t) in (f"{v} is None", f"not {v}"), "F") is None or \
                q.guard_true_dominates(gu, loops[0], lambda t: A.norm(t) in (f"{v} is not None", v), "T") is None
    ctx.ob("C18.D1-unsubscribe-shape", cname(un, None, "pops the public token and walks its private ids"), ok,
           "" if ok else "unsubscribe no longer removes exactly the given token's entry", nontrivial=True, where=where(un, un.node))
    dis_stmts = [s for s in A.walk_stmts(un.node.body) if isinstance(s, ast.Expr) and A.find_calls(s, "self.cb_registry.disconnect")]
    ok = len(dis_stmts) == 1 and bool(loops) and A.norm(dis_stmts[0].value.args[0]) == A.norm(loops[0].target)
    ctx.ob("C18.D1-unsubscribe-shape", cname(un, None, "disconnects the private ids of that token"), ok, "" if ok else "disconnect target changed", where=where(un, un.node))
    shared_guard = False
    if dis_stmts and loops:
        tv = A.norm(loops[0].target)
        for s in A.walk_stmts(loops[0].body):
            if isinstance(s, ast.If) and "self._token_mapping" in A.norm(s.test) and f"{tv} in " in A.norm(s.test) and \
                    any(isinstance(x, ast.Continue) for x in s.body) and loops[0].body.index(s) < loops[0].body.index(dis_stmts[0]) if s in loops[0].body else False:
                shared_guard = True
    # the acquire side: does connect mint a fresh id on every return?
    con = repo.func(UT, "CallbackRegistry.connect")
    g = q.cfg(con, q.quiet_policy(repo))
    rets = [s for s in A.walk_stmts(con.node.body) if isinstance(s, ast.Return)]
    ctx.require(rets, "anchor vanished: returns of CallbackRegistry.connect")
    inc = [s for s in A.walk_stmts(con.node.body) if isinstance(s, ast.AugAssign) and A.norm(s.target) == "self._cid"]
    for r in rets:
        fresh = False
        if isinstance(r.value, ast.Name):
            nids = g.nodes_of(r)
            defs = q.reaching_defs(g, nids[0], r.value.id) if nids else []
            fresh = bool(defs) and all(k == "assign" and A.norm(v) == "self._cid" for k, v, n in defs) and bool(inc) and \
                q.dominated(g, r, lambda n: n.stmt is inc[0]) is None
        elif A.norm(r.value) == "self._cid":
            fresh = bool(inc) and q.dominated(g, r, lambda n: n.stmt is inc[0]) is None
        ok = fresh or shared_guard
        ctx.ob("C18.D1-no-shared-id-is-disconnected", cname(con, r), ok,
               ("fresh id" if fresh else "shared id, but unsubscribe keeps ids that another public token still uses") if ok else
               "this return hands out the id of an existing subscription and unsubscribe disconnects it unconditionally: dropping one subscription "
               "(e.g. a per-call subscription of an already subscribed callable, at the next call) silences the other", nontrivial=True, where=where(con, r))
    sub = repo.func(MOD, "Dispatcher.subscribe")
    # decided per case (name == 'all' or not) on the code specialised for that case
    CONNECT = "self.cb_registry.connect"

    def connected_names(stmts, value):
        """the document names the stored list of private ids covers: ('each', <iterable>) or ('one', <name expr>) or None"""
        v = q.straight_line_value(stmts, value)
        if isinstance(v, ast.ListComp) and len(v.generators) == 1 and not v.generators[0].ifs and isinstance(v.generators[0].target, ast.Name) \
                and isinstance(v.elt, ast.Call) and A.call_name(v.elt) == CONNECT and len(v.elt.args) == 2 \
                and A.norm(v.elt.args[0]) == v.generators[0].target.id and A.norm(v.elt.args[1]) == "func":
            it = v.generators[0].iter
            if isinstance(it, ast.List) and len(it.elts) == 1:
                return ("one", A.norm(it.elts[0]))
            return ("each", A.norm(it))
        if isinstance(v, ast.List) and len(v.elts) == 1 and isinstance(v.elts[0], ast.Call) and A.call_name(v.elts[0]) == CONNECT and len(v.elts[0].args) == 2 \
                and A.norm(v.elts[0].args[1]) == "func":
            return ("one", A.norm(v.elts[0].args[0]))
        if isinstance(value, ast.Name):
            # a list filled by a loop: L = [] ; for k in IT: L.append(connect(k, func))
            L = value.id
            inits = [s_ for s_ in stmts if isinstance(s_, ast.Assign) and A.norm(s_.targets[0]) == L and A.norm(s_.value) in ("[]", "list()")]
            fills = [s_ for s_ in stmts if isinstance(s_, ast.For) and isinstance(s_.target, ast.Name) and len(A.body(s_.body)) == 1
                     and A.norm(A.body(s_.body)[0]) == f"{L}.append({CONNECT}({s_.target.id}, func))"]
            others = [s_ for s_ in stmts if s_ not in inits and not any(s_ is x or s_ in A.body(x.body) for x in fills)
                      and any(isinstance(n_, ast.Name) and n_.id == L and isinstance(n_.ctx, ast.Store) for n_ in ast.walk(s_))]
            if len(inits) == 1 and len(fills) == 1 and not others:
                return ("each", A.norm(fills[0].iter))
        return None
    for case, env in (("all", {"name == 'all'": True, "name != 'all'": False}), ("one", {"name == 'all'": False, "name != 'all'": True})):
        body = q.specialise(A.body(sub.node), env)
        flat = list(A.walk_stmts(body))
        stores = [s_ for s_ in flat if isinstance(s_, ast.Assign) and isinstance(s_.targets[0], ast.Subscript) and A.chain(s_.targets[0].value) == "self._token_mapping"]
        rets = [s_ for s_ in flat if isinstance(s_, ast.Return)]
        first_ret = flat.index(rets[0]) if rets else len(flat)
        stores = [s_ for s_ in stores if flat.index(s_) < first_ret]
        ok = len(stores) == 1 and bool(rets)
        if ok:
            key = A.norm(q.straight_line_value(flat[:flat.index(stores[0])], stores[0].targets[0].slice))
            ret = A.norm(q.straight_line_value(flat[:first_ret], rets[0].value))
            ok = key == ret == "next(self._counter)" and isinstance(stores[0].targets[0].slice, ast.Name) and A.norm(rets[0].value) == A.norm(stores[0].targets[0].slice)
        ctx.ob("C18.D1-unsubscribe-shape", cname(sub, None, f"every subscription gets a fresh public token mapped to its own private ids [{case}]"), ok,
               "" if ok else "public tokens are reused / mapped to foreign ids", where=where(sub, sub.node))
        cov = connected_names(flat[:flat.index(stores[0])], stores[0].value) if len(stores) == 1 else None
        if case == "all":
            ok = cov is not None and cov[0] == "each" and cov[1] in ("DocumentNames", "list(DocumentNames)", "tuple(DocumentNames)")
            ctx.ob("C18.D1-unsubscribe-shape", cname(sub, None, "'all' connects the callable to every document name"), ok, "" if ok else f"'all' no longer covers every document kind ({cov})", where=where(sub, sub.node))
        else:
            ok = cov is not None and cov[0] == "one" and cov[1] == "DocumentNames[name]"
            ctx.ob("C18.D1-unsubscribe-shape", cname(sub, None, "a single name connects the callable to that document name"), ok, "" if ok else f"a named subscription is connected to {cov}", where=where(sub, sub.node))
    dis = repo.func(UT, "CallbackRegistry.disconnect")
    ok = any(isinstance(s, ast.Try) and any(isinstance(x, ast.Delete) and A.norm(x) == "del callbackd[cid]" for x in s.body) for s in A.walk_stmts(dis.node.body))
    ctx.ob("C18.D1-unsubscribe-shape", cname(dis, None, "disconnect removes exactly the given id"), ok, "" if ok else "disconnect removes something else", where=where(dis, dis.node))
    registry_connect_disconnect_inverse(ctx, repo, "C18.D1-disconnect-undoes-connect")
    init = repo.func(MOD, "Dispatcher.__init__")
    ok = "self._counter = count()" in A.norm(init.node) and "self._token_mapping = dict()" in A.norm(init.node)
    ctx.ob("C18.D1-unsubscribe-shape", cname(init, None, "token counter and mapping are per dispatcher"), ok, "" if ok else "token source changed", where=where(init, init.node))
    # D2
    c06.d4_per_call_subscriptions(ctx, rm)
    for o in ctx.obligations:
        if o["rule"].startswith("C06.D4"):
            o["rule"] = o["rule"].replace("C06.D4", "C18.D2")
    ctx._min = {k.replace("C06.D4", "C18.D2"): v for k, v in ctx._min.items()}
    h = rm.handler("unsubscribe")
    seq = [A.norm(s) for s in A.walk_stmts(h.node.body)]
    ok = "self.unsubscribe(token)" in seq and "self._temp_callback_ids.remove(token)" in seq
    ctx.ob("C18.D2-in-plan-unsubscribe", cname(h, None, "unsubscribes the given token and forgets it"), ok, "" if ok else "token handling changed", where=where(h, h.node))
    for nm in ("subscribe", "unsubscribe"):
        f = rm.m(nm)
        ok = any(isinstance(s, ast.Return) and A.norm(s.value).startswith(f"self.dispatcher.{nm}(") for s in f.node.body)
        ctx.ob("C18.D2-in-plan-unsubscribe", cname(f, None, f"RunEngine.{nm} delegates to its dispatcher"), ok, "" if ok else "delegation changed", where=where(f, f.node))
    # D3
    ua = repo.func(MOD, "Dispatcher.unsubscribe_all")
    loops = [s for s in ua.node.body if isinstance(s, ast.For)]
    ok = bool(loops) and A.norm(loops[0].iter) in ("list(self._token_mapping.keys())", "list(self._token_mapping)") and any("self.unsubscribe(" in A.norm(x) for x in loops[0].body)
    ctx.ob("C18.D3-unsubscribe-all", cname(ua, None, "iterates a copy of the tokens"), ok, "" if ok else "unsubscribe_all mutates the dict it iterates / skips tokens", where=where(ua, ua.node))
    rs = rm.m("reset")
    ok = any(A.norm(s) == "self.dispatcher.unsubscribe_all()" for s in rs.node.body)
    ctx.ob("C18.D3-unsubscribe-all", cname(rs, None, "reset() drops every subscription"), ok, "" if ok else "reset keeps subscriptions", where=where(rs, rs.node))
    # permanent subscriptions are not touched by the per-call cleanup: _clear_call_cache only iterates the temp ids
    ccc = rm.m("_clear_call_cache")
    bad = [c for c in A.calls_in(ccc.node) if A.call_name(c) in ("self.dispatcher.unsubscribe_all", "self.dispatcher.cb_registry.callbacks.clear")]
    ctx.ob("C18.D3-unsubscribe-all", cname(ccc, None, "per-call cleanup only drops the temporary tokens"), not bad, "" if not bad else "permanent subscriptions are dropped at the next call", where=where(ccc, ccc.node))


CLAIM = {
    "text": "Decides token injectivity and bookkeeping of subscriptions: given that unsubscribe disconnects every private id of its token, every "
            "return of CallbackRegistry.connect returns an id minted by that call or unsubscribe keeps ids still used by another token (F-6, "
            "fixed in /repo); public tokens are fresh and map to their own ids; per-call / in-plan tokens are recorded and dropped "
            "at the next call only; unsubscribe_all iterates a copy; subscribe / unsubscribe messages are uncacheable implicit checkpoints (never replayed by a rewind). Garbage collection of weak callables is not decided.",
    "technique": "provenance of returned ids (reaching definitions + dominance by the counter increment); subscribe specialised per case (name == 'all' or not) and its stored ids evaluated; release loop by reaching definitions; ownership",
}

RE = "run_engine.py"
U = "utils/__init__.py"
MUTANTS = [
    ("disconnect relies on the weak map to forget the proxy (seed C19-b)", [(U, "            else:\n                # Look for cid in 'self._func_cid_map' as well. It may still be there.\n                for sig, functions in self._func_cid_map.items():  # noqa: B007\n                    for function, value in list(functions.items()):\n                        if value == cid:\n                            del functions[function]\n                return", "            else:\n                return")], "C18.D1-disconnect"),
    ("shared private ids disconnected unconditionally (revert of the F-6 fix)",
     [(RE, "            if any(private_token in others for others in self._token_mapping.values()):\n                continue\n", "")], "C18.D1"),
    ("public tokens reused", [(RE, "        name = DocumentNames[name]\n        private_token = self.cb_registry.connect(name, func)\n        public_token = next(self._counter)", "        name = DocumentNames[name]\n        private_token = self.cb_registry.connect(name, func)\n        public_token = private_token")], "C18.D1"),
    ("unsubscribe keeps the mapping", [(RE, "        for private_token in self._token_mapping.pop(token, []):", "        for private_token in self._token_mapping.get(token, []):")], "C18.D1"),
    ("in-plan unsubscribe forgets to unsubscribe", [(RE, "        self.unsubscribe(token)\n        self._temp_callback_ids.remove(token)", "        self._temp_callback_ids.remove(token)")], "C18.D2"),
    ("unsubscribe_all iterates the live dict", [(RE, "        for public_token in list(self._token_mapping.keys()):", "        for public_token in self._token_mapping.keys():")], "C18.D3"),
    ("per-call cleanup drops everything", [(RE, "        for cid in self._temp_callback_ids:\n            self.unsubscribe(cid)\n        self._temp_callback_ids.clear()", "        self.dispatcher.unsubscribe_all()\n        self._temp_callback_ids.clear()")], ["C18.D3", "C18.D2"]),
    ("connect returns the previous id on every call", [(U, "        self._cid += 1\n        cid = self._cid\n        self._func_cid_map[sig][proxy] = cid", "        cid = self._cid\n        self._cid += 1\n        self._func_cid_map[sig][proxy] = cid")], "C18.D1") if False else
    ("disconnect removes every id of the signal", [(U, "                del callbackd[cid]\n            except KeyError:\n                continue", "                callbackd.clear()\n            except KeyError:\n                continue")], "C18.D1"),
]
BENIGN = []
