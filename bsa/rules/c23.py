"""C23 - paired-action wrappers always undo what they did."""

from __future__ import annotations

import ast

from .. import astutil as A
from .. import q
from ..idioms import cname, where
from . import c22

PP = "bluesky.preprocessors"
PS = "bluesky.plan_stubs"


def yfs(node):
    """normalised operands of the `yield from`s of a function body, in source order (nested defs excluded)"""
    out = []
    for s in A.walk_stmts(node.body):
        if isinstance(s, (ast.FunctionDef, ast.AsyncFunctionDef)):
            continue
        for n in A.walk_local(s) if not isinstance(s, (ast.If, ast.For, ast.While, ast.Try, ast.With)) else []:
            if isinstance(n, ast.YieldFrom):
                out.append(n.value)
    return out


def finalize_call(f):
    cs = [c for c in A.calls_in(f.node) if A.call_name(c) == "finalize_wrapper"]
    return cs[0] if len(cs) == 1 else None


def call_arg(repo, f, call, idx):
    """normalised text of a positional argument of ``call`` with the function's own reassignments followed back through
    reaching definitions (`plan = plan_mutator(plan, g)` then `finalize_wrapper(plan, ...)` reads as the nested call)"""
    if call is None or len(call.args) <= idx:
        return None
    g = q.cfg(f, q.quiet_policy(repo))
    st = A.enclosing_stmt(call, A.parents(f.node))
    ids = g.nodes_of(st) if st is not None else []
    if not ids:
        return A.norm(call.args[idx])
    return A.norm(q.expand_at(g, ids[0], call.args[idx]))


def local(repo, f, name):
    return repo.funcs.get(f"{f.module.name}:{f.qualname}.{name}")


def callee_name(expr):
    return A.call_name(expr) if isinstance(expr, ast.Call) else None


def check_acquire_inside(ctx, repo, wname, acquire_stub, release_stub, collection_hint, reversed_release=False, rule="C23.D1-release-is-final-plan"):
    """wrapper(plan, X): finalize_wrapper(<inner()>, <release()>) where inner = acquire(*X) then plan, release = release_stub(*[reversed](X))"""
    f = repo.func(PP, wname)
    fc = finalize_call(f)
    if fc is None or len(fc.args) < 2:
        ctx.ob(rule, cname(f, None, "release registered as final plan of finalize_wrapper"), False,
               "the wrapper no longer protects its plan with finalize_wrapper: a failing plan skips the release", where=where(f, f.node))
        return
    inner_f = local(repo, f, callee_name(fc.args[0]) or "")
    rel_f = local(repo, f, callee_name(fc.args[1]) or "")
    ok = inner_f is not None and rel_f is not None
    ctx.ob(rule, cname(f, None, "finalize_wrapper(<inner plan>(), <release plan>())"), ok,
           "" if ok else "protected / final plan of finalize_wrapper are not the wrapper's local inner and release plans", where=where(f, fc))
    if not ok:
        return
    # inner: acquire first (inside the protected region, so a partial acquire is undone), then the wrapped plan, whose value is returned
    # the inner plan seen flat: its own acquire helper (a sibling nested generator) spliced in where it is run
    flat_inner = q.flat_view(inner_f, scope=f.node)
    iy = yfs(inner_f.node)
    acq_f = local(repo, f, callee_name(iy[0]) or "") if iy else None
    if acq_f is None and iy and callee_name(iy[0]) == acquire_stub:
        acq_f = inner_f  # the acquire stub is yielded from directly, without a local helper generator around it
    if acq_f is None:
        # the acquire messages are written in line in the inner plan
        inline_acq = [n for n in A.walk_local(flat_inner.node) if (isinstance(n, ast.Yield) and isinstance(n.value, ast.Call) and A.call_name(n.value) == "Msg" and n.value.args
                                                                  and A.const_str(n.value.args[0]) == acquire_stub)
                      or (isinstance(n, ast.YieldFrom) and callee_name(n.value) == acquire_stub)]
        if inline_acq:
            acq_f = flat_inner
    fy = yfs(flat_inner.node)
    plan_last = bool(fy) and A.norm(fy[-1]) == "plan" and sum(1 for x in fy if A.norm(x) == "plan") == 1
    # every acquire yield precedes the wrapped plan
    order_ok = True
    if acq_f is not None and plan_last:
        ln_plan = fy[-1].lineno
        for n in A.walk_local(flat_inner.node):
            if isinstance(n, (ast.Yield, ast.YieldFrom)) and n is not None and getattr(n, "lineno", 0) > ln_plan:
                order_ok = False
    ok = acq_f is not None and plan_last and order_ok and (len(iy) == 2 or acq_f is flat_inner)
    ctx.ob(rule, cname(inner_f, None, "acquire (inside the protected plan), then the wrapped plan"), ok,
           "" if ok else f"inner plan yields from {[A.norm(x) for x in iy]}", nontrivial=True, where=where(inner_f, inner_f.node))
    rets = [s for s in A.walk_stmts(inner_f.node.body) if isinstance(s, ast.Return)]
    ok = bool(rets) and isinstance(rets[-1].value, ast.YieldFrom) and A.norm(rets[-1].value.value) == "plan"
    ctx.ob(rule, cname(inner_f, None, "returns the wrapped plan's value"), ok, "" if ok else "return value of the wrapped plan lost", where=where(inner_f, inner_f.node))
    # acquire / release bodies use the same collection
    def stub_over(g, stub):
        out = []
        for n in A.walk_local(g.node):
            if isinstance(n, ast.YieldFrom) and callee_name(n.value) == stub:
                out.append(n.value)
            if isinstance(n, ast.Yield) and isinstance(n.value, ast.Call) and A.call_name(n.value) == "Msg" and n.value.args and A.const_str(n.value.args[0]) == stub:
                out.append(n.value)
        return out
    if acq_f is not None:
        a = stub_over(acq_f, acquire_stub)
        r = stub_over(rel_f, release_stub)
        ok = len(a) == 1 and len(r) == 1
        ctx.ob(rule, cname(f, None, f"acquire via {acquire_stub}, release via {release_stub}"), ok,
               "" if ok else f"{len(a)} acquire / {len(r)} release sites", where=where(f, f.node))
        if ok and collection_hint:
            atxt, rtxt = A.norm(a[0]), A.norm(r[0])
            ok = collection_hint in atxt and collection_hint in rtxt
            if reversed_release:
                ok = ok and f"reversed({collection_hint})" in rtxt and "reversed" not in atxt
            ctx.ob("C23.D2-same-collection" if not reversed_release else "C23.D2-reverse-order", cname(f, None,
                   f"release covers exactly `{collection_hint}`" + (" in reverse order" if reversed_release else "")), ok,
                   "" if ok else f"acquire `{atxt}` vs release `{rtxt}`", nontrivial=True, where=where(f, f.node))


def run(ctx):
    repo = ctx.repo
    ctx.explanation = (
        "Decided: D1 each paired-action wrapper registers its release plan as the final plan of finalize_wrapper (whose exactly-once "
        "behaviour is C22) and multi-message acquires are inside the protected plan; run_wrapper opens the run directly before a "
        "contingency_wrapper whose except/else plans close it; D2 stage / lazily_stage unstage reversed(what they staged), subs / suspend "
        "wrappers release exactly what they recorded; D3 monitor_during / fly_during insert after open_run (head = the message itself) and "
        "before close_run (release messages, then the message) with both mutators applied; D4 run_wrapper's status mapping (C02.D1). "
        "Not decided: device lists with shared ancestors at run time; RunEngine-side effects of the messages.")
    # stage_wrapper
    check_acquire_inside(ctx, repo, "stage_wrapper", "stage_all", "unstage_all", "devices", reversed_release=True)
    f = repo.func(PP, "stage_wrapper")
    ok = any(isinstance(s, ast.Assign) and A.norm(s.targets[0]) == "devices" and "separate_devices(" in A.norm(s.value) and "root_ancestor(" in A.norm(s.value) for s in f.node.body)
    ctx.ob("C23.D2-reverse-order", cname(f, None, "devices de-duplicated by root ancestor once, before staging"), ok, "" if ok else "the device list is not reduced to distinct root ancestors ONCE, in one list shared by stage and unstage: either a device and its parent are both "
           "staged, or stage and unstage de-duplicate separately (first occurrences of the list vs of the reversed list differ) and the unstage order is not the reverse "
           "of the stage order", where=where(f, f.node))
    # subs_wrapper
    check_acquire_inside(ctx, repo, "subs_wrapper", "subscribe", "unsubscribe", "", rule="C23.D1-release-is-final-plan")
    f = repo.func(PP, "subs_wrapper")
    sub, uns = local(repo, f, "_subscribe"), local(repo, f, "_unsubscribe")
    if sub is None:
        sub = local(repo, f, "_inner_plan")  # the subscriptions may be made in line in the inner plan
    ok = sub is not None and ((any(A.norm(s) == "tokens.add(token)" for s in A.walk_stmts(sub.node.body)) and any(
        isinstance(s, ast.Assign) and A.norm(s.targets[0]) == "token" and isinstance(s.value, ast.Yield) and "'subscribe'" in A.norm(s.value) for s in A.walk_stmts(sub.node.body)))
        or any(isinstance(s, ast.Expr) and isinstance(s.value, ast.Call) and A.call_name(s.value) == "tokens.add" and len(s.value.args) == 1
               and isinstance(s.value.args[0], ast.Yield) and "'subscribe'" in A.norm(s.value.args[0]) for s in A.walk_stmts(sub.node.body)))
    ctx.ob("C23.D2-same-collection", cname(f, None, "every token returned by 'subscribe' is recorded"), ok, "" if ok else "tokens not recorded", where=where(f, f.node))
    ok = uns is not None and any(isinstance(s, ast.For) and A.norm(s.iter) == "tokens" and any(A.is_msg_yield(n, "unsubscribe") and "token=token" in A.norm(n) for n in A.walk_local(s))
                                 for s in A.walk_stmts(uns.node.body))
    ctx.ob("C23.D2-same-collection", cname(f, None, "exactly the recorded tokens are unsubscribed"), ok, "" if ok else "unsubscribe does not cover the recorded tokens", where=where(f, f.node))
    # suspend_wrapper
    check_acquire_inside(ctx, repo, "suspend_wrapper", "install_suspender", "remove_suspender", "", rule="C23.D1-release-is-final-plan")
    f = repo.func(PP, "suspend_wrapper")
    ins, rem = local(repo, f, "_install"), local(repo, f, "_remove")
    if ins is None:
        ins = local(repo, f, "_inner_plan")  # installed in line in the inner plan
    ok = ins is not None and rem is not None and all(
        any(isinstance(s, ast.For) and A.norm(s.iter) == "suspenders" and any(A.is_msg_yield(n, cmd) and A.norm(n.value.args[2]) == A.norm(s.target) for n in A.walk_local(s))
            for s in A.walk_stmts(g.node.body)) for g, cmd in ((ins, "install_suspender"), (rem, "remove_suspender")))
    ctx.ob("C23.D2-same-collection", cname(f, None, "install and remove iterate the same suspenders"), ok, "" if ok else "install / remove cover different suspenders", where=where(f, f.node))
    # lazily_stage_wrapper
    f = repo.func(PP, "lazily_stage_wrapper")
    fc = finalize_call(f)
    ok = fc is not None and len(fc.args) >= 2 and call_arg(repo, f, fc, 0) == "plan_mutator(plan, inner)" and callee_name(fc.args[1]) == "inner_unstage_all"
    ctx.ob("C23.D1-release-is-final-plan", cname(f, None, "finalize_wrapper(plan_mutator(plan, inner), inner_unstage_all())"), ok, "" if ok else "lazily staged devices are not unstaged by a final plan", where=where(f, f.node))
    un = local(repo, f, "inner_unstage_all")
    ok = un is not None and [A.norm(x) for x in yfs(un.node)] == ["unstage_all(*reversed(devices_staged))"]
    ctx.ob("C23.D2-reverse-order", cname(f, None, "unstage_all(*reversed(devices_staged))"), ok, "" if ok else "unstage order / coverage changed", where=where(f, f.node))
    ng = local(repo, f, "inner.new_gen")
    seq = [A.norm(s) for s in A.walk_stmts(ng.node.body)] if ng is not None else []
    ext = next((t for t in seq if t in ("devices_staged.extend(ret)", "devices_staged.extend([root] if ret is None else ret)", "devices_staged.extend(ret if ret is not None else [root])")), None)
    ok = ng is not None and any(t.startswith("ret = (yield Msg('stage', root))") or t.startswith("ret = yield Msg('stage', root)") for t in seq) \
        and ext is not None and "yield msg" in seq and seq.index(ext) < seq.index("yield msg")
    ctx.ob("C23.D2-same-collection", cname(f, None, "what 'stage' returned is recorded before the original message runs"), ok, "" if ok else "staged devices are not recorded", where=where(f, f.node))
    inner = local(repo, f, "inner")
    ok = inner is not None and "msg.obj not in devices_staged" in A.norm(inner.node) and "root = root_ancestor(msg.obj)" in A.norm(inner.node)
    ctx.ob("C23.D2-same-collection", cname(f, None, "each device is staged once (root ancestor, not yet staged)"), ok, "" if ok else "double staging", where=where(f, f.node))
    # rewindable / count_time / reset_positions: release is the final plan
    for wname, prot, rel in (("rewindable_wrapper", "plan", "restore_rewindable"), ("configure_count_time_wrapper", "plan_mutator(plan, insert_set)", "reset"),
                             ("reset_positions_wrapper", "plan_mutator(plan, insert_reads)", "reset")):
        f = repo.func(PP, wname)
        fc = finalize_call(f)
        ok = fc is not None and len(fc.args) >= 2 and call_arg(repo, f, fc, 0) == prot and callee_name(fc.args[1]) == rel and local(repo, f, rel) is not None
        ctx.ob("C23.D1-release-is-final-plan", cname(f, None, f"finalize_wrapper({prot}, {rel}())"), ok, "" if ok else "the restore plan is not the final plan of finalize_wrapper", where=where(f, f.node))
    f = repo.func(PP, "rewindable_wrapper")
    rr, sr = local(repo, f, "restore_rewindable"), local(repo, f, "set_rewindable")
    ok = rr is not None and "initial_rewindable" in A.norm(rr.node) and any(A.is_msg_yield(n, "rewindable") and A.norm(n.value.args[2]) == "initial_rewindable" for n in A.walk_local(rr.node))
    ctx.ob("C23.D2-same-collection", cname(f, None, "restores the captured initial value"), ok, "" if ok else "restores something else", where=where(f, f.node))
    # run_wrapper
    f = repo.func(PP, "run_wrapper")
    seq = f.node.body
    i_open = next((i for i, s in enumerate(seq) if isinstance(s, ast.Assign) and isinstance(s.value, ast.YieldFrom) and callee_name(s.value.value) == "open_run"), None)
    i_cw = next((i for i, s in enumerate(seq) if isinstance(s, ast.Expr) and isinstance(s.value, ast.YieldFrom) and callee_name(s.value.value) == "contingency_wrapper"), None)
    between = [s for s in seq[(i_open or 0) + 1:(i_cw or 0)] if not isinstance(s, (ast.FunctionDef,))]
    ok = None not in (i_open, i_cw) and i_open < i_cw and not between
    ctx.ob("C23.D1-release-is-final-plan", cname(f, None, "open_run directly followed by the contingency_wrapper that closes the run"), ok,
           "" if ok else "something can fail between open_run and the protected region", nontrivial=True, where=where(f, f.node))
    cw_calls = [c for c in A.calls_in(f.node) if A.call_name(c) == "contingency_wrapper"]
    ep_name = A.norm(A.kw(cw_calls[0], "except_plan")) if cw_calls and A.kw(cw_calls[0], "except_plan") is not None else "except_plan"
    n_close = sum(1 for fn in (f, local(repo, f, ep_name)) if fn is not None for c in A.calls_in(fn.node) if A.call_name(c) == "close_run")
    ok = n_close in (1, 2) and "else_plan=close_run" in A.norm(f.node)  # (that each outcome closes exactly once with its status is C02.D1 / D4)
    ctx.ob("C23.D1-release-is-final-plan", cname(f, None, "one close_run per outcome (except: 2 branches, else: close_run)"), ok, "" if ok else f"{n_close} close_run calls", where=where(f, f.node))
    rets = [s for s in seq if isinstance(s, ast.Return)]
    ok = bool(rets) and i_open is not None and A.norm(rets[-1].value) == A.norm(seq[i_open].targets[0])
    ctx.ob("C23.D1-release-is-final-plan", cname(f, None, "returns the run's uid"), ok, "" if ok else "return changed", where=where(f, f.node))
    from . import c02
    from ..re_model import REModel
    n0 = len(ctx.obligations)
    c02.d1_tables(ctx, REModel(repo))
    kept = [o for o in ctx.obligations[n0:] if o["rule"] in ("C02.D1-run-wrapper-status", "C02.D1-control-exception-status")]
    for o in kept:
        o["rule"] = o["rule"].replace("C02.D1", "C23.D4")
    ctx.obligations[n0:] = kept
    # D3 monitor_during / fly_during
    for wname, after_cmds, before_seq in (("monitor_during_wrapper", "monitor_msgs", ["ensure_generator(unmonitor_msgs)"]),
                                          ("fly_during_wrapper", "kickoff_msgs", ["ensure_generator(complete_msgs)", "ensure_generator(collect_msgs)"])):
        f = repo.func(PP, wname)
        ao, bc = local(repo, f, "insert_after_open"), local(repo, f, "insert_before_close")
        ok = ao is not None and any(isinstance(s, ast.If) and A.norm(s.test) == "msg.command == 'open_run'" and any(
            isinstance(x, ast.Return) and A.norm(x.value) == "(single_gen(msg), new_gen())" for x in s.body) for s in ao.node.body)
        ctx.ob("C23.D3-inserted-around-run", cname(f, None, "after open_run: head = the message itself, tail = the acquire messages"), ok,
               "" if ok else "the acquire messages are not inserted right after open_run (or replace its response)", where=where(f, f.node))
        ng = local(repo, f, "insert_after_open.new_gen")
        ok = ng is not None and [A.norm(x) for x in yfs(ng.node)] == [f"ensure_generator({after_cmds})"]
        ctx.ob("C23.D3-inserted-around-run", cname(f, None, f"tail yields {after_cmds}"), ok, "" if ok else "tail content changed", where=where(f, f.node))
        ok = bc is not None and any(isinstance(s, ast.If) and A.norm(s.test) == "msg.command == 'close_run'" and any(
            isinstance(x, ast.Return) and A.norm(x.value) == "(new_gen(), None)" for x in s.body) for s in bc.node.body)
        ctx.ob("C23.D3-inserted-around-run", cname(f, None, "before close_run: head = release messages then the message"), ok, "" if ok else "release not inserted before close_run", where=where(f, f.node))
        ng = local(repo, f, "insert_before_close.new_gen")
        def flat(e):
            # ensure_generator(a + b) yields a's messages, then b's: the same sequence as two yield-froms
            if isinstance(e, ast.Call) and A.call_name(e) == "ensure_generator" and len(e.args) == 1:
                known_lists = tuple(x[len("ensure_generator("):-1] for x in before_seq)
                parts, stack = [], [q.expand(f.node, e.args[0], keep=known_lists)]
                while stack:
                    x = stack.pop(0)
                    if isinstance(x, ast.BinOp) and isinstance(x.op, ast.Add):
                        stack = [x.left, x.right] + stack
                    else:
                        parts.append(f"ensure_generator({A.norm(x)})")
                return parts
            return [A.norm(e)]
        ok = ng is not None and [t for x in yfs(ng.node) for t in flat(x)] == before_seq and any(
            isinstance(n, ast.Yield) and A.norm(n.value) == "msg" for n in A.walk_local(ng.node.body[-1]))
        ctx.ob("C23.D3-inserted-around-run", cname(f, None, "release messages precede close_run, which comes last"), ok, "" if ok else "order changed", where=where(f, f.node))
        outs = [q.expand(f.node, n.value) for st in f.node.body for n in A.walk_local(st) if isinstance(n, ast.YieldFrom) and not isinstance(st, (ast.FunctionDef,))]
        ok = any(A.norm(o) == "plan_mutator(plan_mutator(plan, insert_after_open), insert_before_close)" for o in outs)
        ctx.ob("C23.D3-inserted-around-run", cname(f, None, "both mutators applied"), ok, "" if ok else "only one insertion is applied", where=where(f, f.node))
    f = repo.func(PP, "monitor_during_wrapper")
    txt = A.norm(f.node)
    ok = "unmonitor_msgs = [Msg('unmonitor', sig) for sig in signals]" in txt and "for sig in signals]" in txt.split("monitor_msgs =")[1].split("\n")[0]
    ctx.ob("C23.D3-inserted-around-run", cname(f, None, "monitor and unmonitor lists built from the same signals"), ok, "" if ok else "lists diverge", where=where(f, f.node))
    f = repo.func(PP, "fly_during_wrapper")
    txt = A.norm(f.node)
    ok = all(f"for flyer in flyers]" in txt.split(f"{nm} =")[1].split("\n")[0] for nm in ("kickoff_msgs", "complete_msgs", "collect_msgs"))
    ctx.ob("C23.D3-inserted-around-run", cname(f, None, "kickoff / complete / collect lists built from the same flyers"), ok, "" if ok else "lists diverge", where=where(f, f.node))
    ok = "complete_msgs += [Msg('wait', None, group=grp2)]" in txt or "complete_msgs.append(Msg('wait', None, group=grp2))" in txt
    ctx.ob("C23.D3-inserted-around-run", cname(f, None, "completion is waited for before collecting"), ok, "" if ok else "no wait between complete and collect", where=where(f, f.node))
    # unstage_all / stage_all cover every argument
    for nm, cmd in (("stage_all", "stage"), ("unstage_all", "unstage")):
        g = repo.func(PS, nm)
        ok = any(isinstance(s, ast.For) and A.norm(s.iter) in ("args", "devices") and any(A.is_msg_yield(n, cmd) for n in A.walk_local(s)) for s in A.walk_stmts(g.node.body))
        ctx.ob("C23.D2-same-collection", cname(g, None, f"one '{cmd}' message per device given"), ok, "" if ok else f"{nm} skips devices", where=where(g, g.node))


CLAIM = {
    "text": "Decides the acquire/release structure of the paired-action wrappers: every release plan is the final plan of finalize_wrapper (C22 "
            "decides that it then runs exactly once), multi-message acquires sit inside the protected plan, release covers exactly what was "
            "recorded (reversed for staging), run_wrapper opens directly before a contingency_wrapper that closes per outcome, and the "
            "monitor/fly wrappers insert after open_run and before close_run with both mutators applied. Run-time device lists are not decided.",
    "technique": "acquire/release pairing over resolved local plans; argument / collection agreement; yield-sequence rules",
}

P = "preprocessors.py"
MUTANTS = [
    ("stage_wrapper stages outside the protected plan",
     [(P, "    def inner():\n        yield from stage_devices()\n        return (yield from plan)\n\n    return (yield from finalize_wrapper(inner(), unstage_devices()))",
       "    def inner():\n        return (yield from plan)\n\n    yield from stage_devices()\n    return (yield from finalize_wrapper(inner(), unstage_devices()))")], "C23.D1"),
    ("unstage in staging order", [(P, "    def unstage_devices():\n        yield from unstage_all(*reversed(devices))", "    def unstage_devices():\n        yield from unstage_all(*devices)")], "C23.D2"),
    ("lazily staged devices unstaged in staging order", [(P, "        yield from unstage_all(*reversed(devices_staged))", "        yield from unstage_all(*devices_staged)")], "C23.D2"),
    ("subscription tokens not recorded", [(P, "                token = yield Msg(\"subscribe\", None, func, name)\n                tokens.add(token)", "                token = yield Msg(\"subscribe\", None, func, name)")], "C23.D2"),
    ("unmonitor inserted after close_run", [(P, "                yield from ensure_generator(unmonitor_msgs)\n                yield msg", "                yield msg\n                yield from ensure_generator(unmonitor_msgs)")], "C23.D3"),
    ("fly_during applies only the kickoff insertion", [(P, "    plan1 = plan_mutator(plan, insert_after_open)\n    plan2 = plan_mutator(plan1, insert_before_close)\n    return (yield from plan2)\n\n\ndef lazily_stage_wrapper", "    plan1 = plan_mutator(plan, insert_after_open)\n    return (yield from plan1)\n\n\ndef lazily_stage_wrapper")], "C23.D3"),
    ("run_wrapper does work between open_run and the protected region",
     [(P, "    yield from contingency_wrapper(plan, except_plan=except_plan, else_plan=close_run)\n    return rs_uid", "    yield Msg(\"checkpoint\")\n    yield from contingency_wrapper(plan, except_plan=except_plan, else_plan=close_run)\n    return rs_uid")], "C23.D1"),
    ("suspend_wrapper removes only the first suspender", [(P, "    def _remove():\n        for susp in suspenders:", "    def _remove():\n        for susp in suspenders[:1]:")], "C23.D2"),
    ("rewindable restored to True instead of the captured value", [(P, "            return (yield Msg(\"rewindable\", None, initial_rewindable))", "            return (yield Msg(\"rewindable\", None, True))")], "C23.D2"),
    ("reset_positions resets outside finalize", [(P, "    return (yield from finalize_wrapper(plan_mutator(plan, insert_reads), reset()))", "    ret = yield from plan_mutator(plan, insert_reads)\n    yield from reset()\n    return ret")], "C23.D1"),
    ("monitor head replaces the open_run message", [(P, "            def new_gen():\n                yield from ensure_generator(monitor_msgs)\n\n            return single_gen(msg), new_gen()", "            def new_gen():\n                yield from ensure_generator(monitor_msgs)\n\n            return new_gen(), single_gen(msg)")], "C23.D3"),
]
BENIGN = []
